/*
 * C09: tree model, generator, renderers and comparison (see c09_tree.h and
 * the spelling notes at the top of c09_readback.c).
 */
#include <stdlib.h>
#include <ctype.h>
#include <sys/uio.h>

#include "config.h"
#include "types.h"
#include "parse.h"
#include "node.h"
#include "meta.h"

#include "c09_tree.h"

/* ------------------------------------------------------------------ bytes */
static void b_need(bytes *b, size_t add)
{
	if (b->n + add <= b->cap) return;
	size_t c = b->cap ? b->cap * 2 : 256;
	while (c < b->n + add) c *= 2;
	b->d = realloc(b->d, c);
	if (!b->d) vf_inconclusive("out of memory");
	b->cap = c;
}
static void b_put(bytes *b, int c) { b_need(b, 1); b->d[b->n++] = (uint8_t) c; }
static void b_add(bytes *b, const void *p, size_t n) { if (!n) return; b_need(b, n); memcpy(b->d + b->n, p, n); b->n += n; }
static void b_str(bytes *b, const char *s) { b_add(b, s, strlen(s)); }

/* ----------------------------------------------------------------- format */
const char *const c09_style_name[StyleCount] = { "prefix", "enclosed", "separated" };


const format c09_formats[] = {
	/* ctest invocations of examples/core/parse.c, layout::file_format(), default (mpt.conf) */
	{ "{*} =;!# `",   StylePrefix,    '{', '}', '=', ';', "!#", "`" },
	{ "[*] = ",       StylePrefix,    '[', ']', '=', 0,   "#",  "\"'" },
	{ "[*] = !",      StylePrefix,    '[', ']', '=', 0,   "!",  "\"'" },
	{ "{*} =;!#",     StylePrefix,    '{', '}', '=', ';', "!#", "\"'" },
	{ "{*} =;#! '\"", StylePrefix,    '{', '}', '=', ';', "#!", "'\"" },
	{ 0,              StylePrefix,    '{', '}', '=', 0,   "#",  "\"'" },
	{ "[ ] = #",      StyleSeparated, '[', ']', '=', 0,   "#",  "\"'" },
	{ "[ ] =;#",      StyleSeparated, '[', ']', '=', ';', "#",  "\"'" },
	{ "< > : ! `",    StyleSeparated, '<', '>', ':', 0,   "!",  "`" },
	{ "{x} =;#",      StyleEnclosed,  '{', '}', '=', ';', "#",  "\"'" },
	{ "{x} = #",      StyleEnclosed,  '{', '}', '=', 0,   "#",  "\"'" },
	{ "(x) :,!% `",   StyleEnclosed,  '(', ')', ':', ',', "!%", "`" },
};
const size_t c09_nformats = sizeof(c09_formats) / sizeof(*c09_formats);

static int is_format_char(const format *f, int c)
{
	return c == f->sstart || c == f->send || c == f->assign || (f->oend && c == f->oend)
	       || strchr(f->com, c) || strchr(f->esc, c) || c == '\\';
}

/* ------------------------------------------------------------------- tree */


tnode *c09_t_new(int section)
{
	tnode *t = calloc(1, sizeof(*t));
	if (!t) vf_inconclusive("out of memory");
	t->section = section;
	return t;
}
static void t_add(tnode *p, tnode *c)
{
	p->child = realloc(p->child, (p->nchild + 1) * sizeof(*p->child));
	if (!p->child) vf_inconclusive("out of memory");
	p->child[p->nchild++] = c;
}
void c09_t_free(tnode *t)
{
	for (size_t i = 0; i < t->nchild; i++) c09_t_free(t->child[i]);
	free(t->child); free(t->name); free(t->val); free(t);
}
void c09_t_fp(const tnode *t)
{
	vf_fp_u64(((uint64_t) t->section << 60) ^ ((uint64_t) t->quote << 48) ^ t->nchild);
	vf_fp(t->name, t->nlen);
	vf_fp(t->val, t->vlen);
	for (size_t i = 0; i < t->nchild; i++) c09_t_fp(t->child[i]);
}
static const char *const vocab[] = { "a", "b", "c", "ab", "x", "y", "name", "sect", "opt", "k", "zz", "eins", "zwei" };
#define NVOCAB (sizeof(vocab) / sizeof(*vocab))

static void gen_name(vf_rng *r, gen *g, tnode *t, unsigned flags, int allow_space, int allow_empty)
{
	static const char special[] = "_-+/:,@%&*~^?$";
	size_t n, i;
	uint32_t sel = vf_below(r, 100);
	bytes b = { 0, 0, 0 };

	if (sel < 35) {
		/* small vocabulary: duplicate names among siblings are wanted */
		b_str(&b, vocab[vf_below(r, NVOCAB)]);
	}
	else if (sel < 43 && allow_empty && (flags & 0x10)) {
		/* empty */
	}
	else {
		if (sel >= 43 && sel < 45 && !g->longname) { n = (size_t) vf_range(r, 250, 260); g->longname++; }
		else n = (size_t) vf_range(r, 1, 12);
		for (i = 0; i < n; i++) {
			int c = 'a' + (int) vf_below(r, 26);
			switch (vf_below(r, 12)) {
			case 0: if (flags & (i ? 0x2 : 0x1)) c = '0' + (int) vf_below(r, 10); break;
			case 1: if (flags & 0x4) c = special[vf_below(r, sizeof(special) - 1)]; break;
			case 2: if ((flags & 0x8) && allow_space && i && i + 1 < n) c = vf_chance(r, 1, 5) ? '\t' : ' '; break;
			case 3: if ((flags & 0x20) && vf_chance(r, 1, 2)) c = vf_chance(r, 1, 6) ? 0xfe + (int) vf_below(r, 2) : 0x80 + (int) vf_below(r, 128); break;
			case 4: c = 'A' + (int) vf_below(r, 26); break;
			}
			/* no delimiter of the active format, no path separator */
			if (is_format_char(g->f, c) || c == '.') c = 'q';
			b_put(&b, c);
		}
	}
	t->name = b.d;
	t->nlen = b.n;
}
static void gen_value(vf_rng *r, gen *g, tnode *t)
{
	static const char punct[] = "_-+/.,:@%&*~^?$()<>[]{}|=;!#";
	const format *f = g->f;
	uint32_t sel = vf_below(r, 1000);
	size_t n, i;
	bytes b = { 0, 0, 0 };

	t->quote = (f->esc[0] && vf_chance(r, 1, 3)) ? f->esc[vf_below(r, (uint32_t) strlen(f->esc))] : 0;
	if (sel < 60) n = 0;
	else if (sel < 110) { n = (size_t) vf_range(r, 250, 260); if (n < 255) g->val250++; else g->val255++; }
	else if (sel < 116 && !g->huge) { n = (size_t) vf_range(r, 65530, 65540); g->huge++; }
	else n = (size_t) vf_range(r, 1, 70);
	for (i = 0; i < n; i++) {
		int c;
		uint32_t k = vf_below(r, 16);
		if (k < 9) c = "abcdefghijklmnopqrstuvwxyzABCXYZ"[vf_below(r, 32)];
		else if (k < 11) c = '0' + (int) vf_below(r, 10);
		else if (k < 13) c = ' ';
		else if (k < 15) c = punct[vf_below(r, sizeof(punct) - 1)];
		else c = vf_chance(r, 1, 2) ? (vf_chance(r, 1, 5) ? 0xfe + (int) vf_below(r, 2) : vf_chance(r, 1, 3) ? 0xc3 : 0x80 + (int) vf_below(r, 128)) : "\"'`"[vf_below(r, 3)];
		if (t->quote) {
			/* everything but the backslash may stand between quotes */
			if (c == '\\') c = '/';
		} else {
			if (is_format_char(f, c)) c = 'v';
			if (c == ' ' && (!i || i + 1 == n)) c = 'w';
			/* "=f# ohne namen" (config.txt): no comment without a blank in front of it */
			if (i && b.d[i - 1] != ' ' && c != ' ' && vf_chance(r, 1, 40)) { c = f->com[vf_below(r, (uint32_t) strlen(f->com))]; g->comchar++; }
		}
		b_put(&b, c);
	}
	if (t->quote && n && vf_chance(r, 1, 4)) {
		/* significant blanks at the ends, the quote character itself inside */
		b.d[0] = ' ';
		if (n > 2) b.d[n - 1] = vf_chance(r, 1, 2) ? ' ' : (uint8_t) t->quote;
		if (n > 4) b.d[vf_below(r, (uint32_t) n - 2) + 1] = (uint8_t) t->quote;
	}
	t->val = b.d;
	t->vlen = b.n;
}
static void gen_option(vf_rng *r, gen *g, tnode *parent)
{
	tnode *t = c09_t_new(0);
	gen_name(r, g, t, g->opt, 1, 0);
	gen_value(r, g, t);
	t_add(parent, t);
	g->nodes++; g->options++;
}
void c09_gen_children(vf_rng *r, gen *g, tnode *parent, int depth)
{
	const format *f = g->f;
	int n = vf_range(r, 0, 6);
	if ((size_t) depth > g->depth) g->depth = (size_t) depth;
	if (f->style == StyleSeparated) {
		/* options, then flat sections holding options */
		if (depth) { while (n-- > 0) gen_option(r, g, parent); return; }
		for (int k = vf_range(r, 0, 3); k > 0; k--) gen_option(r, g, parent);
		while (n-- > 0) {
			tnode *s = c09_t_new(1);
			gen_name(r, g, s, g->sect, 1, 1);
			t_add(parent, s);
			g->nodes++; g->sections++;
			c09_gen_children(r, g, s, 1);
		}
		return;
	}
	while (n-- > 0 && g->nodes < 400) {
		if (depth < g->maxdepth && vf_chance(r, 2, 5)) {
			tnode *s = c09_t_new(1);
			gen_name(r, g, s, g->sect, f->style != StyleEnclosed, f->style != StyleEnclosed);
			t_add(parent, s);
			g->nodes++; g->sections++;
			c09_gen_children(r, g, s, depth + 1);
		}
		else gen_option(r, g, parent);
	}
}

/* --------------------------------------------------------------- renderer */


static void put_comment(render *o)
{
	/* comment character, anything but a line end, line end */
	const format *f = o->f;
	int n;
	b_put(&o->out, f->com[vf_below(o->r, (uint32_t) strlen(f->com))]);
	for (n = vf_range(o->r, 0, 20); n > 0; n--) {
		int c = 0x20 + (int) vf_below(o->r, 0x5f);
		if (vf_chance(o->r, 1, 30)) c = 0x80 + (int) vf_below(o->r, 128);
		b_put(&o->out, c);
	}
	b_put(&o->out, '\n');
	o->comments++;
}
static void inline_ws(render *o, const char *canonical)
{
	/* blanks inside an element */
	static const char *const ws[] = { "", " ", " ", "  ", "\t", " \t ", "    " };
	if (o->mode == Canonical) b_str(&o->out, canonical);
	else if (o->mode == Noisy) b_str(&o->out, ws[vf_below(o->r, sizeof(ws) / sizeof(*ws))]);
}
/*
 * Invisible text between two elements.  need_nl: the element before is an
 * option of a format without option end character, its value ends at the
 * line end.
 */
static void between(render *o, int depth, int need_nl)
{
	const format *f = o->f;
	int n;
	if (o->mode == Canonical) {
		if (o->out.n) b_put(&o->out, '\n');
		for (n = 0; n < depth; n++) b_put(&o->out, ' ');
		return;
	}
	if (o->mode == Compact) {
		/* c09_formats without option end: one element per line, as in the example files */
		if (need_nl || (!f->oend && o->out.n)) b_put(&o->out, '\n');
		return;
	}
	if (need_nl) {
		switch (vf_below(o->r, 5)) {
		case 0: b_str(&o->out, " \n"); break;
		case 1: b_str(&o->out, "\t \n"); break;
		case 2: b_str(&o->out, "\r\n"); o->crlf++; break;
		case 3: b_str(&o->out, vf_chance(o->r, 1, 2) ? " " : "  \t"); put_comment(o); o->trailing++; break;
		default: b_put(&o->out, '\n');
		}
	}
	for (n = vf_range(o->r, 0, 3); n > 0; n--) {
		switch (vf_below(o->r, 6)) {
		case 0: b_put(&o->out, '\n'); o->blanks++; break;
		case 1: b_str(&o->out, "  \n"); o->blanks++; break;
		case 2: inline_ws(o, ""); put_comment(o); break;
		case 3: b_put(&o->out, '\t'); break;
		default: b_put(&o->out, ' ');
		}
	}
}
static void put_value(render *o, const tnode *t)
{
	if (t->quote) {
		b_put(&o->out, t->quote);
		for (size_t i = 0; i < t->vlen; i++) {
			if (t->val[i] == t->quote) b_put(&o->out, '\\');
			b_put(&o->out, t->val[i]);
		}
		b_put(&o->out, t->quote);
	}
	else b_add(&o->out, t->val, t->vlen);
}
/* children of p; returns whether the last element still needs its line end */
static int render_items(render *o, const tnode *p, int depth, int need_nl)
{
	const format *f = o->f;
	for (size_t i = 0; i < p->nchild; i++) {
		const tnode *t = p->child[i];
		between(o, depth, need_nl);
		need_nl = 0;
		if (!t->section) {
			if (t->nlen) {
				b_add(&o->out, t->name, t->nlen);
				inline_ws(o, " ");
				b_put(&o->out, f->assign);
				inline_ws(o, " ");
			}
			put_value(o, t);
			if (f->oend) {
				inline_ws(o, "");
				b_put(&o->out, f->oend);
			}
			else need_nl = 1;
			continue;
		}
		switch (f->style) {
		case StylePrefix:
			b_add(&o->out, t->name, t->nlen);
			/* "freiform<newline>{" */
			if (o->mode == Noisy && t->nlen && vf_chance(o->r, 1, 5)) b_str(&o->out, vf_chance(o->r, 1, 2) ? "\n" : " \n  ");
			else inline_ws(o, " ");
			b_put(&o->out, f->sstart);
			need_nl = render_items(o, t, depth + 1, 0);
			between(o, depth, need_nl);
			b_put(&o->out, f->send);
			need_nl = 0;
			break;
		case StyleEnclosed:
			b_put(&o->out, f->sstart);
			inline_ws(o, "");
			b_add(&o->out, t->name, t->nlen);
			/* the name ends at the first blank */
			if (o->mode == Compact || (o->mode == Noisy && vf_chance(o->r, 1, 2))) b_put(&o->out, ' ');
			else b_put(&o->out, '\n');
			need_nl = render_items(o, t, depth + 1, 0);
			between(o, depth, need_nl);
			b_put(&o->out, f->send);
			need_nl = 0;
			break;
		default:
			b_put(&o->out, f->sstart);
			inline_ws(o, "");
			b_add(&o->out, t->name, t->nlen);
			inline_ws(o, "");
			b_put(&o->out, f->send);
			/* next section start ends this one */
			need_nl = render_items(o, t, depth + 1, 0);
		}
	}
	return need_nl;
}
void c09_render_doc(render *o, const tnode *root)
{
	int need_nl = render_items(o, root, 0, 0);
	/* the line end of the last line is optional (config.txt) */
	if (o->mode == Noisy) {
		if (!need_nl || vf_chance(o->r, 2, 3)) between(o, 0, need_nl);
	}
	else if (o->mode == Canonical && o->out.n) b_put(&o->out, '\n');
}

/* --------------------------------------------------------------- compare */

static char keybuf[96];
const char *c09_mkkey(const cmp *c, const char *what)
{
	snprintf(keybuf, sizeof(keybuf), "model:%s:%s:%s", c->phase, c->style, what);
	return keybuf;
}
static char where_buf[200];
static const char *where(const tnode *t, size_t idx)
{
	char hx[100];
	snprintf(where_buf, sizeof(where_buf), "child %zu (%s name[%zu]=%s)", idx, t->section ? "section" : "option", t->nlen, vf_hex(hx, sizeof(hx), t->name, t->nlen));
	return where_buf;
}
static char text_buf[700];
const char *c09_excerpt(const bytes *b)
{
	size_t o = 0;
	for (size_t i = 0; i < b->n && o + 5 < sizeof(text_buf); i++) {
		uint8_t ch = b->d[i];
		if (ch == '\n') { text_buf[o++] = '\\'; text_buf[o++] = 'n'; }
		else if (ch == '\t') { text_buf[o++] = '\\'; text_buf[o++] = 't'; }
		else if (ch < 0x20 || ch >= 0x7f) o += (size_t) snprintf(text_buf + o, 5, "\\x%02x", ch);
		else text_buf[o++] = (char) ch;
	}
	text_buf[o] = 0;
	return text_buf;
}
static void compare(cmp *c, const tnode *model, const MPT_STRUCT(node) *parent, const MPT_STRUCT(node) *first, int depth)
{
	const MPT_STRUCT(node) *n = first, *prev = 0;
	char h1[140], h2[140];
	for (size_t i = 0; i < model->nchild; i++, prev = n, n = n->next) {
		const tnode *t = model->child[i];
		const char *id;
		const uint8_t *data = 0;
		size_t len = 0;
		VF_CHECK(n != 0, c09_mkkey(c, "missing-node"), "%s: depth %d: %s missing, list ends after %zu of %zu nodes; text: %s",
		         c->desc, depth, where(t, i), i, model->nchild, c09_excerpt(c->text));
		/* links */
		VF_CHECK(n->parent == parent, c09_mkkey(c, "parent-link"), "%s: depth %d: %s has parent %p, expected %p (%s); text: %s",
		         c->desc, depth, where(t, i), (void *) n->parent, (void *) parent, depth ? "its section node" : "the target root", c09_excerpt(c->text));
		VF_CHECK(n->prev == prev, c09_mkkey(c, "prev-link"), "%s: depth %d: %s has a prev link that is not its predecessor; text: %s",
		         c->desc, depth, where(t, i), c09_excerpt(c->text));
		c->links++;
		/* name */
		vf_at("mpt_node_ident");
		id = mpt_node_ident(n);
		if (!t->nlen) {
			VF_CHECK(!id || !*id, c09_mkkey(c, "unexpected-name"), "%s: depth %d: %s read back with name '%s'; text: %s",
			         c->desc, depth, where(t, i), id, c09_excerpt(c->text));
		} else {
			size_t l = id ? strlen(id) : 0;
			if (!t->section && c->fstyle != StylePrefix && t->nlen > 2 && isspace(t->name[1]) && id) {
				/* mpt_parse_option() skips blanks behind the first character the section parser has taken */
				size_t k = 1;
				while (k < t->nlen && isspace(t->name[k])) k++;
				if (l == t->nlen - (k - 1) && id[0] == (char) t->name[0] && !memcmp(id + 1, t->name + k, t->nlen - k)) {
					if (vf_known("model:readback:option-name-blank-after-first-char")) { c->known_hit = 1; goto value; }
					vf_fail("model:readback:option-name-blank-after-first-char",
					        "%s: depth %d: %s read back without the blank(s) behind its first character: name[%zu]=%s; text: %s",
					        c->desc, depth, where(t, i), l, vf_hex(h1, sizeof(h1), id, l), c09_excerpt(c->text));
				}
			}
			VF_CHECK(id && l == t->nlen && !memcmp(id, t->name, l), c09_mkkey(c, t->nlen > 255 ? "name-over-255" : "name"),
			         "%s: depth %d: %s read back as name[%zu]=%s; text: %s",
			         c->desc, depth, where(t, i), l, id ? vf_hex(h1, sizeof(h1), id, l) : "(none)", c09_excerpt(c->text));
		}
		c->names++;
value:
		/* value */
		if (n->_meta) {
			vf_at("mpt_node_data");
			data = (const uint8_t *) mpt_node_data(n, &len);
			VF_CHECK(data || !len, c09_mkkey(c, "value-unreadable"), "%s: depth %d: %s has a value object without text", c->desc, depth, where(t, i));
			/* text objects carry the terminator in their length */
			if (len && !data[len - 1]) len--;
		}
		if (len != t->vlen || (len && memcmp(data, t->val, len))) {
			size_t d = 0;
			while (d < len && d < t->vlen && data[d] == t->val[d]) d++;
			if (t->vlen > 65535) {
				/* parser_context.valid is 16 bit */
				if (vf_known("model:readback:value-over-65535")) { c->known_hit = 1; goto children; }
				vf_fail("model:readback:value-over-65535", "%s: depth %d: %s value of %zu bytes read back with %zu bytes (first difference at %zu)",
				        c->desc, depth, where(t, i), t->vlen, len, d);
			}
			vf_fail(c09_mkkey(c, !n->_meta ? "value-missing" : t->vlen > 254 ? "value-over-254" : "value"),
			        "%s: depth %d: %s value[%zu]=%s read back as [%zu]=%s (first difference at %zu); text: %s",
			        c->desc, depth, where(t, i), t->vlen, vf_hex(h1, sizeof(h1), t->val, t->vlen), len,
			        vf_hex(h2, sizeof(h2), data, len), d, c09_excerpt(c->text));
		}
		c->values++;
children:
		if (!t->section || !t->nchild) {
			VF_CHECK(!n->children, c09_mkkey(c, "unexpected-children"), "%s: depth %d: %s read back with children; text: %s",
			         c->desc, depth, where(t, i), c09_excerpt(c->text));
		}
		else compare(c, t, n, n->children, depth + 1);
	}
	VF_CHECK(!n, c09_mkkey(c, "extra-node"), "%s: depth %d: more than the %zu expected nodes, first extra one is named '%s'; text: %s",
	         c->desc, depth, model->nchild, mpt_node_ident(n) ? mpt_node_ident(n) : "", c09_excerpt(c->text));
}

/* ------------------------------------------------------------------ flags */
void c09_flags_string(char *dst, unsigned sect, unsigned opt)
{
	static const struct { char c; unsigned f; } map[] = {
		{ 'f', 0x1 }, { 'c', 0x2 }, { 's', 0x4 }, { 'w', 0x8 }, { 'e', 0x10 }, { 'b', 0x20 }
	};
	size_t n = 0;
	for (int i = 0; i < 6; i++) {
		if (sect & map[i].f) dst[n++] = (char) toupper(map[i].c);
		if (opt & map[i].f) dst[n++] = map[i].c;
	}
	dst[n] = 0;
}
void c09_compare(cmp *c, const tnode *model, const void *parent, const void *first)
{
	compare(c, model, parent, first, 0);
}
