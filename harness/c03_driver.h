/*
 * Monitored driver for the frame decoder functions (shared by C01 and C03).
 *
 * The caller protocol is the one of DESIGN Appendix A / examples/core/coding.c:
 * the iovec array always describes the region from offset 0; return 1 = message
 * at [data.pos, +data.msg), next call consumes it; return 0 = more input
 * needed; MissingBuffer = insert space at state.curr and add its size to
 * curr; sourcelen == 0 with one iovec = peek; other negative returns = error.
 *
 * Monitors applied to every single decoder call:
 *   - every fragment handed over is its own exact-size heap block (ASan red
 *     zones right at both ends, zero-length fragments are poisoned bytes),
 *   - region snapshot before/after: bytes below the write target of the call
 *     (start of a released message, else end of the bytes decoded so far) and
 *     bytes at/after the input position (state.curr) after the call must be
 *     unchanged,
 *   - state sanity for non-negative returns (pos + len <= curr <= supplied),
 * and to the call sequence over one byte stream:
 *   - outcome j (message or error) against the reference decoder's verdict on
 *     the j-th zero-terminated chunk of the stream, input position after a
 *     message = end of that chunk, every complete chunk yields an outcome,
 *   - bounded number of calls (8 * (n + 8)).
 */
#ifndef C03_DRIVER_H
#define C03_DRIVER_H

#include <stdlib.h>
#include <sys/uio.h>

#include "core.h"
#include "convert.h"

#include "vf.h"
#include "c01_refcodec.h"

typedef int (*dd_fn_t)(MPT_STRUCT(decode_state) *, const struct iovec *, size_t);
static dd_fn_t const dd_fn[RC_NFMT] = {
	mpt_decode_cobs, mpt_decode_cobs_r, mpt_decode_cobs_zpe, mpt_decode_cobs_zpe_r, mpt_decode_command
};
static const char *const dd_api[RC_NFMT] = {
	"mpt_decode_cobs", "mpt_decode_cobs_r", "mpt_decode_cobs_zpe", "mpt_decode_cobs_zpe_r", "mpt_decode_command"
};
static const char *const dd_cnt_msg[RC_NFMT] = {
	"outcome:message:cobs", "outcome:message:cobs_r", "outcome:message:cobs_zpe", "outcome:message:cobs_zpe_r", "outcome:message:command"
};
static const char *const dd_cnt_err[RC_NFMT] = {
	"outcome:error:cobs", "outcome:error:cobs_r", "outcome:error:cobs_zpe", "outcome:error:cobs_zpe_r", "outcome:error:command"
};

enum { DD_ONESHOT, DD_BYTEWISE, DD_CUTS };

typedef struct {
	int fmt;
	int slack;     /* leading free bytes before the first input byte */
	int deliver;   /* DD_ONESHOT, DD_BYTEWISE, DD_CUTS (PRNG segment sizes) */
	int frag;      /* 0: one iovec; 1: 1..4 PRNG fragments per call (zero-length ones included) */
	int mbk;       /* bytes inserted per MissingBuffer answer */
	int peeks;     /* insert peek calls (1 in 3 chance before a call) */
	int again;     /* call once more with unchanged input after return 0 (1 in 4) */
} dd_sched;

typedef struct {
	unsigned messages;   /* messages delivered */
	unsigned errors;     /* error outcomes (at most 1: the run ends there) */
	unsigned unclaimed;  /* run hit a chunk without reference verdict */
	unsigned calls, missing_buffer, peeks;
	int last_ret;
} dd_result;

#define DD_MAXREGION 8192

typedef struct {
	const dd_sched *sc;
	vf_rng *rng;
	uint8_t cur[DD_MAXREGION];     /* region as the library left it */
	uint8_t before[DD_MAXREGION];
	size_t n;        /* bytes in region (slack + inserted + stream) */
	size_t avail;    /* prefix handed to the decoder */
	size_t pre;      /* slack + inserted bytes: region offset x >= curr is stream offset x - pre */
	MPT_STRUCT(decode_state) st;
	char key[160];
	char hx1[400], hx2[400];
} dd_ctx;

static const char *dd_key(dd_ctx *c, const char *what)
{
	snprintf(c->key, sizeof(c->key), "model:%s:%s", dd_api[c->sc->fmt] + 4, what);
	return c->key;
}
static const char *dd_state(const MPT_STRUCT(decode_state) *s, char *dst, size_t n)
{
	snprintf(dst, n, "ctx=%lx curr=%zu pos=%zu len=%zu msg=%zd", (unsigned long) s->_ctx, s->curr, s->data.pos, s->data.len, s->data.msg);
	return dst;
}

/* one monitored decoder call over region prefix [0, avail) */
static int dd_call(dd_ctx *c, int peek)
{
	struct iovec iov[4];
	size_t cut[5], nfrag = 1, i;
	MPT_STRUCT(decode_state) sb = c->st;
	const int fmt = c->sc->fmt;
	char sd1[120], sd2[120];
	int r;

	memcpy(c->before, c->cur, c->avail);
	/* fragment layout of this call */
	cut[0] = 0;
	if (!peek && c->sc->frag) {
		nfrag = 1 + vf_below(c->rng, 4);
		for (i = 1; i < nfrag; i++) cut[i] = vf_below(c->rng, (uint32_t) c->avail + 1);
		/* sort cut points */
		for (i = 1; i < nfrag; i++)
			for (size_t j = i + 1; j < nfrag; j++)
				if (cut[j] < cut[i]) { size_t t = cut[i]; cut[i] = cut[j]; cut[j] = t; }
	}
	cut[nfrag] = c->avail;
	for (i = 0; i < nfrag; i++) {
		size_t l = cut[i + 1] - cut[i];
		iov[i].iov_base = vf_xalloc(l);
		iov[i].iov_len = l;
		if (l) memcpy(iov[i].iov_base, c->cur + cut[i], l);
	}
	vf_at(dd_api[fmt]);
	vf_count(dd_api[fmt], 1);
	r = dd_fn[fmt](&c->st, iov, peek ? 0 : nfrag);
	for (i = 0; i < nfrag; i++) {
		size_t l = cut[i + 1] - cut[i];
		if (l) memcpy(c->cur + cut[i], iov[i].iov_base, l);
		vf_xfree(iov[i].iov_base, l);
	}
	if (vf_logging) {
		vf_log("%s %s(avail=%zu frags=%zu) = %d: %s -> %s  region=%s", rc_name[fmt], peek ? "peek" : "decode", c->avail, nfrag, r,
		       dd_state(&sb, sd1, sizeof(sd1)), dd_state(&c->st, sd2, sizeof(sd2)), vf_hex(c->hx1, sizeof(c->hx1), c->cur, c->avail));
	}
	/* --- write window */
	{
		size_t wstart = sb.data.pos + ((sb.data.msg >= 0) ? 0 : sb.data.len);
		size_t wend = sb.curr > c->st.curr ? sb.curr : c->st.curr;
		if (wstart > c->avail) wstart = c->avail;
		if (wend > c->avail) wend = c->avail;
		for (i = 0; i < c->avail; i++) {
			if (i >= wstart && i < wend) { i = wend - 1; continue; }
			if (c->cur[i] == c->before[i]) continue;
			vf_fail(dd_key(c, i < wstart ? (peek ? "peek-modified-decoded-data" : "modified-decoded-data")
			                             : (peek ? "peek-modified-unconsumed-input" : "modified-unconsumed-input")),
			        "%s call returned %d: region byte %zu changed %02x -> %02x, allowed window [%zu,%zu); state %s -> %s; region before=%s after=%s",
			        peek ? "peek" : "decode", r, i, c->before[i], c->cur[i], wstart, wend,
			        dd_state(&sb, sd1, sizeof(sd1)), dd_state(&c->st, sd2, sizeof(sd2)),
			        vf_hex(c->hx1, sizeof(c->hx1), c->before, c->avail), vf_hex(c->hx2, sizeof(c->hx2), c->cur, c->avail));
		}
		vf_count("monitor:window-compare", 1);
	}
	/* --- state sanity */
	if (r >= 0) {
		VF_CHECK(c->st.curr <= c->avail, dd_key(c, "input-position-beyond-data"),
		         "returned %d with curr=%zu but only %zu bytes were supplied; state %s -> %s", r, c->st.curr, c->avail,
		         dd_state(&sb, sd1, sizeof(sd1)), dd_state(&c->st, sd2, sizeof(sd2)));
		VF_CHECK(c->st.data.pos + c->st.data.len <= c->st.curr, dd_key(c, "decoded-data-beyond-input-position"),
		         "returned %d: %s (before %s)", r, dd_state(&c->st, sd2, sizeof(sd2)), dd_state(&sb, sd1, sizeof(sd1)));
	}
	if (peek) {
		int dchg = memcmp(c->before, c->cur, c->avail) != 0;
		int schg = memcmp(&sb, &c->st, sizeof(sb)) != 0;
		vf_count(dchg ? "observe:peek-changed-region" : (schg ? "observe:peek-changed-state-only" : "observe:peek-changed-nothing"), 1);
		if (r < 0 && r != MPT_ERROR(MissingData) && r != MPT_ERROR(MissingBuffer)) {
			/* refused peek (no message in progress): nothing at all may change */
			VF_CHECK(!dchg, dd_key(c, "refused-peek-modified-data"), "peek returned %d and changed the region: before=%s after=%s", r,
			         vf_hex(c->hx1, sizeof(c->hx1), c->before, c->avail), vf_hex(c->hx2, sizeof(c->hx2), c->cur, c->avail));
		}
	}
	return r;
}

/* answer MissingBuffer: k free bytes at state.curr */
static void dd_insert(dd_ctx *c, size_t k)
{
	size_t at = c->st.curr;
	if (at > c->avail) at = c->avail;
	if (c->n + k > DD_MAXREGION) vf_inconclusive("decode region exceeds %d bytes", DD_MAXREGION);
	memmove(c->cur + at + k, c->cur + at, c->n - at);
	memset(c->cur + at, 0xEE, k);
	c->n += k; c->avail += k; c->pre += k;
	c->st.curr += k;
}

/*
 * run the decoder over a byte stream and compare the outcome sequence with
 * the reference.  claim = 0: safety monitors only.
 */
static void dd_run(const dd_sched *sc, const uint8_t *stream, size_t n, vf_rng *rng, int claim, dd_result *res)
{
	static dd_ctx ctx;
	static uint8_t exp[2 * DD_MAXREGION + 8];
	dd_ctx *c = &ctx;
	const int fmt = sc->fmt;
	static const MPT_STRUCT(decode_state) init = MPT_DECODE_INIT;
	size_t chunk = 0;           /* stream offset of the chunk the next outcome belongs to */
	size_t steps = 0, bound = 8 * (n + 8) + 8 * (size_t) sc->slack;
	int ended = 0;

	memset(res, 0, sizeof(*res));
	if (n + sc->slack + 64 > DD_MAXREGION) vf_inconclusive("stream of %zu bytes too long for the decode driver", n);
	c->sc = sc; c->rng = rng;
	c->st = init;
	c->st.curr = sc->slack;
	memset(c->cur, 0xA5, sc->slack);
	if (n) memcpy(c->cur + sc->slack, stream, n);
	c->n = sc->slack + n;
	c->pre = sc->slack;
	c->avail = sc->slack;
	if (sc->deliver == DD_ONESHOT) c->avail = c->n;

	while (!ended) {
		int r;
		if (++steps > bound) {
			vf_fail(dd_key(c, "no-progress"), "%zu calls on a stream of %zu bytes without reaching its end (last return %d)", steps, n, res->last_ret);
		}
		if (sc->peeks && vf_chance(rng, 1, 3)) {
			dd_call(c, 1);
			res->peeks++;
		}
		r = dd_call(c, 0);
		res->calls++;
		res->last_ret = r;
		if (r == MPT_ERROR(MissingBuffer)) {
			res->missing_buffer++;
			vf_count("return:missing-buffer", 1);
			dd_insert(c, sc->mbk);
			continue;
		}
		if (r == 0) {
			vf_count("return:need-more", 1);
			if (sc->again && vf_chance(rng, 1, 4)) {
				int r2 = dd_call(c, 0);
				res->calls++;
				if (r2 == MPT_ERROR(MissingBuffer)) { dd_insert(c, sc->mbk); continue; }
				if (r2 != 0) { r = r2; goto outcome; }
			}
			if (c->avail < c->n) {
				size_t add = 1;
				if (sc->deliver == DD_CUTS) add = 1 + vf_below(rng, vf_chance(rng, 1, 2) ? 4 : 300);
				if (add > c->n - c->avail) add = c->n - c->avail;
				c->avail += add;
				continue;
			}
			/* all input handed over */
			if (claim) {
				/* every complete chunk must have produced an outcome */
				const uint8_t *z = (chunk < n) ? memchr(stream + chunk, 0, n - chunk) : 0;
				size_t el2 = 0;
				if (z && rc_decode(fmt, stream + chunk, (size_t) (z - (stream + chunk)), exp, &el2) != RC_UNCLAIMED) {
					vf_fail(dd_key(c, "complete-frame-not-delivered"),
					        "all %zu stream bytes supplied, chunk at stream offset %zu is terminated at %zu but the decoder asks for more data; stream=%s state %s",
					        n, chunk, (size_t) (z - stream), vf_hex(c->hx1, sizeof(c->hx1), stream, n), dd_state(&c->st, c->hx2, sizeof(c->hx2)));
				}
				vf_count("monitor:end-of-input-compare", 1);
			}
			break;
		}
outcome:
		{
			/* message or error: belongs to chunk at [chunk, zero) */
			const uint8_t *z = (chunk < n) ? memchr(stream + chunk, 0, n - chunk) : 0;
			size_t clen = z ? (size_t) (z - (stream + chunk)) : n - chunk;
			size_t elen = 0;
			int verdict = z ? rc_decode(fmt, stream + chunk, clen, exp, &elen) : -1;   /* -1: incomplete */

			if (verdict == RC_UNCLAIMED && claim) { claim = 0; res->unclaimed++; vf_count("outcome:unclaimed-chunk", 1); }
			if (r > 0) {
				const uint8_t *m = c->cur + c->st.data.pos;
				res->messages++;
				vf_count(dd_cnt_msg[fmt], 1);
				VF_CHECK(r == 1 && c->st.data.msg >= 0 && (size_t) c->st.data.msg <= c->st.data.len, dd_key(c, "message-state"),
				         "return %d with state %s", r, dd_state(&c->st, c->hx1, sizeof(c->hx1)));
				if (claim) {
					size_t ml = c->st.data.msg;
					if (verdict < 0) {
						vf_fail(dd_key(c, "message-from-incomplete-frame"), "message of %zu bytes (%s) delivered although the chunk at stream offset %zu has no delimiter yet; stream=%s",
						        ml, vf_hex(c->hx1, sizeof(c->hx1), m, ml), chunk, vf_hex(c->hx2, sizeof(c->hx2), stream, n));
					}
					if (verdict == RC_EMPTY || verdict == RC_MALFORMED) {
						vf_fail(dd_key(c, verdict == RC_EMPTY ? "message-from-empty-frame" : "message-from-malformed-frame"),
						        "message of %zu bytes (%s) delivered for the %s chunk at stream offset %zu; stream=%s",
						        ml, vf_hex(c->hx1, sizeof(c->hx1), m, ml), verdict == RC_EMPTY ? "empty (leading/double delimiter)" : "malformed (zero inside a block)",
						        chunk, vf_hex(c->hx2, sizeof(c->hx2), stream, n));
					}
					if (ml != elen || memcmp(m, exp, elen)) {
						vf_fail(dd_key(c, "message-differs-from-reference"),
						        "chunk at stream offset %zu (%zu bytes): decoder delivered %zu bytes %s, reference %zu bytes %s",
						        chunk, clen, ml, vf_hex(c->hx1, sizeof(c->hx1), m, ml), elen, vf_hex(c->hx2, sizeof(c->hx2), exp, elen));
					}
					VF_CHECK(c->st.curr == c->pre + chunk + clen + 1, dd_key(c, "input-position-after-message"),
					         "message of chunk [%zu,%zu) delivered, input position is stream offset %zd, expected %zu; state %s",
					         chunk, chunk + clen, (ssize_t) c->st.curr - (ssize_t) c->pre, chunk + clen + 1, dd_state(&c->st, c->hx1, sizeof(c->hx1)));
					vf_count("monitor:message-compare", 1);
				}
				chunk += clen + 1;
				if (chunk > n) { chunk = n; claim = 0; }
				continue;
			}
			/* error outcome */
			res->errors++;
			vf_count(dd_cnt_err[fmt], 1);
			if (claim && verdict == RC_OK) {
				vf_fail(dd_key(c, "error-on-wellformed-frame"),
				        "return %d for the well-formed chunk at stream offset %zu (%zu bytes, reference message %zu bytes %s); stream=%s",
				        r, chunk, clen, elen, vf_hex(c->hx1, sizeof(c->hx1), exp, elen), vf_hex(c->hx2, sizeof(c->hx2), stream, n));
			}
			if (claim) vf_count(verdict == RC_EMPTY ? "monitor:error-for-empty-frame" : verdict == RC_MALFORMED ? "monitor:error-for-malformed-frame" : "monitor:error-other", 1);
			/* resumption after an error: safety monitors only */
			for (int k = 0; k < 3; k++) {
				if (k == 1 && c->avail < c->n) c->avail = c->n;
				r = dd_call(c, 0);
				res->calls++;
				if (r == MPT_ERROR(MissingBuffer)) dd_insert(c, sc->mbk);
			}
			ended = 1;
		}
	}
	/* reset */
	vf_at(dd_api[fmt]);
	dd_fn[fmt](&c->st, 0, 0);
	vf_max("max:calls-per-stream", res->calls);
}

#endif /* C03_DRIVER_H */
