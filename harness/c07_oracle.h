/*
 * C07 oracle shared by c07_value.c and c07_cxx.cpp: exact meaning of a scalar
 * value and the exact-or-refused judgement of one conversion result.
 *
 * Integer/char targets are compared exactly in __int128; floating targets must
 * hold the round-to-nearest image of the source (computed by a cast from the
 * exact long double value and cross-checked against both neighbours); a finite
 * source that ends as inf/NaN, or any other value, is a violation.  Refusal is
 * always acceptable.
 */
#ifndef C07_ORACLE_H
#define C07_ORACLE_H

#include <stdlib.h>
#include <stdint.h>
#include <string.h>
#include <math.h>
#include <float.h>
#include <limits.h>

#include "vf.h"

typedef __int128 i128;

static size_t tsize(int t)
{
	switch (t) {
	case 'c': return sizeof(char);
	case 'b': case 'y': return 1;
	case 'n': case 'q': return 2;
	case 'i': case 'u': return 4;
	case 'x': case 't': return 8;
	case 'l': return sizeof(long);
	case 'f': return sizeof(float);
	case 'd': return sizeof(double);
	case 'e': return sizeof(long double);
	default: return 0;
	}
}
static int is_float(int t) { return t == 'f' || t == 'd' || t == 'e'; }
static int is_unsigned(int t) { return t == 'y' || t == 'q' || t == 'u' || t == 't'; }

/* a number: integer (exact) or floating */
enum { NInt, NFin, NInf, NNan };
typedef struct { int cls; i128 i; long double f; } num;

static num rd(int t, const void *p)
{
	num n = { NInt, 0, 0 };
	switch (t) {
	case 'c': { char v; memcpy(&v, p, 1); n.i = v; break; }
	case 'b': { int8_t v; memcpy(&v, p, 1); n.i = v; break; }
	case 'y': { uint8_t v; memcpy(&v, p, 1); n.i = v; break; }
	case 'n': { int16_t v; memcpy(&v, p, 2); n.i = v; break; }
	case 'q': { uint16_t v; memcpy(&v, p, 2); n.i = v; break; }
	case 'i': { int32_t v; memcpy(&v, p, 4); n.i = v; break; }
	case 'u': { uint32_t v; memcpy(&v, p, 4); n.i = v; break; }
	case 'x': { int64_t v; memcpy(&v, p, 8); n.i = v; break; }
	case 't': { uint64_t v; memcpy(&v, p, 8); n.i = v; break; }
	case 'l': { long v; memcpy(&v, p, sizeof(v)); n.i = v; break; }
	case 'f': { float v; memcpy(&v, p, sizeof(v)); n.f = v; n.cls = isnan(v) ? NNan : isinf(v) ? NInf : NFin; break; }
	case 'd': { double v; memcpy(&v, p, sizeof(v)); n.f = v; n.cls = isnan(v) ? NNan : isinf(v) ? NInf : NFin; break; }
	case 'e': { long double v; memcpy(&v, p, sizeof(v)); n.f = v; n.cls = isnan(v) ? NNan : isinf(v) ? NInf : NFin; break; }
	}
	if (n.cls == NInt) n.f = (long double) n.i;   /* exact: |i| <= 2^64 - 1 */
	return n;
}
static void i128str(char *dst, size_t n, i128 v)
{
	char tmp[48]; int p = 47, neg = v < 0;
	unsigned __int128 u = neg ? -(unsigned __int128) v : (unsigned __int128) v;
	tmp[p] = 0;
	do { tmp[--p] = (char) ('0' + (int) (u % 10)); u /= 10; } while (u);
	if (neg) tmp[--p] = '-';
	snprintf(dst, n, "%s", tmp + p);
}
static char nbuf1[80], nbuf2[80];
static const char *numstr(char *dst, num n)
{
	if (n.cls == NInt) i128str(dst, 80, n.i);
	else snprintf(dst, 80, "%.21Lg (%La)", n.f, n.f);
	return dst;
}

/* target range of integer types */
static void irange(int t, i128 *lo, i128 *hi)
{
	switch (t) {
	case 'c': *lo = CHAR_MIN; *hi = CHAR_MAX; break;
	case 'b': *lo = INT8_MIN; *hi = INT8_MAX; break;
	case 'y': *lo = 0; *hi = UINT8_MAX; break;
	case 'n': *lo = INT16_MIN; *hi = INT16_MAX; break;
	case 'q': *lo = 0; *hi = UINT16_MAX; break;
	case 'i': *lo = INT32_MIN; *hi = INT32_MAX; break;
	case 'u': *lo = 0; *hi = UINT32_MAX; break;
	case 'x': *lo = INT64_MIN; *hi = INT64_MAX; break;
	case 't': *lo = 0; *hi = (i128) UINT64_MAX; break;
	case 'l': *lo = LONG_MIN; *hi = LONG_MAX; break;
	default: *lo = 0; *hi = -1;
	}
}

/* round-to-nearest image of exact value v in floating type t (may be +-inf) */
static long double fround(int t, long double v)
{
	volatile float f; volatile double d;
	switch (t) {
	case 'f': f = (float) v; return f;
	case 'd': d = (double) v; return d;
	default: return v;
	}
}
static long double fnext(int t, long double v, int up)
{
	switch (t) {
	case 'f': return nextafterf((float) v, up ? INFINITY : -INFINITY);
	case 'd': return nextafter((double) v, up ? INFINITY : -INFINITY);
	default: return nextafterl(v, up ? INFINITY : -INFINITY);
	}
}
/* self-check of the oracle: e is a value of type t nearest to v */
static void oracle_nearest(int t, long double v, long double e)
{
	long double de, dl, dh;
	if (isinf(e) || isnan(e) || isnan(v) || isinf(v)) return;
	de = fabsl(e - v);
	dl = fabsl(fnext(t, e, 0) - v);
	dh = fabsl(fnext(t, e, 1) - v);
	if (de > dl || de > dh) {
		vf_inconclusive("oracle inconsistency: %La rounded to type %c gives %La, a neighbour is closer", v, t, e);
	}
}

/* can the number be represented in integer/char type t? */
static int int_representable(num v, int t)
{
	i128 lo, hi, iv;
	irange(t, &lo, &hi);
	if (v.cls == NInt) iv = v.i;
	else {
		if (v.cls != NFin) return 0;
		if (v.f != truncl(v.f)) return 0;
		if (v.f < -18446744073709551616.0L || v.f > 18446744073709551616.0L) return 0;
		iv = (i128) v.f;
	}
	if (t == 'c') return iv >= lo && iv <= hi;  /* may still be refused (non-printable) */
	return iv >= lo && iv <= hi;
}

typedef struct { uint64_t compared, float_checked, refused_representable, refused_unrepresentable; } c07_stats;
static char c07_keybuf[96];
static const char *c07_key(const char *prefix, const char *what)
{
	snprintf(c07_keybuf, sizeof(c07_keybuf), "model:%s:%s", prefix, what);
	return c07_keybuf;
}
/*
 * judge one conversion of the number v to scalar type t: rp is the return code
 * of the performing call, dest the destination it was given.  Violations leave
 * through vf_fail with key model:<prefix>:<what>.
 */
static void c07_judge(const char *prefix, const char *ctx, num v, int t, const void *dest, int rp, c07_stats *st)
{
	if (rp < 0) {
		int repr = is_float(t) ? 1 : int_representable(v, t);
		if (repr) st->refused_representable++; else st->refused_unrepresentable++;
		return;
	}
	if (!is_float(t)) {
		num r = rd(t, dest);
		i128 lo, hi;
		irange(t, &lo, &hi);
		(void) lo; (void) hi;
		if (v.cls == NInt) {
			VF_CHECK(r.i == v.i, c07_key(prefix, is_unsigned(t) && v.i < 0 ? "sign-lost" : "value-changed"),
			         "%s: accepted (%d), target holds %s", ctx, rp, numstr(nbuf2, r));
		} else {
			VF_CHECK(v.cls == NFin, c07_key(prefix, "nonfinite-to-integer"), "%s: accepted (%d), target holds %s", ctx, rp, numstr(nbuf2, r));
			VF_CHECK(v.f == (long double) r.i, c07_key(prefix, "value-changed"), "%s: accepted (%d), target holds %s", ctx, rp, numstr(nbuf2, r));
		}
		st->compared++;
		return;
	}
	/* floating target */
	{
		num r = rd(t, dest);
		long double e;
		if (v.cls == NNan) {
			VF_CHECK(r.cls == NNan, c07_key(prefix, "nan-became-number"), "%s: accepted (%d), target holds %s", ctx, rp, numstr(nbuf2, r));
			st->compared++;
			return;
		}
		if (v.cls == NInf) {
			VF_CHECK(r.cls == NInf && (r.f > 0) == (v.f > 0), c07_key(prefix, "infinity-changed"), "%s: accepted (%d), target holds %s", ctx, rp, numstr(nbuf2, r));
			st->compared++;
			return;
		}
		e = fround(t, v.f);
		oracle_nearest(t, v.f, e);
		VF_CHECK(r.cls != NNan, c07_key(prefix, "finite-to-nan"), "%s: accepted (%d), target holds NaN", ctx, rp);
		VF_CHECK(r.cls != NInf, c07_key(prefix, "finite-to-inf"), "%s: accepted (%d), target holds %s (largest finite value of the type is %Lg)",
		         ctx, rp, numstr(nbuf2, r), t == 'f' ? (long double) FLT_MAX : t == 'd' ? (long double) DBL_MAX : LDBL_MAX);
		VF_CHECK(!isinf(e), c07_key(prefix, "saturated"), "%s: accepted (%d), target holds %s, source is outside the type's range", ctx, rp, numstr(nbuf2, r));
		VF_CHECK(r.f == e, c07_key(prefix, "not-nearest"), "%s: accepted (%d), target holds %s, nearest value of the type is %La", ctx, rp, numstr(nbuf2, r), e);
		st->compared++;
		st->float_checked++;
		return;
	}
}

#endif /* C07_ORACLE_H */
