/*
 * C14: node trees stay structurally sound.
 *
 * A case is one PRNG history over a population of at most LIVE_MAX nodes.
 * Every node created by the harness carries a harness metatype: its `unref`
 * is the release witness, its `clone` is observable (and can be made to
 * fail).  After every operation
 *   - walker: every link of every live node is NULL or a live node; from the
 *     top-level list heads every live node is reached exactly once;
 *     n->prev / n->parent agree with the way the node was reached; the
 *     parent's `children` is a list head; no metatype of a live node was
 *     released;
 *   - model: parent and top-level list membership of every node equal the
 *     model (sets only, positions inside a list are adopted);
 *   - release: a destroyed/cleared subtree has every metatype released
 *     exactly once and the node memory freed (ASan poison query);
 *   - clone: recursive comparison of names, value bytes, child count/order and
 *     parent links of the copy.
 */
#include <stdlib.h>
#include <errno.h>
#include <sys/uio.h>

#if defined(__SANITIZE_ADDRESS__)
# include <sanitizer/asan_interface.h>
# define POISONED(p) (__asan_address_is_poisoned(p))
#else
# define POISONED(p) 1
#endif

#include "meta.h"
#include "node.h"
#include "parse.h"
#include "types.h"
#include "config.h"
#include "vf.h"

const char *vf_name = "c14_node";

#define MAXN     160
#define MAXM     256
#define LIVE_MAX 24
#define GMAX     4096

/* ------------------------------------------------------------- metatypes */
struct hmeta {
	MPT_INTERFACE(metatype) mt;
	int used, unrefs, clone_of, vlen;
	uint8_t val[8];
};
static struct hmeta metas[MAXM];
static int nmetas;
static long clone_calls, clone_fail_at;
static long total_unrefs, expected_unrefs;
static const char *cur_op = "setup";

static char keybuf[160];
static const char *K(const char *op, const char *what)
{
	snprintf(keybuf, sizeof(keybuf), "model:%s:%s", op, what);
	return keybuf;
}

static int hm_conv(MPT_INTERFACE(convertable) *c, MPT_TYPE(type) type, void *ptr)
{
	struct hmeta *m = (void *) c;
	if (!type) {
		if (ptr) *((const uint8_t **) ptr) = (const uint8_t *) "";
		return 's';
	}
	if (type == 's') {
		if (ptr) *((const char **) ptr) = (const char *) m->val;
		return 's';
	}
	return MPT_ERROR(BadType);
}
static void hm_unref(MPT_INTERFACE(metatype) *mt)
{
	struct hmeta *m = (void *) mt;
	int id = (int) (m - metas);
	if (id < 0 || id >= nmetas || !m->used)
		vf_fail(K(cur_op, "unref-of-unknown-metatype"), "unref called with %p which is no live harness metatype", (void *) mt);
	++total_unrefs;
	if (++m->unrefs > 1)
		vf_fail(K(cur_op, "released-twice"), "metatype %d released %d times", id, m->unrefs);
	vf_count("witness:unref", 1);
}
static uintptr_t hm_addref(MPT_INTERFACE(metatype) *mt)
{
	(void) mt;
	return 0; /* not shareable: forces clone for copies */
}
static MPT_INTERFACE(metatype) *hm_clone(const MPT_INTERFACE(metatype) *mt);
static const MPT_INTERFACE_VPTR(metatype) hm_vptr = { { hm_conv }, hm_unref, hm_addref, hm_clone };

static int meta_alloc(void)
{
	if (nmetas >= MAXM) vf_inconclusive("metatype table exhausted");
	struct hmeta *m = &metas[nmetas];
	memset(m, 0, sizeof(*m));
	m->mt._vptr = &hm_vptr;
	m->used = 1;
	m->clone_of = -1;
	return nmetas++;
}
static MPT_INTERFACE(metatype) *hm_clone(const MPT_INTERFACE(metatype) *mt)
{
	const struct hmeta *s = (const void *) mt;
	int sid = (int) (s - metas);
	if (sid < 0 || sid >= nmetas || !s->used)
		vf_fail(K(cur_op, "clone-of-unknown-metatype"), "clone called with %p which is no live harness metatype", (const void *) mt);
	if (s->unrefs)
		vf_fail(K(cur_op, "clone-of-released-metatype"), "clone called for released metatype %d", sid);
	++clone_calls;
	vf_count("witness:clone", 1);
	if (clone_fail_at && clone_calls == clone_fail_at) {
		vf_count("witness:clone-refused", 1);
		return 0;
	}
	int id = meta_alloc();
	metas[id].clone_of = sid;
	metas[id].vlen = s->vlen;
	memcpy(metas[id].val, s->val, sizeof(s->val));
	return &metas[id].mt;
}
static int meta_index(const MPT_INTERFACE(metatype) *mt)
{
	const struct hmeta *m = (const void *) mt;
	if (m < metas || m >= metas + nmetas) return -1;
	if (((const char *) m - (const char *) metas) % sizeof(*m)) return -1;
	return (int) (m - metas);
}

/* ------------------------------------------------------------ population */
struct hnode {
	MPT_STRUCT(node) *n;
	int alive, meta, foreign;
	int par, grp;   /* model: parent index or -1; top-level list id */
};
static struct hnode N[MAXN];
static int nn, next_grp;

static const char *names[] = { "a", "b", "cc", "", "identifier-longer-than-the-inline-store" };
#define NNAMES 5

static int idx_of(const MPT_STRUCT(node) *p)
{
	for (int i = 0; i < nn; i++) if (N[i].alive && N[i].n == p) return i;
	return -1;
}
static int alive_count(void)
{
	int c = 0;
	for (int i = 0; i < nn; i++) c += N[i].alive;
	return c;
}
static int grp_size(int g)
{
	int c = 0;
	for (int i = 0; i < nn; i++) if (N[i].alive && N[i].par < 0 && N[i].grp == g) c++;
	return c;
}
static int is_isolated(int i) { return N[i].par < 0 && grp_size(N[i].grp) == 1; }
static int in_subtree(int x, int root)
{
	for (int j = x, g = 0; j >= 0 && g <= MAXN; j = N[j].par, g++) if (j == root) return 1;
	return 0;
}
static int slot_new(MPT_STRUCT(node) *n, int meta, int foreign, int par, int grp)
{
	if (nn >= MAXN) vf_inconclusive("node table exhausted");
	N[nn].n = n; N[nn].alive = 1; N[nn].meta = meta; N[nn].foreign = foreign;
	N[nn].par = par; N[nn].grp = grp;
	return nn++;
}
static const char *nname(const MPT_STRUCT(node) *n)
{
	static char b[4][48];
	static int k;
	char *d = b[k++ & 3];
	if (!n->ident._len) return "-";
	snprintf(d, 48, "'%.20s'", (const char *) mpt_identifier_data(&n->ident));
	return d;
}

/* ---------------------------------------------------------------- walker */
static int visited[MAXN], headof[MAXN], depthof[MAXN];
static unsigned max_depth;

static void walk_list(const char *op, MPT_STRUCT(node) *first, int parent, int head, unsigned depth)
{
	MPT_STRUCT(node) *prev = 0, *n;
	MPT_STRUCT(node) *pp = parent >= 0 ? N[parent].n : 0;
	if (depth > max_depth) max_depth = depth;
	for (n = first; n; prev = n, n = n->next) {
		int i = idx_of(n);
		/* pre-pass guarantees i >= 0 */
		if (visited[i])
			vf_fail(K(op, "reached-twice"), "node %d %s is reachable a second time (as %s of node %d): cycle or shared between two places",
			        i, nname(n), prev ? "successor" : "first child", prev ? idx_of(prev) : parent);
		visited[i] = 1; headof[i] = head; depthof[i] = (int) depth;
		if (!prev && parent >= 0 && n->prev)
			vf_fail(K(op, "children-not-list-head"), "node %d: children points to node %d %s whose prev is node %d",
			        parent, i, nname(n), idx_of(n->prev));
		if (n->prev != prev)
			vf_fail(K(op, "prev-mismatch"), "node %d %s reached from node %d but its prev is %d", i, nname(n),
			        prev ? idx_of(prev) : -1, n->prev ? idx_of(n->prev) : -1);
		if (n->parent != pp)
			vf_fail(K(op, "parent-mismatch"), "node %d %s is in the child list of %d but names parent %d", i, nname(n),
			        parent, n->parent ? idx_of(n->parent) : -1);
		if (n->children) walk_list(op, n->children, i, head, depth + 1);
		vf_count("monitor:link-checks", 1);
	}
}
/* structural invariant over the whole population */
static void check_structure(const char *op)
{
	int i;
	for (i = 0; i < nn; i++) {
		if (!N[i].alive) continue;
		MPT_STRUCT(node) *n = N[i].n;
		if (POISONED(n))
			vf_fail(K(op, "freed-live-node"), "node %d was freed although it was not destroyed by the caller", i);
		const MPT_STRUCT(node) *l[4] = { n->next, n->prev, n->parent, n->children };
		static const char *ln[4] = { "next", "prev", "parent", "children" };
		for (int k = 0; k < 4; k++) {
			if (l[k] && idx_of(l[k]) < 0)
				vf_fail(K(op, "dangling-link"), "node %d %s: %s = %p is no live node of the population", i, nname(n), ln[k], (const void *) l[k]);
		}
		if (n->next == n || n->prev == n || n->parent == n || n->children == n)
			vf_fail(K(op, "self-link"), "node %d %s links to itself", i, nname(n));
		if (N[i].meta >= 0) {
			if (n->_meta != &metas[N[i].meta].mt)
				vf_fail(K(op, "metatype-replaced"), "node %d lost its metatype", i);
			if (metas[N[i].meta].unrefs)
				vf_fail(K(op, "released-while-reachable"), "metatype %d of live node %d %s was released", N[i].meta, i, nname(n));
		}
		visited[i] = 0; headof[i] = -1;
	}
	for (i = 0; i < nn; i++) {
		if (!N[i].alive) continue;
		if (!N[i].n->parent && !N[i].n->prev) walk_list(op, N[i].n, -1, i, 0);
	}
	for (i = 0; i < nn; i++) {
		if (!N[i].alive || visited[i]) continue;
		MPT_STRUCT(node) *n = N[i].n;
		vf_fail(K(op, "unreachable"), "node %d %s is not reachable from any list head (next=%d prev=%d parent=%d): lost or in a cycle",
		        i, nname(n), n->next ? idx_of(n->next) : -1, n->prev ? idx_of(n->prev) : -1, n->parent ? idx_of(n->parent) : -1);
	}
	if (total_unrefs != expected_unrefs)
		vf_fail(K(op, "release-count"), "%ld metatype releases observed, %ld expected", total_unrefs, expected_unrefs);
	vf_count("monitor:structure-walks", 1);
	vf_max("max:depth", max_depth);
}
/* membership against the model */
static void check_model(const char *op)
{
	static int gmap[GMAX];
	int hgrp[MAXN];
	int i;
	for (i = 0; i < next_grp; i++) gmap[i] = -1;
	for (i = 0; i < nn; i++) hgrp[i] = -1;
	for (i = 0; i < nn; i++) {
		if (!N[i].alive) continue;
		int ap = N[i].n->parent ? idx_of(N[i].n->parent) : -1;
		if (ap != N[i].par)
			vf_fail(K(op, "membership-parent"), "node %d %s has parent %d, expected %d", i, nname(N[i].n), ap, N[i].par);
		if (ap >= 0) continue;
		int g = N[i].grp;
		if (gmap[g] < 0) gmap[g] = headof[i];
		else if (gmap[g] != headof[i])
			vf_fail(K(op, "membership-list"), "top-level node %d %s is in the list of %d, its expected list mates are in the list of %d",
			        i, nname(N[i].n), headof[i], gmap[g]);
		/* two model lists must not have been joined */
		if (hgrp[headof[i]] < 0) hgrp[headof[i]] = g;
		else if (hgrp[headof[i]] != g)
			vf_fail(K(op, "membership-joined"), "two separate top-level lists are now one (head %d)", headof[i]);
	}
	vf_count("monitor:membership-compares", 1);
}
/* set model := actual (after structure was validated) */
static void adopt(void)
{
	int hg[MAXN];
	for (int i = 0; i < nn; i++) hg[i] = -1;
	for (int i = 0; i < nn; i++) {
		if (!N[i].alive) continue;
		N[i].par = N[i].n->parent ? idx_of(N[i].n->parent) : -1;
		if (N[i].par < 0) {
			int h = headof[i];
			if (hg[h] < 0) hg[h] = next_grp++;
			N[i].grp = hg[h];
		}
	}
	if (next_grp > GMAX - 64) vf_inconclusive("group ids exhausted");
}
static void check_all(const char *op)
{
	check_structure(op);
	check_model(op);
}

/* ---------------------------------------------------------------- release */
static void release_subtree(const char *op, int root, int self)
{
	for (int j = 0; j < nn; j++) {
		if (!N[j].alive || !in_subtree(j, root) || (j == root && !self)) continue;
		if (N[j].meta >= 0) {
			int u = metas[N[j].meta].unrefs;
			if (u != 1)
				vf_fail(K(op, "not-released"), "node %d (below/at %d) was destroyed but its metatype %d has %d releases", j, root, N[j].meta, u);
			++expected_unrefs;
		}
		if (!POISONED(N[j].n))
			vf_fail(K(op, "node-not-freed"), "node %d (below/at %d) should be destroyed but its memory is still allocated", j, root);
		vf_count("monitor:release-witnessed", 1);
	}
	/* second pass: mark (in_subtree needs the parents of live entries) */
	int dead[MAXN], nd = 0;
	for (int j = 0; j < nn; j++)
		if (N[j].alive && in_subtree(j, root) && !(j == root && !self)) dead[nd++] = j;
	for (int j = 0; j < nd; j++) N[dead[j]].alive = 0;
}

/* ----------------------------------------------------------------- helpers */
typedef int (*pred_t)(int i, int arg);
static int pick(vf_rng *r, pred_t p, int arg)
{
	int c[MAXN], k = 0;
	for (int i = 0; i < nn; i++) if (N[i].alive && (!p || p(i, arg))) c[k++] = i;
	return k ? c[vf_below(r, (uint32_t) k)] : -1;
}
static int p_isolated(int i, int a) { (void) a; return is_isolated(i); }
static int p_not_below(int i, int a) { return !in_subtree(i, a); }
static int p_has_children(int i, int a) { (void) a; return N[i].n->children != 0; }
static int p_unrelated(int i, int a) { return i != a && !in_subtree(i, a) && !in_subtree(a, i); }

static MPT_STRUCT(node) *head_of(MPT_STRUCT(node) *n)
{
	int g = 0;
	while (n->prev && g++ < MAXN) n = n->prev;
	return n;
}
static int subtree_size(const MPT_STRUCT(node) *n, int *withmeta)
{
	int c = 1;
	if (n->_meta && meta_index(n->_meta) >= 0) ++*withmeta;
	for (const MPT_STRUCT(node) *k = n->children; k; k = k->next) c += subtree_size(k, withmeta);
	return c;
}
static int name_is(const MPT_STRUCT(node) *n, const char *name)
{
	size_t l = strlen(name);
	return n->ident._charset == MPT_ENUM(CharsetUTF8) && n->ident._len == l + 1
	       && !memcmp(mpt_identifier_data(&n->ident), name, l);
}

struct snap { MPT_STRUCT(node) *l[5]; };
static struct snap snaps[MAXN];
static void snapshot(void)
{
	for (int i = 0; i < nn; i++) {
		if (!N[i].alive) continue;
		MPT_STRUCT(node) *n = N[i].n;
		snaps[i].l[0] = n->next; snaps[i].l[1] = n->prev; snaps[i].l[2] = n->parent; snaps[i].l[3] = n->children;
		snaps[i].l[4] = (void *) n->_meta;
	}
}
static void check_unchanged(const char *op)
{
	for (int i = 0; i < nn; i++) {
		if (!N[i].alive) continue;
		MPT_STRUCT(node) *n = N[i].n;
		if (snaps[i].l[0] != n->next || snaps[i].l[1] != n->prev || snaps[i].l[2] != n->parent
		    || snaps[i].l[3] != n->children || snaps[i].l[4] != (void *) n->_meta)
			vf_fail(K(op, "modified-links"), "links of node %d %s changed although the operation must not change the structure", i, nname(n));
	}
	vf_count("monitor:unchanged-compares", 1);
}

/* -------------------------------------------------------------- operations */
static int new_node(vf_rng *r, int forcemeta)
{
	int name = (int) vf_below(r, NNAMES + 1) - 1;
	size_t len = name >= 0 ? strlen(names[name]) + 1 : 0;
	cur_op = "node_new";
	vf_at("mpt_node_new");
	vf_count("mpt_node_new", 1);
	MPT_STRUCT(node) *n = mpt_node_new(vf_chance(r, 1, 2) ? len : 0);
	VF_CHECK(n != 0, K(cur_op, "null"), "mpt_node_new returned NULL");
	VF_CHECK(!n->next && !n->prev && !n->parent && !n->children && !n->_meta, K(cur_op, "not-isolated"), "fresh node has non-zero links");
	if (name >= 0) {
		vf_at("mpt_identifier_set");
		VF_CHECK(mpt_identifier_set(&n->ident, names[name], -1) != 0, K(cur_op, "name-refused"), "identifier_set('%s') failed", names[name]);
	}
	int m = -1;
	if (forcemeta || !vf_chance(r, 1, 6)) {
		m = meta_alloc();
		metas[m].vlen = 1 + (int) vf_below(r, 6);
		for (int i = 0; i < metas[m].vlen; i++) metas[m].val[i] = (uint8_t) ('A' + vf_below(r, 26));
		n->_meta = &metas[m].mt;
	}
	int s = slot_new(n, m, 0, -1, next_grp++);
	vf_log("%d = node_new(name=%s meta=%d)", s, name >= 0 ? names[name] : "-", m);
	vf_fp_u64(0x100 + (uint64_t) name + 1);
	return s;
}

static const int positions[] = { 0, 1, 2, 3, -1, -2, -3, 5, -5, 100, -100 };
#define NPOS ((int) (sizeof(positions) / sizeof(*positions)))

/* insert an isolated node next to / into a list */
static int op_attach(vf_rng *r, int kind)
{
	static const char *opn[] = { "gnode_after", "gnode_before", "gnode_add", "node_add", "gnode_insert", "node_insert" };
	static const char *api[] = { "mpt_gnode_after", "mpt_gnode_before", "mpt_gnode_add", "mpt_node_add", "mpt_gnode_insert", "mpt_node_insert" };
	int ins = pick(r, p_isolated, 0);
	if (ins < 0) return 0;
	int pos = pick(r, p_not_below, ins);
	int arg = positions[vf_below(r, NPOS)];
	MPT_STRUCT(node) *in = N[ins].n, *pn, *ret;
	cur_op = opn[kind];
	vf_at(api[kind]);
	vf_count(api[kind], 1);
	vf_fp_u64(0x200 + (uint64_t) kind * 0x10000 + (uint64_t) (arg & 0xff) * 0x100);
	if (kind < 2 && vf_chance(r, 1, 12)) {
		/* documented no-ops: no position / position is the node itself */
		int self = vf_chance(r, 1, 2);
		vf_log("%s(%s, %d)", cur_op, self ? "self" : "NULL", ins);
		pn = self ? in : 0;
		ret = kind ? mpt_gnode_before(pn, in) : mpt_gnode_after(pn, in);
		VF_CHECK(ret == in, K(cur_op, "return"), "returned %p instead of the inserted node", (void *) ret);
		return 1;
	}
	if (pos < 0) return 0;
	pn = N[pos].n;
	switch (kind) {
	case 0: case 1:
		vf_log("%s(%d, %d)", cur_op, pos, ins);
		ret = kind ? mpt_gnode_before(pn, in) : mpt_gnode_after(pn, in);
		VF_CHECK(ret == in, K(cur_op, "return"), "returned %p instead of the inserted node", (void *) ret);
		N[ins].par = N[pos].par; N[ins].grp = N[pos].grp;
		break;
	case 2: case 3:
		/* `first` is the list head; a later member only for "append" (as mpt_node_move does) */
		if (arg || !vf_chance(r, 1, 3)) pn = head_of(pn);
		vf_log("%s(%d, %d, %d)", cur_op, idx_of(pn), arg, ins);
		ret = (kind == 2) ? mpt_gnode_add(pn, arg, in) : mpt_node_add(pn, arg, in);
		VF_CHECK(ret == in, K(cur_op, "return"), "returned %p instead of the added node", (void *) ret);
		N[ins].par = N[pos].par; N[ins].grp = N[pos].grp;
		break;
	default: {
		vf_log("%s(%d, %d, %d)", cur_op, pos, arg, ins);
		int rc = (kind == 4) ? mpt_gnode_insert(pn, arg, in) : mpt_node_insert(pn, arg, in);
		VF_CHECK(rc == 0, K(cur_op, "return"), "returned %d", rc);
		N[ins].par = pos;
		if (pn->children != in) vf_count("state:insert-into-nonempty", 1);
		break; }
	}
	return 1;
}
static int op_unlink(vf_rng *r)
{
	int i = pick(r, 0, 0);
	if (i < 0) return 0;
	MPT_STRUCT(node) *n = N[i].n, *exp = n->next, *ret;
	cur_op = "node_unlink";
	vf_at("mpt_node_unlink");
	vf_count("mpt_node_unlink", 1);
	vf_log("node_unlink(%d)", i);
	vf_fp_u64(0x300);
	if (!n->prev && n->parent && n->next) vf_count("state:unlink-first-child", 1);
	ret = mpt_node_unlink(n);
	VF_CHECK(ret == exp, K(cur_op, "return"), "returned node %d instead of the successor %d", ret ? idx_of(ret) : -1, exp ? idx_of(exp) : -1);
	N[i].par = -1; N[i].grp = next_grp++;
	return 1;
}
static int op_destroy(vf_rng *r)
{
	int i = pick(r, 0, 0);
	if (i < 0) return 0;
	if (vf_chance(r, 1, 2)) { int j = pick(r, p_isolated, 0); if (j >= 0) i = j; }
	MPT_STRUCT(node) *n = N[i].n, *ret;
	int linked = !is_isolated(i), hadsub = n->children != 0;
	cur_op = "node_destroy";
	vf_at("mpt_node_destroy");
	vf_count("mpt_node_destroy", 1);
	vf_log("node_destroy(%d)%s", i, linked ? " linked" : "");
	vf_fp_u64(0x400 + (uint64_t) linked);
	ret = mpt_node_destroy(n);
	if (linked) {
		VF_CHECK(ret == n, K(cur_op, "accepted-linked"), "returned %p for linked node %d (must refuse and return the node)", (void *) ret, i);
		VF_CHECK(!POISONED(n), K(cur_op, "freed-linked"), "linked node %d was freed", i);
		vf_count("outcome:destroy-refused", 1);
		return 1;
	}
	VF_CHECK(ret == 0, K(cur_op, "refused-unlinked"), "returned %p for unlinked node %d", (void *) ret, i);
	if (hadsub) vf_count("state:destroy-with-subtree", 1);
	release_subtree(cur_op, i, 1);
	return 1;
}
static int op_clear(vf_rng *r)
{
	int i = pick(r, vf_chance(r, 3, 4) ? p_has_children : 0, 0);
	if (i < 0) return 0;
	MPT_STRUCT(node) *n = N[i].n;
	cur_op = "node_clear";
	vf_at("mpt_node_clear");
	vf_count("mpt_node_clear", 1);
	vf_log("node_clear(%d)", i);
	vf_fp_u64(0x500);
	mpt_node_clear(n);
	VF_CHECK(!n->children, K(cur_op, "children-left"), "node %d still has children", i);
	release_subtree(cur_op, i, 0);
	return 1;
}

/* ------------------------------------------------------------------ clone */
static void compare_list(const char *op, const MPT_STRUCT(node) *s, MPT_STRUCT(node) *c, int cpar, int grp, int single, int shallow);
static void compare_node(const char *op, const MPT_STRUCT(node) *s, MPT_STRUCT(node) *c, int cpar, int grp, int shallow)
{
	int si = idx_of(s), m = -1;
	VF_CHECK(idx_of(c) < 0, K(op, "clone-is-existing-node"), "copy of node %d is the existing node %d", si, idx_of(c));
	VF_CHECK(!POISONED(c), K(op, "clone-freed"), "copy of node %d points to freed memory", si);
	/* name */
	VF_CHECK(c->ident._len == s->ident._len && c->ident._charset == s->ident._charset
	         && !memcmp(mpt_identifier_data(&c->ident), mpt_identifier_data(&s->ident), s->ident._len),
	         K(op, "clone-name"), "copy of node %d %s has name %s (len %u/%u)", si, nname(s), nname(c), c->ident._len, s->ident._len);
	/* value */
	if (!s->_meta) {
		VF_CHECK(!c->_meta, K(op, "clone-value"), "copy of node %d without value has a value", si);
	} else {
		int sm = meta_index(s->_meta);
		VF_CHECK(c->_meta != 0, K(op, "clone-value"), "copy of node %d has no value", si);
		/* the library's shared default value (static, clone returns itself) may be held by both */
		VF_CHECK(c->_meta != s->_meta || s->_meta == mpt_metatype_default(), K(op, "clone-shares-value"),
		         "copy of node %d holds the same metatype instance without a reference", si);
		m = meta_index(c->_meta);
		if (sm >= 0) {
			VF_CHECK(m >= 0, K(op, "clone-value"), "copy of node %d has a metatype that did not come from the value's clone()", si);
			VF_CHECK(metas[m].clone_of == sm && !metas[m].unrefs, K(op, "clone-value"), "copy of node %d: metatype %d is a clone of %d (releases %d), expected clone of %d",
			         si, m, metas[m].clone_of, metas[m].unrefs, sm);
			VF_CHECK(metas[m].vlen == metas[sm].vlen && !memcmp(metas[m].val, metas[sm].val, sizeof(metas[m].val)),
			         K(op, "clone-value"), "copy of node %d: value bytes differ", si);
			for (int j = 0; j < nn; j++)
				if (N[j].alive && N[j].meta == m) vf_fail(K(op, "clone-shares-value"), "copy of node %d holds the metatype of node %d", si, j);
		} else {
			/* value made by the library (parsed text): compare the text */
			size_t l1 = 0, l2 = 0;
			const char *d1 = mpt_node_data(s, &l1), *d2 = mpt_node_data(c, &l2);
			VF_CHECK(m < 0, K(op, "clone-value"), "copy of node %d with library value holds a harness metatype", si);
			VF_CHECK(!d1 == !d2 && l1 == l2 && (!d1 || !memcmp(d1, d2, l1)), K(op, "clone-value"), "copy of node %d: text value differs ('%.20s' len %zu / '%.20s' len %zu)",
			         si, d1 ? d1 : "(null)", l1, d2 ? d2 : "(null)", l2);
		}
	}
	VF_CHECK(c->parent == (cpar >= 0 ? N[cpar].n : 0), K(op, "clone-parent"), "copy of node %d %s has parent %p, expected %s",
	         si, nname(s), (void *) c->parent, cpar >= 0 ? "the copy of its parent" : "none");
	int slot = slot_new(c, m, s->_meta && m < 0, cpar, grp);
	if (shallow) {
		VF_CHECK(!c->children, K(op, "clone-children"), "shallow copy of node %d has children", si);
	} else {
		VF_CHECK(!s->children == !c->children, K(op, "clone-children"), "node %d %s children, its copy %s", si,
		         s->children ? "has" : "has no", c->children ? "has" : "has none");
		if (s->children) compare_list(op, s->children, c->children, slot, grp, 0, 0);
	}
	vf_count("monitor:clone-node-compares", 1);
}
static void compare_list(const char *op, const MPT_STRUCT(node) *s, MPT_STRUCT(node) *c, int cpar, int grp, int single, int shallow)
{
	MPT_STRUCT(node) *prev = 0;
	for (;;) {
		if (!s && !c) break;
		VF_CHECK(s && c, K(op, "clone-length"), "%s list ends early (below copy slot %d)", s ? "copied" : "source", cpar);
		VF_CHECK(c->prev == prev, K(op, "clone-prev"), "copy of node %d: prev does not point to the copy of the predecessor", idx_of(s));
		compare_node(op, s, c, cpar, grp, shallow);
		prev = c;
		if (single) { VF_CHECK(!c->next, K(op, "clone-length"), "single copy has a successor"); break; }
		s = s->next; c = c->next;
	}
}
static int op_clone(vf_rng *r, int kind)
{
	static const char *opn[] = { "node_clone", "list_clone", "tree_clone" };
	static const char *api[] = { "mpt_node_clone", "mpt_list_clone", "mpt_tree_clone" };
	int i = pick(r, (kind == 2 && vf_chance(r, 3, 4)) ? p_has_children : 0, 0);
	if (i < 0) return 0;
	MPT_STRUCT(node) *n = N[i].n, *ret;
	if (kind == 1 && vf_chance(r, 2, 3)) { n = head_of(n); i = idx_of(n); }
	int size = 0, wm = 0, depth2 = 0;
	if (kind == 0) { size = 1; wm = (n->_meta && meta_index(n->_meta) >= 0) ? 1 : 0; }
	else if (kind == 2) size = subtree_size(n, &wm);
	else for (const MPT_STRUCT(node) *k = n; k; k = k->next) size += subtree_size(k, &wm);
	if (alive_count() + size > LIVE_MAX || nn + size > MAXN || nmetas + wm > MAXM) return 0;
	for (const MPT_STRUCT(node) *k = (kind == 1) ? n : n->children; k && kind; k = k->next) {
		if (kind == 1) { for (const MPT_STRUCT(node) *c = k->children; c; c = c->next) if (c->children) depth2 = 1; }
		else if (k->children) depth2 = 1;
	}
	int fail = (wm && vf_chance(r, 1, 6)) ? 1 + (int) vf_below(r, (uint32_t) wm) : 0;
	cur_op = opn[kind];
	vf_at(api[kind]);
	vf_count(api[kind], 1);
	vf_log("%s(%d) size=%d metas=%d fail_at=%d", cur_op, i, size, wm, fail);
	vf_fp_u64(0x600 + (uint64_t) kind + (uint64_t) fail * 16);
	int m0 = nmetas;
	clone_fail_at = fail ? clone_calls + fail : 0;
	snapshot();
	ret = (kind == 0) ? mpt_node_clone(n) : (kind == 1) ? mpt_list_clone(n) : mpt_tree_clone(n);
	clone_fail_at = 0;
	check_unchanged(cur_op);
	if (fail) {
		VF_CHECK(!ret, K(cur_op, "clone-despite-refusal"), "returned a copy although the value of one node refused to be cloned");
		for (int m = m0; m < nmetas; m++) {
			VF_CHECK(metas[m].unrefs == 1, K(cur_op, "partial-copy-not-released"), "value copy %d (of %d) made before the refusal has %d releases",
			         m, metas[m].clone_of, metas[m].unrefs);
			++expected_unrefs;
		}
		vf_count("outcome:clone-refused-clean", 1);
		return 1;
	}
	VF_CHECK(ret != 0, K(cur_op, "null"), "returned NULL for node %d (size %d, children %s)", i, size, n->children ? "yes" : "no");
	VF_CHECK(!ret->parent && !ret->prev, K(cur_op, "clone-linked"), "copy is linked to parent/prev");
	int g = next_grp++;
	if (kind == 0) {
		compare_list(cur_op, n, ret, -1, g, 1, 1);
	} else {
		compare_list(cur_op, n, ret, -1, g, kind == 2, 0);
	}
	VF_CHECK(nmetas - m0 == wm, K(cur_op, "clone-count"), "%d value copies made for %d values", nmetas - m0, wm);
	if (depth2) vf_count("state:clone-depth2", 1);
	if (kind) vf_count("monitor:clone-compares", 1);
	return depth2 ? 2 : 1;
}

/* ------------------------------------------------------------------- move */
static int list_members(MPT_STRUCT(node) *head, int *out)
{
	int k = 0;
	for (; head; head = head->next) out[k++] = idx_of(head);
	return k;
}
static int op_move(vf_rng *r)
{
	int a = pick(r, 0, 0), b, sm[MAXN], dm[MAXN], ns, nd, tries = 8;
	if (a < 0) return 0;
	MPT_STRUCT(node) *sh = head_of(N[a].n), *dh = 0;
	if (vf_chance(r, 1, 2)) {
		/* prefer the children of equally named nodes: exercises the merge */
		int p = pick(r, p_has_children, 0);
		if (p >= 0) sh = N[p].n->children;
	}
	ns = list_members(sh, sm);
	int sp = N[sm[0]].par;
	while (tries--) {
		b = pick(r, 0, 0);
		dh = head_of(N[b].n);
		if (dh == sh) { dh = 0; continue; }
		nd = list_members(dh, dm);
		int dp = N[dm[0]].par, ok = 1;
		for (int k = 0; k < ns && ok; k++) if (dp >= 0 && in_subtree(dp, sm[k])) ok = 0;
		for (int k = 0; k < nd && ok; k++) if (sp >= 0 && in_subtree(sp, dm[k])) ok = 0;
		if (ok) break;
		dh = 0;
	}
	if (!dh) return 0;
	int dp = N[dm[0]].par;
	/* state classification */
	int overlap = 0, merge = 0, reparent = 0;
	for (int k = 0; k < ns; k++) for (int j = 0; j < nd; j++) {
		MPT_STRUCT(node) *s = N[sm[k]].n, *d = N[dm[j]].n;
		if (s->ident._len == d->ident._len && s->ident._charset == d->ident._charset
		    && !memcmp(mpt_identifier_data(&s->ident), mpt_identifier_data(&d->ident), s->ident._len)) {
			overlap = 1;
			if (s->children && d->children) merge = 1;
			if (s->children && !d->children) reparent = 1;
		}
	}
	MPT_STRUCT(node) *from_local = sh, **from = sp >= 0 ? &N[sp].n->children : &from_local;
	cur_op = "node_move";
	vf_at("mpt_node_move");
	vf_count("mpt_node_move", 1);
	vf_log("node_move(list of %d [%d members, parent %d] -> list of %d [%d members, parent %d]) overlap=%d merge=%d reparent=%d",
	       sm[0], ns, sp, dm[0], nd, dp, overlap, merge, reparent);
	vf_fp_u64(0x700 + (uint64_t) ns * 64 + (uint64_t) nd);
	if (overlap) vf_count("state:move-overlapping-names", 1);
	if (merge) vf_count("state:move-merge-children", 1);
	if (reparent) vf_count("state:move-reparent-children", 1);
	size_t moved = mpt_node_move(from, dh);
	(void) moved;
	check_structure(cur_op);
	/* target members stay where they were */
	for (int j = 0; j < nd; j++) {
		MPT_STRUCT(node) *d = N[dm[j]].n;
		VF_CHECK((d->parent ? idx_of(d->parent) : -1) == dp && headof[dm[j]] == headof[dm[0]], K(cur_op, "target-member-moved"),
		         "node %d of the target list left it", dm[j]);
	}
	/* the source handle must still denote what remains of the source list */
	MPT_STRUCT(node) *rest = *from;
	int remaining = 0;
	for (int k = 0; k < ns; k++) {
		MPT_STRUCT(node) *s = N[sm[k]].n;
		int stay = (s->parent ? idx_of(s->parent) : -1) == sp;
		if (stay && sp < 0 && dp < 0 && headof[sm[k]] == headof[dm[0]]) stay = 0;
		if (!stay) continue;
		remaining++;
		VF_CHECK(rest != 0, K(cur_op, "source-handle-lost"), "node %d stayed in the source list but the source list pointer is NULL", sm[k]);
		VF_CHECK(head_of(s) == rest, K(cur_op, "source-handle-not-head"), "node %d stayed in the source list whose head is %d, but the source list pointer names %d",
		         sm[k], idx_of(head_of(s)), idx_of(rest));
	}
	if (!remaining) VF_CHECK(!rest, K(cur_op, "source-handle-stale"), "all source members were moved but the source list pointer names node %d", idx_of(rest));
	if (rest) VF_CHECK(!rest->prev, K(cur_op, "source-handle-not-head"), "source list pointer names node %d which has a predecessor", idx_of(rest));
	vf_count("monitor:move-handle-checks", 1);
	adopt();
	return (merge || reparent) ? 2 : 1;
}

/* ---------------------------------------------------------- swap / switch */
static int op_swap(vf_rng *r, int sw)
{
	int a = pick(r, (!sw && vf_chance(r, 3, 4)) ? p_has_children : 0, 0);
	if (a < 0) return 0;
	int b = pick(r, p_unrelated, a);
	if (b < 0) return 0;
	MPT_STRUCT(node) *na = N[a].n, *nb = N[b].n;
	if (!sw) {
		cur_op = "gnode_swap";
		vf_at("mpt_gnode_swap");
		vf_count("mpt_gnode_swap", 1);
		vf_log("gnode_swap(%d, %d)", a, b);
		vf_fp_u64(0x800);
		if (na->children && nb->children) vf_count("state:swap-both-have-children", 1);
		mpt_gnode_swap(na, nb);
		for (int j = 0; j < nn; j++) {
			if (!N[j].alive) continue;
			if (N[j].par == a) N[j].par = b;
			else if (N[j].par == b) N[j].par = a;
		}
		return 1;
	}
	cur_op = "gnode_switch";
	vf_at("mpt_gnode_switch");
	vf_count("mpt_gnode_switch", 1);
	vf_log("gnode_switch(%d, %d)", a, b);
	vf_fp_u64(0x900);
	if (na->next == nb || nb->next == na) vf_count("state:switch-adjacent", 1);
	else if (na->parent != nb->parent) vf_count("state:switch-different-parents", 1);
	else vf_count("state:switch-same-list", 1);
	mpt_gnode_switch(na, nb);
	int t = N[a].par; N[a].par = N[b].par; N[b].par = t;
	t = N[a].grp; N[a].grp = N[b].grp; N[b].grp = t;
	return 1;
}

/* ----------------------------------------------------------------- relink */
static int op_relink(vf_rng *r)
{
	int i = pick(r, vf_chance(r, 3, 4) ? p_has_children : 0, 0);
	if (i < 0) return 0;
	cur_op = "gnode_relink";
	vf_at("mpt_gnode_relink");
	vf_count("mpt_gnode_relink", 1);
	vf_log("gnode_relink(%d) on consistent tree", i);
	vf_fp_u64(0xA00);
	if (N[i].n->next) vf_count("state:relink-with-successor", 1);
	snapshot();
	mpt_gnode_relink(N[i].n);
	check_unchanged(cur_op);
	return 1;
}
static int op_relink_build(vf_rng *r)
{
	int k = 2 + (int) vf_below(r, 6), idx[8], par[8], depth[8], md = 0;
	if (alive_count() + k > LIVE_MAX) return 0;
	for (int j = 0; j < k; j++) idx[j] = new_node(r, 0);
	par[0] = -1; depth[0] = 0;
	cur_op = "gnode_relink";
	/* manual concatenation: only top->bottom and prev->next links */
	for (int j = 1; j < k; j++) {
		int p = (int) vf_below(r, (uint32_t) j);
		if (vf_chance(r, 1, 2)) p = j - 1;
		MPT_STRUCT(node) *P = N[idx[p]].n, *c = N[idx[j]].n;
		par[j] = p; depth[j] = depth[p] + 1;
		if (depth[j] > md) md = depth[j];
		if (!P->children) P->children = c;
		else { MPT_STRUCT(node) *l = P->children; while (l->next) l = l->next; l->next = c; }
	}
	vf_at("mpt_gnode_relink");
	vf_count("mpt_gnode_relink:manual", 1);
	vf_log("gnode_relink(%d) after manual concatenation of %d nodes, depth %d", idx[0], k, md);
	vf_fp_u64(0xA80 + (uint64_t) k);
	mpt_gnode_relink(N[idx[0]].n);
	for (int j = 1; j < k; j++) N[idx[j]].par = idx[par[j]];
	if (md >= 2) vf_count("state:relink-manual-depth2", 1);
	return 1;
}

/* ---------------------------------------------------------------- lookups */
static int op_lookup(vf_rng *r, int kind)
{
	static const char *lnames[] = { "a", "b", "cc", "", "identifier-longer-than-the-inline-store", "zz" };
	int i = pick(r, kind == 2 ? p_has_children : 0, 0);
	if (i < 0) return 0;
	const char *name = lnames[vf_below(r, 6)];
	int pos = (int) vf_below(r, 7) - 3;
	MPT_STRUCT(node) *cur = N[i].n, *ret, *exp = 0, *L[MAXN];
	int n = 0, p = -1;
	MPT_STRUCT(node) *first = (kind == 2) ? cur->children : head_of(cur);
	for (MPT_STRUCT(node) *t = first; t; t = t->next) { if (t == cur) p = n; L[n++] = t; }
	vf_fp_u64(0xB00 + (uint64_t) kind * 16 + (uint64_t) (pos + 3));
	snapshot();
	if (kind == 0) {
		cur_op = "node_locate";
		vf_at("mpt_node_locate");
		vf_count("mpt_node_locate", 1);
		vf_log("node_locate(%d, %d, '%s')", i, pos, name);
		ret = mpt_node_locate(cur, pos, name, strlen(name), -1);
		int c = 0;
		if (pos > 0) { for (int j = p; j < n; j++) if (name_is(L[j], name) && ++c == pos) { exp = L[j]; break; } }
		else if (pos < 0) { for (int j = p - 1; j >= 0; j--) if (name_is(L[j], name) && ++c == -pos) { exp = L[j]; break; } }
		else { for (int j = n - 1; j >= 0; j--) if (name_is(L[j], name)) { exp = L[j]; break; } }
	}
	else if (kind == 1) {
		cur_op = "node_next";
		vf_at("mpt_node_next");
		vf_count("mpt_node_next", 1);
		vf_log("node_next(%d, '%s')", i, name);
		ret = mpt_node_next(cur, name);
		for (int j = p; j < n; j++) if (name_is(L[j], name)) { exp = L[j]; break; }
	}
	else if (kind == 3) {
		cur_op = "gnode_pos";
		vf_at("mpt_gnode_pos");
		vf_count("mpt_gnode_pos", 1);
		pos = positions[vf_below(r, NPOS)];
		name = 0;
		vf_log("gnode_pos(%d, %d)", i, pos);
		ret = mpt_gnode_pos(cur, pos);
		int t = !pos ? n - 1 : pos > 0 ? p + pos - 1 : p + pos;
		exp = (t >= 0 && t < n) ? L[t] : 0;
	}
	else {
		cur_op = "node_find";
		vf_at("mpt_node_find");
		vf_count("mpt_node_find", 1);
		vf_log("node_find(%d, '%s', %d)", i, name, pos);
		ret = mpt_node_find(cur, name, pos);
		MPT_STRUCT(node) *M[MAXN];
		int k = 0;
		for (int j = 0; j < n; j++) if (name_is(L[j], name)) M[k++] = L[j];
		if (pos > 0) exp = pos <= k ? M[pos - 1] : 0;
		else if (!pos) exp = k ? M[k - 1] : 0;
		else exp = (k - 1 + pos >= 0) ? M[k - 1 + pos] : 0;
	}
	check_unchanged(cur_op);
	if (ret) {
		int ri = idx_of(ret), in = 0;
		VF_CHECK(ri >= 0, K(cur_op, "result-dangling"), "returned %p which is no live node", (void *) ret);
		for (int j = 0; j < n; j++) if (L[j] == ret) in = 1;
		VF_CHECK(in, K(cur_op, "result-outside-list"), "returned node %d which is not in the searched list", ri);
		if (name) VF_CHECK(name_is(ret, name), K(cur_op, "result-wrong-name"), "returned node %d %s for name '%s'", ri, nname(ret), name);
	}
	VF_CHECK(ret == exp, K(cur_op, "result"), "'%s' pos %d from node %d: returned node %d, expected %d", name ? name : "(position)", pos, i,
	         ret ? idx_of(ret) : -1, exp ? idx_of(exp) : -1);
	if (exp) vf_count("outcome:lookup-found", 1);
	vf_count("monitor:lookup-compares", 1);
	return 1;
}

/* --------------------------------------------------------------- traverse */
struct trav { MPT_STRUCT(node) *n[MAXN * 2]; size_t d[MAXN * 2]; int cnt, stop; };
static int trav_cb(MPT_STRUCT(node) *n, void *arg, size_t depth)
{
	struct trav *t = arg;
	if (t->cnt >= MAXN * 2) vf_fail(K(cur_op, "endless"), "more than %d visits", MAXN * 2);
	t->n[t->cnt] = n; t->d[t->cnt] = depth;
	return ++t->cnt == t->stop;
}
static int tflags;
#define TCUR(n) ((n)->children ? (tflags & MPT_ENUM(TraverseNonLeafs)) : (tflags & MPT_ENUM(TraverseLeafs)))
static void exp_visit(struct trav *e, MPT_STRUCT(node) *n, size_t d, int order)
{
	MPT_STRUCT(node) *c = n->children;
	if (order == MPT_ENUM(TraversePreOrder) && TCUR(n)) { e->n[e->cnt] = n; e->d[e->cnt++] = d; }
	if (order == MPT_ENUM(TraverseInOrder)) {
		if (c) { exp_visit(e, c, d + 1, order); c = c->next; }
		if (TCUR(n)) { e->n[e->cnt] = n; e->d[e->cnt++] = d; }
	}
	for (; c; c = c->next) exp_visit(e, c, d + 1, order);
	if (order == MPT_ENUM(TraversePostOrder) && TCUR(n)) { e->n[e->cnt] = n; e->d[e->cnt++] = d; }
}
static int op_traverse(vf_rng *r)
{
	static const int orders[] = { MPT_ENUM(TraversePostOrder), MPT_ENUM(TraversePreOrder), MPT_ENUM(TraverseInOrder), MPT_ENUM(TraverseLevelOrder) };
	static const char *on[] = { "post", "pre", "in", "level" };
	int i = pick(r, vf_chance(r, 1, 2) ? p_has_children : 0, 0);
	if (i < 0) return 0;
	int oi = (int) vf_below(r, 4), order = orders[oi];
	static struct trav got, exp;
	MPT_STRUCT(node) *start = N[i].n, *ret;
	if (vf_chance(r, 1, 2)) { start = head_of(start); i = idx_of(start); }
	tflags = order | (1 + (int) vf_below(r, 3));
	exp.cnt = 0;
	if (order == MPT_ENUM(TraverseLevelOrder)) {
		MPT_STRUCT(node) *lv[MAXN], *nx[MAXN];
		int nl = 0;
		size_t d = 0;
		for (MPT_STRUCT(node) *t = start; t; t = t->next) lv[nl++] = t;
		while (nl) {
			int k = 0;
			for (int j = 0; j < nl; j++) {
				if (TCUR(lv[j])) { exp.n[exp.cnt] = lv[j]; exp.d[exp.cnt++] = d; }
				for (MPT_STRUCT(node) *c = lv[j]->children; c; c = c->next) nx[k++] = c;
			}
			memcpy(lv, nx, sizeof(*lv) * (size_t) k);
			nl = k; d++;
		}
	} else {
		for (MPT_STRUCT(node) *t = start; t; t = t->next) exp_visit(&exp, t, 0, order);
	}
	got.cnt = 0;
	got.stop = vf_chance(r, 1, 3) ? 1 + (int) vf_below(r, (uint32_t) exp.cnt + 1) : 0;
	cur_op = "gnode_traverse";
	vf_at("mpt_gnode_traverse");
	vf_count("mpt_gnode_traverse", 1);
	vf_log("gnode_traverse(%d, %s|%d) stop=%d expected visits=%d", i, on[oi], tflags & 3, got.stop, exp.cnt);
	vf_fp_u64(0xC00 + (uint64_t) tflags);
	snapshot();
	ret = mpt_gnode_traverse(start, tflags, trav_cb, &got);
	check_unchanged(cur_op);
	int want = (got.stop && got.stop <= exp.cnt) ? got.stop : exp.cnt;
	/* every node of the forest at most once, nobody from outside */
	for (int j = 0; j < got.cnt; j++) {
		int in = 0;
		for (int k = 0; k < exp.cnt; k++) if (exp.n[k] == got.n[j]) in = 1;
		VF_CHECK(in, K(cur_op, "visited-outside"), "%s order from %d: visit %d is node %d which is not part of the traversed lists (or filtered by the leaf flags)",
		         on[oi], i, j, idx_of(got.n[j]));
		for (int k = 0; k < j; k++)
			VF_CHECK(got.n[k] != got.n[j], K(cur_op, "visited-twice"), "%s order from %d: node %d visited twice", on[oi], i, idx_of(got.n[j]));
	}
	VF_CHECK(got.cnt == want, K(cur_op, "visit-count"), "%s order from %d flags %d: %d visits, expected %d", on[oi], i, tflags & 3, got.cnt, want);
	for (int j = 0; j < want; j++) {
		VF_CHECK(got.n[j] == exp.n[j], K(cur_op, "visit-order"), "%s order from %d: visit %d is node %d, expected %d", on[oi], i, j,
		         idx_of(got.n[j]), idx_of(exp.n[j]));
		VF_CHECK(got.d[j] == exp.d[j], K(cur_op, "visit-depth"), "%s order from %d: node %d reported at depth %zu, expected %zu", on[oi], i,
		         idx_of(got.n[j]), got.d[j], exp.d[j]);
	}
	if (got.stop && got.stop <= exp.cnt)
		VF_CHECK(ret == exp.n[got.stop - 1], K(cur_op, "return"), "stopped at visit %d but returned node %d", got.stop, ret ? idx_of(ret) : -1);
	else
		VF_CHECK(!ret, K(cur_op, "return"), "no handler asked to stop but node %d was returned", idx_of(ret));
	vf_count("monitor:traverse-compares", 1);
	if (max_depth >= 2 && order == MPT_ENUM(TraverseLevelOrder)) vf_count("state:level-order-deep", 1);
	return 1;
}

/* ------------------------------------------------------------ parse merge */
struct pin { const char *s; size_t pos, len; };
static int pin_getc(void *arg)
{
	struct pin *p = arg;
	if (p->pos >= p->len) return -2;
	return (unsigned char) p->s[p->pos++];
}
static void register_foreign(MPT_STRUCT(node) *first, int par, int grp)
{
	for (MPT_STRUCT(node) *n = first; n; n = n->next) {
		int i = idx_of(n);
		if (i < 0) {
			if (POISONED(n)) vf_fail(K(cur_op, "freed-node-linked"), "a freed node is linked below node %d", par);
			i = slot_new(n, -1, 1, par, grp);
		}
		if (n->children) register_foreign(n->children, i, grp);
		if (nn >= MAXN - 1) return;
	}
}
/* sections/options with names that overlap the population's; `bad`:
 * 1 unclosed section at the end, 2 section end without section, 3 assignment without name */
static size_t gen_text(vf_rng *r, char *text, size_t max, int bad)
{
	static const char *sn[] = { "a", "b", "cc", "dd" };
	size_t tl = 0;
	int depth = 0, items = 1 + (int) vf_below(r, 6);
	if (bad == 2 && vf_chance(r, 1, 2)) { tl += (size_t) snprintf(text + tl, max - tl, "}\n"); bad = 0; }
	for (int k = 0; k < items; k++) {
		int what = (int) vf_below(r, 4);
		if (what == 0 && depth < 2) { tl += (size_t) snprintf(text + tl, max - tl, "%s {\n", sn[vf_below(r, 4)]); depth++; }
		else if (what == 1 && depth) { tl += (size_t) snprintf(text + tl, max - tl, "}\n"); depth--; }
		else { tl += (size_t) snprintf(text + tl, max - tl, "%s = v%d;\n", sn[vf_below(r, 4)], k); }
		if (bad == 3 && !depth && vf_chance(r, 1, 3)) { tl += (size_t) snprintf(text + tl, max - tl, "= 5;\n"); bad = 0; }
	}
	while (depth--) tl += (size_t) snprintf(text + tl, max - tl, "}\n");
	if (bad == 1) tl += (size_t) snprintf(text + tl, max - tl, "%s {\n%s = last;\n", sn[vf_below(r, 4)], sn[vf_below(r, 4)]);
	if (bad == 2) tl += (size_t) snprintf(text + tl, max - tl, "}\n");
	if (bad == 3) tl += (size_t) snprintf(text + tl, max - tl, "= 5;\n");
	return tl;
}
static void log_text(const char *what, int i, int had, const char *text, size_t tl)
{
	char one[600];
	size_t k;
	if (!vf_logging) return;
	for (k = 0; k < tl && k < sizeof(one) - 1; k++) one[k] = text[k] == '\n' ? '|' : text[k];
	one[k] = 0;
	vf_log("%s(%d%s, \"%s\")", what, i, had ? " with children" : "", one);
}
/* mpt_node_parse (file front end, replaces the children) in all outcomes and
 * mpt_parse_node calls that fail: after a refused or failed call the tree is
 * untouched, after a successful one every old descendant is released once */
static int op_parse_file(vf_rng *r)
{
	static const char *good_limits[] = { 0, "ns", "", "Esnw", "E", "Nns" };
	static const char *bad_limits[] = { "n?", "x", "ns!", "-", "Es,n" };
	char text[600], what[64];
	int outcome = (int) vf_below(r, 10);   /* 0..3 success, 4..6 text error, 7 bad limits, 8 bad format, 9 no file / parse_node failures */
	int use_parse_node = outcome >= 4 && outcome != 7 && vf_chance(r, 1, 3);
	int i = pick(r, vf_chance(r, 3, 4) ? p_has_children : 0, 0);
	if (i < 0) return 0;
	if (outcome < 4 && alive_count() > LIVE_MAX - 6) outcome = 4 + (int) vf_below(r, 6);
	int bad = (outcome >= 4 && outcome <= 6) ? outcome - 3 : 0;
	if (bad == 3 && use_parse_node) bad = 1;   /* the bare parser context admits empty names */
	size_t tl = gen_text(r, text, sizeof(text), bad);
	const char *fmt = (outcome == 8) ? (vf_chance(r, 1, 2) ? "{q} =;!#" : "[?] = ") : "{*} =;!#";
	const char *limits = (outcome == 7) ? bad_limits[vf_below(r, 5)] : good_limits[vf_below(r, 6)];
	MPT_STRUCT(node) *root = N[i].n;
	int had = root->children != 0, rc;
	vf_fp_u64(0xD80 + (uint64_t) outcome * 4 + (uint64_t) use_parse_node);
	vf_fp(text, tl);
	snapshot();
	if (use_parse_node) {
		struct pin in = { text, 0, tl };
		MPT_STRUCT(parser_context) ctx = MPT_PARSER_INIT;
		ctx.src.getc = pin_getc;
		ctx.src.arg = &in;
		cur_op = "parse_node";
		vf_at("mpt_parse_node");
		vf_count("mpt_parse_node:failing", 1);
		snprintf(what, sizeof(what), "parse_node[%s]", outcome == 8 ? "bad format" : outcome == 9 ? "bad format" : "text error");
		log_text(what, i, had, text, tl);
		if (outcome == 9) fmt = "{q} =;!#";
		rc = mpt_parse_node(root, &ctx, fmt);
	} else {
		FILE *f = (outcome == 9) ? 0 : fmemopen(text, tl, "r");
		if (outcome != 9 && !f) vf_inconclusive("fmemopen failed");
		cur_op = "node_parse";
		vf_at("mpt_node_parse");
		vf_count("mpt_node_parse", 1);
		snprintf(what, sizeof(what), "node_parse[%s, limits %s]", outcome < 4 ? "good" : outcome < 7 ? "text error" : outcome == 7 ? "bad limits" : outcome == 8 ? "bad format" : "no file",
		         limits ? limits : "NULL");
		log_text(what, i, had, text, tl);
		rc = mpt_node_parse(root, f, fmt, limits, 0);
		if (f) fclose(f);
	}
	if (outcome >= 4) {
		static const char *cn[] = { "outcome:parse-text-error", "outcome:parse-text-error", "outcome:parse-text-error", "outcome:parse-bad-limits", "outcome:parse-bad-format", "outcome:parse-no-file" };
		VF_CHECK(rc < 0, K(cur_op, "accepted-bad-input"), "%s returned %d", what, rc);
		/* same child list, same links everywhere, nothing released (walker: release count) */
		check_unchanged(cur_op);
		vf_count((use_parse_node && outcome == 9) ? "outcome:parse-bad-format" : cn[outcome - 4], 1);
		if (had) vf_count("state:failed-parse-on-node-with-children", 1);
		return had ? 2 : 1;
	}
	VF_CHECK(rc >= 0, K(cur_op, "refused"), "%s returned %d for well-formed input", what, rc);
	/* replace semantics: every old descendant is gone */
	release_subtree(cur_op, i, 0);
	if (root->children) {
		if (POISONED(root->children)) vf_fail(K(cur_op, "freed-node-linked"), "children of node %d point to a freed node", i);
		register_foreign(root->children, i, N[i].grp);
	}
	check_structure(cur_op);
	adopt();
	vf_count("outcome:node-parse-replaced", 1);
	if (had) vf_count("state:node-parse-on-node-with-children", 1);
	return had ? 2 : 1;
}

/* manual concatenation (the documented use of relink): a detached top-level
 * list is hooked behind the last child of a node at any depth with a bare
 * `last->next = head`, then the links are restored from an ancestor */
static int op_concat(vf_rng *r)
{
	int t = pick(r, p_has_children, 0), cand[MAXN], nc = 0, mem[MAXN], nm;
	if (t < 0) return 0;
	int root = t;
	while (N[root].par >= 0) root = N[root].par;
	for (int j = 0; j < nn; j++) if (N[j].alive && N[j].par < 0 && N[j].grp != N[root].grp) cand[nc++] = j;
	if (!nc) return 0;
	MPT_STRUCT(node) *dh = head_of(N[cand[vf_below(r, (uint32_t) nc)]].n), *last = N[t].n->children;
	nm = list_members(dh, mem);
	while (last->next) last = last->next;
	/* ancestor to relink from: the node itself, its parent, grandparent, ... root */
	int chain[MAXN], cl = 0;
	for (int j = t; j >= 0; j = N[j].par) chain[cl++] = j;
	int up = (int) vf_below(r, 4);
	if (up == 3 || up >= cl) up = cl - 1;
	int a = chain[up];
	cur_op = "gnode_relink";
	vf_at("mpt_gnode_relink");
	vf_count("mpt_gnode_relink:concat", 1);
	vf_log("concatenate list of %d (%d members) behind last child %d of node %d, gnode_relink(%d) [%d levels up]", idx_of(dh), nm, idx_of(last), t, a, up);
	vf_fp_u64(0xAC0 + (uint64_t) up * 64 + (uint64_t) nm);
	last->next = dh;
	mpt_gnode_relink(N[a].n);
	for (int k = 0; k < nm; k++) N[mem[k]].par = t;
	if (up == 0) vf_count("state:concat-relink-from-parent", 1);
	else if (up == 1) vf_count("state:concat-relink-from-grandparent", 1);
	else vf_count("state:concat-relink-from-higher", 1);
	if (a == root) vf_count("state:concat-relink-from-root", 1);
	for (int k = 0; k < nm; k++) if (N[mem[k]].n->children) { vf_count("state:concat-members-with-children", 1); break; }
	return up ? 2 : 1;
}

/* trees built and extended through mpt_node_assign(): one call creates all
 * missing levels of a multi-element path below a top-level list (empty or
 * populated) or below the child list of a node that has children */
static int op_assign(vf_rng *r)
{
	static const char *en[] = { "a", "b", "cc", "dd", "e1", "e2", "e3", "" };
	char text[96], vbuf[12];
	size_t tl = 0;
	int levels = 1 + (int) vf_below(r, 6), where = (int) vf_below(r, 10), bi = -1, par = -1, grp;
	MPT_STRUCT(node) *head = 0, **base = &head;
	if (alive_count() > LIVE_MAX - 6) return 0;
	if (where >= 2 && where < 6) bi = pick(r, p_has_children, 0);          /* below a populated node */
	else if (where >= 6) { bi = pick(r, 0, 0); if (bi >= 0) { while (N[bi].par >= 0) bi = N[bi].par; } }  /* existing top-level list */
	if (where >= 2 && where < 6 && bi >= 0) { base = &N[bi].n->children; par = bi; grp = N[bi].grp; }
	else if (bi >= 0) { head = head_of(N[bi].n); grp = N[bi].grp; }
	else grp = next_grp++;                                                 /* empty tree */
	for (int k = 0; k < levels; k++) {
		const char *nm = en[vf_below(r, vf_chance(r, 1, 8) ? 8 : 7)];
		tl += (size_t) snprintf(text + tl, sizeof(text) - tl, "%s%s", k ? "." : "", nm);
	}
	MPT_STRUCT(path) p = MPT_PATH_INIT;
	mpt_path_set(&p, text, -1);
	int withval = vf_chance(r, 2, 3), before = alive_count();
	const char *vp = vbuf;
	snprintf(vbuf, sizeof(vbuf), "w%u", vf_below(r, 1000));
	MPT_STRUCT(value) val = MPT_VALUE_INIT('s', &vp);
	MPT_STRUCT(node) *oldhead = *base;
	cur_op = "node_assign";
	vf_at("mpt_node_assign");
	vf_count("mpt_node_assign", 1);
	vf_log("node_assign(%s, '%s'%s)", par >= 0 ? "children of a node" : head ? "top-level list" : "empty tree", text, withval ? ", value" : "");
	if (par >= 0) vf_log("  below node %d", par);
	vf_fp_u64(0xE00 + (uint64_t) levels * 16 + (uint64_t) where);
	vf_fp(text, tl);
	/* metatype pointers before: an existing target node gets a new value */
	snapshot();
	MPT_STRUCT(node) *ret = mpt_node_assign(base, &p, withval ? &val : 0);
	VF_CHECK(ret != 0, K(cur_op, "refused"), "returned NULL for path '%s'", text);
	VF_CHECK(oldhead ? *base == oldhead : *base != 0, K(cur_op, "list-head"), "list reference %s", oldhead ? "was changed" : "not set for first element");
	for (int j = 0; j < nn; j++) {
		if (!N[j].alive || (void *) N[j].n->_meta == (void *) snaps[j].l[4]) continue;
		VF_CHECK(N[j].n == ret, K(cur_op, "foreign-value-changed"), "value of node %d changed, the path denotes node %d", j, idx_of(ret));
		if (N[j].meta >= 0) {
			VF_CHECK(metas[N[j].meta].unrefs == 1, K(cur_op, "not-released"), "replaced value %d of node %d has %d releases", N[j].meta, j, metas[N[j].meta].unrefs);
			++expected_unrefs;
			N[j].meta = -1;
		}
		N[j].foreign = 1;
		vf_count("outcome:assign-replaced-value", 1);
	}
	register_foreign(*base, par, grp);
	int created = alive_count() - before;
	VF_CHECK(created <= levels, K(cur_op, "node-count"), "%d nodes created for a path of %d elements", created, levels);
	VF_CHECK(idx_of(ret) >= 0, K(cur_op, "result-unreachable"), "returned node is not part of the target list/tree");
	{
		static const char *cn[] = { "state:assign-created-0", "state:assign-created-1", "state:assign-created-2", "state:assign-created-3",
		                            "state:assign-created-4", "state:assign-created-5plus" };
		vf_count(cn[created > 5 ? 5 : created], 1);
	}
	if (par >= 0) vf_count("state:assign-below-node", 1);
	else if (oldhead) vf_count("state:assign-populated-list", 1);
	else vf_count("state:assign-empty-tree", 1);
	return created >= 2 ? 2 : 1;
}

static int op_parse(vf_rng *r)
{
	char text[512];
	int i = pick(r, vf_chance(r, 2, 3) ? p_has_children : 0, 0);
	if (i < 0 || alive_count() > LIVE_MAX - 6) return 0;
	size_t tl = gen_text(r, text, sizeof(text), 0);
	int items = (int) tl;
	struct pin in = { text, 0, tl };
	MPT_STRUCT(parser_context) ctx = MPT_PARSER_INIT;
	ctx.src.getc = pin_getc;
	ctx.src.arg = &in;
	MPT_STRUCT(node) *root = N[i].n;
	int had = root->children != 0;
	cur_op = "parse_node";
	vf_at("mpt_parse_node");
	vf_count("mpt_parse_node", 1);
	log_text("parse_node", i, had, text, tl);
	vf_fp_u64(0xD00 + (uint64_t) items);
	vf_fp(text, tl);
	/* old children may be superseded (destroyed) or kept: which ones is the
	 * merge semantics, adopted; what is asserted is structure + release */
	int before[MAXN], nb = 0;
	for (int j = 0; j < nn; j++) if (N[j].alive && j != i && in_subtree(j, i)) before[nb++] = j;
	int rc = mpt_parse_node(root, &ctx, "{*} =;!#");
	VF_CHECK(rc >= 0, K(cur_op, "refused"), "returned %d for well-formed input", rc);
	/* nodes of the old subtree: either still linked below root or released */
	for (int k = 0; k < nb; k++) {
		int j = before[k];
		if (POISONED(N[j].n)) {
			if (N[j].meta >= 0) {
				VF_CHECK(metas[N[j].meta].unrefs == 1, K(cur_op, "not-released"), "superseded node %d was freed, its metatype has %d releases", j, metas[N[j].meta].unrefs);
				++expected_unrefs;
			}
			N[j].alive = 0;
			vf_count("monitor:release-witnessed", 1);
			vf_count("outcome:parse-superseded", 1);
		} else if (N[j].meta >= 0 && metas[N[j].meta].unrefs) {
			vf_fail(K(cur_op, "released-while-allocated"), "node %d: metatype released but node memory not freed", j);
		}
	}
	if (root->children) {
		if (POISONED(root->children)) vf_fail(K(cur_op, "freed-node-linked"), "children of node %d point to a freed node", i);
		register_foreign(root->children, i, N[i].grp);
	}
	check_structure(cur_op);
	adopt();
	if (had) vf_count("state:parse-merge", 1);
	return had ? 2 : 1;
}

/* ------------------------------------------------------------------ entry */
enum { ONew, OAfter, OBefore, OGAdd, ONAdd, OGIns, ONIns, OUnlink, ODestroy, OClear, OCloneN, OCloneL, OCloneT,
       OMove, OSwap, OSwitch, ORelink, ORelinkB, OLocate, ONext, OFind, OPos, OTraverse, OParse, OParseF, OConcat, OAssign, OCount };
static const uint8_t weights[OCount] = { 10, 5, 5, 8, 8, 12, 9, 5, 5, 2, 2, 4, 5, 8, 3, 5, 2, 2, 3, 2, 3, 2, 4, 3, 5, 5, 7 };

static void teardown(void)
{
	for (int guard = 0; guard < MAXN * 2; guard++) {
		int i;
		for (i = 0; i < nn; i++) if (N[i].alive && N[i].par < 0) break;
		if (i == nn) break;
		cur_op = "teardown";
		vf_at("mpt_node_unlink");
		mpt_node_unlink(N[i].n);
		N[i].grp = next_grp++;
		vf_at("mpt_node_destroy");
		VF_CHECK(mpt_node_destroy(N[i].n) == 0, K(cur_op, "refused-unlinked"), "destroy of unlinked node %d refused", i);
		release_subtree(cur_op, i, 1);
		check_all(cur_op);
	}
	VF_CHECK(!alive_count(), K("teardown", "unreachable"), "%d nodes left after destroying every top-level node", alive_count());
	for (int m = 0; m < nmetas; m++)
		VF_CHECK(metas[m].unrefs == 1, K("teardown", "release-count"), "metatype %d (clone of %d) has %d releases at the end", m, metas[m].clone_of, metas[m].unrefs);
	vf_count("monitor:final-release-audits", 1);
}

uint64_t vf_cases(void) { return vf_thorough ? 3000000 : 200000; }

void vf_case(uint64_t idx, vf_rng *r)
{
	int wsum = 0, mut = 0, deep_ops = 0;
	char desc[1500];
	size_t dl = 0;
	(void) idx;
	nn = nmetas = 0; next_grp = 0;
	clone_calls = clone_fail_at = 0;
	total_unrefs = expected_unrefs = 0;
	max_depth = 0;
	for (int i = 0; i < OCount; i++) wsum += weights[i];
	int nops = vf_range(r, 15, vf_thorough ? 110 : 70);
	int init = vf_range(r, 2, 6);
	for (int i = 0; i < init; i++) new_node(r, 0);
	check_all("node_new");
	for (int k = 0; k < nops; k++) {
		int w = (int) vf_below(r, (uint32_t) wsum), op = 0, done = 0;
		while (w >= weights[op]) w -= weights[op++];
		if (next_grp > GMAX - 200 || nn > MAXN - 12 || nmetas > MAXM - 30) break;
		switch (op) {
		case ONew: if (alive_count() < LIVE_MAX) { new_node(r, 0); done = 1; } break;
		case OAfter: case OBefore: case OGAdd: case ONAdd: case OGIns: case ONIns:
			done = op_attach(r, op - OAfter);
			if (!done && alive_count() < LIVE_MAX) { new_node(r, 0); op = ONew; done = 1; }
			break;
		case OUnlink: done = op_unlink(r); break;
		case ODestroy: done = op_destroy(r); break;
		case OClear: done = op_clear(r); break;
		case OCloneN: case OCloneL: case OCloneT: done = op_clone(r, op - OCloneN); break;
		case OMove: done = op_move(r); break;
		case OSwap: done = op_swap(r, 0); break;
		case OSwitch: done = op_swap(r, 1); break;
		case ORelink: done = op_relink(r); break;
		case ORelinkB: done = op_relink_build(r); break;
		case OLocate: case ONext: case OFind: case OPos: done = op_lookup(r, op - OLocate); break;
		case OTraverse: done = op_traverse(r); break;
		case OParse: done = op_parse(r); break;
		case OParseF: done = op_parse_file(r); break;
		case OConcat: done = op_concat(r); break;
		case OAssign: done = op_assign(r); break;
		}
		if (!done) continue;
		check_all(cur_op);
		if (op < OLocate || op >= OParse) mut++;
		if (done == 2) deep_ops++;
		if (dl + 24 < sizeof(desc)) dl += (size_t) snprintf(desc + dl, sizeof(desc) - dl, "%s ", cur_op);
		vf_max("max:population", (uint64_t) alive_count());
	}
	unsigned reached = max_depth;
	teardown();
	if (reached >= 2) vf_count("history:reached-depth2", 1);
	if (reached >= 2 && mut >= 8 && deep_ops) vf_nontrivial();
	vf_sample("%d ops, depth %u: %s", nops, reached, desc);
}
