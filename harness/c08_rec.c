/*
 * C08: recording save handler and stack model of open sections (see c08_rec.h).
 */
#include <stdlib.h>
#include <sys/uio.h>

#include "config.h"
#include "types.h"
#include "parse.h"

#include "c08_rec.h"

typedef c08_bytes bytes;
static void b_need(bytes *b, size_t add)
{
	if (b->n + add <= b->cap) return;
	size_t c = b->cap ? b->cap * 2 : 256;
	while (c < b->n + add) c *= 2;
	b->d = realloc(b->d, c);
	if (!b->d) vf_inconclusive("out of memory");
	b->cap = c;
}
static void b_add(bytes *b, const void *p, size_t n) { if (!n) return; b_need(b, n); memcpy(b->d + b->n, p, n); b->n += n; }
static void b_free(bytes *b) { free(b->d); b->d = 0; b->n = b->cap = 0; }

/* ------------------------------------------------------ event nesting model */

void c08_rec_init(c08_recorder *rec, int binary, long fail_at)
{
	memset(rec, 0, sizeof(*rec));
	rec->binary = binary;
	rec->sep = '.';
	rec->fail_at = fail_at;
}
void c08_rec_fini(c08_recorder *rec)
{
	b_free(&rec->names);
	free(rec->lens);
	rec->lens = 0;
}
static void rec_push(c08_recorder *rec, const uint8_t *name, size_t len)
{
	if (rec->depth == rec->cap) {
		rec->cap = rec->cap ? rec->cap * 2 : 16;
		rec->lens = realloc(rec->lens, rec->cap * sizeof(*rec->lens));
		if (!rec->lens) vf_inconclusive("out of memory");
	}
	b_add(&rec->names, name, len);
	rec->lens[rec->depth++] = len;
	if (rec->depth > rec->maxdepth) rec->maxdepth = rec->depth;
}
static void rec_pop(c08_recorder *rec)
{
	rec->names.n -= rec->lens[--rec->depth];
}
static void nest_error(c08_recorder *rec, const char *key, const char *what, int curr, const uint8_t *p, size_t plen)
{
	char hx[160];
	if (rec->nest_key) return;
	rec->nest_key = key;
	snprintf(rec->nest_msg, sizeof(rec->nest_msg), "event %llu (code %x): %s; %zu section(s) open; path bytes %s",
	         (unsigned long long) rec->count, curr, what, rec->depth, vf_hex(hx, sizeof(hx), p, plen));
}
/*
 * Split the path into elements.  Text form: bytes [0,len-1) separated by
 * path.sep, the last byte is the terminator written by mpt_path_add.  Binary
 * form: first | name | len | nextlen | name | len | 0.
 * Returns number of elements or -1 when the bytes do not have that form.
 */
static long path_split(const MPT_STRUCT(path) *path, const uint8_t *p, size_t len, int binary,
                       size_t *starts, size_t *lens, size_t max)
{
	size_t n = 0;
	if (!len) return 0;
	if (!binary) {
		size_t s = 0;
		for (size_t i = 0; i + 1 < len; i++) {
			if (p[i] == (uint8_t) path->sep) {
				if (n >= max) return -1;
				starts[n] = s; lens[n++] = i - s;
				s = i + 1;
			}
		}
		if (n >= max) return -1;
		starts[n] = s; lens[n++] = (len - 1) - s;
		return (long) n;
	}
	size_t off = 0, l = path->first;
	while (off < len) {
		if (off + l + 2 > len) return -1;
		if (p[off + l] != l) return -1;
		if (n >= max) return -1;
		starts[n] = off; lens[n++] = l;
		off += l + 2;
		l = p[off - 1];
	}
	return (long) n;
}
int c08_rec_save(void *arg, const MPT_STRUCT(path) *path, const MPT_STRUCT(value) *val, int prev, int curr)
{
	c08_recorder *rec = arg;
	uint8_t *pcopy, *vcopy = 0;
	size_t plen = path->len, vlen = 0;
	size_t *starts, *lens;
	long n;

	(void) prev;
	if (rec->tick) rec->tick(rec->tick_arg, "save");

	/* touch everything the handler is given (ASan decides whether it may) */
	pcopy = vf_xalloc(plen);
	if (plen) memcpy(pcopy, path->base + path->off, plen);
	if (val) {
		const struct iovec *io = val->_addr;
		vlen = io->iov_len;
		vcopy = vf_xalloc(vlen);
		if (vlen) memcpy(vcopy, io->iov_base, vlen);
	}
	if (curr >= 0 && curr < 8) rec->kinds[curr]++;

	starts = malloc((plen + 1) * 2 * sizeof(*starts));
	lens = starts + plen + 1;
	n = path_split(path, pcopy, plen, rec->binary, starts, lens, plen + 1);

	if (vf_logging) {
		char hp[200], hv[100];
		vf_log("  save #%llu prev=%x curr=%x path[%zu]=%s val[%zu]=%s depth=%zu", (unsigned long long) rec->count, prev, curr,
		       plen, vf_hex(hp, sizeof(hp), pcopy, plen), vlen, val ? vf_hex(hv, sizeof(hv), vcopy, vlen) : "-", rec->depth);
	}
	if (n < 0) {
		nest_error(rec, "model:events:path-malformed", "path bytes are not a separated element list", curr, pcopy, plen);
	}
	else {
		/* elements [0,depth) must be the open sections */
		size_t want = rec->depth, i, off = 0;
		int prefix_ok = (size_t) n >= want;
		for (i = 0; prefix_ok && i < want; i++) {
			if (lens[i] != rec->lens[i] || memcmp(pcopy + starts[i], rec->names.d + off, lens[i])) prefix_ok = 0;
			off += rec->lens[i];
		}
		switch (curr) {
		case MPT_PARSEFLAG(Section):
			if (!prefix_ok || (size_t) n != want + 1) {
				nest_error(rec, "model:events:section-path", "section start whose path is not the open sections plus one name", curr, pcopy, plen);
			}
			if (n > 0) rec_push(rec, pcopy + starts[n - 1], lens[n - 1]);
			else rec_push(rec, pcopy, 0);
			break;
		case MPT_PARSEFLAG(SectEnd):
			if (!rec->depth) {
				nest_error(rec, "model:events:sectend-unmatched", "section end while no section is open", curr, pcopy, plen);
				break;
			}
			if (!prefix_ok || (size_t) n != want) {
				nest_error(rec, "model:events:sectend-path", "section end whose path is not the open sections", curr, pcopy, plen);
			}
			rec_pop(rec);
			break;
		case MPT_PARSEFLAG(Option):
		case MPT_PARSEFLAG(Option) | MPT_PARSEFLAG(Data):
			if (!prefix_ok || (size_t) n != want + 1) {
				nest_error(rec, "model:events:option-path", "option whose path is not the open sections plus the option name", curr, pcopy, plen);
			}
			if (!val != !(curr & MPT_PARSEFLAG(Data))) {
				nest_error(rec, "model:events:value-presence", "value argument does not match the data flag", curr, pcopy, plen);
			}
			break;
		case MPT_PARSEFLAG(Data):
			if (!prefix_ok || (size_t) n != want) {
				nest_error(rec, "model:events:data-path", "anonymous data whose path is not the open sections", curr, pcopy, plen);
			}
			if (!val) {
				nest_error(rec, "model:events:value-presence", "data event without value", curr, pcopy, plen);
			}
			break;
		default:
			nest_error(rec, "model:events:unknown-code", "event code is none of section/section end/option/data", curr, pcopy, plen);
		}
	}
	free(starts);
	vf_xfree(pcopy, plen);
	vf_xfree(vcopy, vlen);

	rec->count++;
	if (rec->fail_at >= 0 && (uint64_t) rec->fail_at + 1 == rec->count) {
		rec->refused = 1;
		return -1;
	}
	return 0;
}
/* verdict over a finished parse that went through rec_save */
void c08_rec_verdict(c08_recorder *rec, int family, int same, int ret, const char *driver, const char *desc)
{
	if (rec->refused) {
		VF_CHECK(ret < 0, "model:parse_config:save-failure-ignored",
		         "%s %s: save handler refused event %ld but the parse returned %d", driver, desc, rec->fail_at, ret);
	}
	if (ret < 0) {
		vf_count("outcome:rejected", 1);
		return;
	}
	vf_count("outcome:accepted", 1);
	vf_count("monitor:nesting-verdicts", 1);
	if (rec->nest_key) {
		vf_fail(rec->nest_key, "%s %s: accepted (%d) although %s", driver, desc, ret, rec->nest_msg);
	}
	if (rec->depth) {
		/* flat families end the last section by end of input */
		int flat = family == ' ' || (family == 'x' && same);
		VF_CHECK(flat && rec->depth == 1, "model:events:open-at-end",
		         "%s %s: accepted (%d) with %zu section(s) still open", driver, desc, ret, rec->depth);
		vf_count("state:flat-section-open-at-eof", 1);
	}
}

