/*
 * C05 (C++ leg): managed elements in the C++ typed containers.
 *
 * Elem is a class whose constructors/destructor keep a live set (identity =
 * serial stored in the object; the library relocates elements by raw copy).
 * Obj is a reference-counted class for reference_array / item_array.
 */
#include <vector>
#include <string>
#include <cstring>
#include <sys/uio.h>

#include "meta.h"
#include "array.h"
#include "vf.h"
#include <algorithm>
#include "cxx_itemarray.h"

const char *vf_name = "c05_cxx";

#define CANARY 0xC05E1E37u
#define DEAD   0xDEADDEADu
#define MAXSER (1u << 20)
static uint8_t *live;
static uint32_t next_serial;
static long n_live;
static const char *cur_op = "?";
static char keybuf[96];
static const char *key(const char *what)
{
	snprintf(keybuf, sizeof(keybuf), "cxxelem:%s:%s", cur_op, what);
	return keybuf;
}
struct Elem {
	uint32_t canary, serial;
	uint64_t payload;
	void born(uint64_t p)
	{
		if (next_serial >= MAXSER) vf_inconclusive("serial space exhausted");
		canary = CANARY; serial = next_serial++; payload = p;
		live[serial] = 1; n_live++;
		vf_count("monitor:constructor-calls", 1);
	}
	Elem() { born(0); }
	Elem(uint64_t p) { born(p); }
	Elem(const Elem &o)
	{
		if (o.canary != CANARY || o.serial >= MAXSER || !live[o.serial])
			vf_fail(key("copy-from-dead"), "copy constructor got a source that is not a live element (canary %08x serial %u)", o.canary, o.serial);
		born(o.payload);
	}
	Elem &operator=(const Elem &o)
	{
		if (canary != CANARY || serial >= MAXSER || !live[serial])
			vf_fail(key("assign-to-dead"), "assignment target is not a live element (canary %08x serial %u)", canary, serial);
		if (o.canary != CANARY || !live[o.serial])
			vf_fail(key("copy-from-dead"), "assignment source is not a live element");
		payload = o.payload;
		return *this;
	}
	~Elem()
	{
		vf_count("monitor:destructor-calls", 1);
		if (canary != CANARY)
			vf_fail(key(canary == DEAD ? "double-destroy" : "destroy-garbage"), "destructor got bytes that are not an element (canary %08x serial %u)", canary, serial);
		if (serial >= MAXSER || !live[serial])
			vf_fail(key("double-destroy"), "destructor got element serial %u which is not alive", serial);
		live[serial] = 0; n_live--;
		canary = DEAD;
	}
};

template <typename A>
class Open : public A
{
public:
	Open() { }
	Open(const Open &o) : A(o) { }
	mpt::content<Elem> *content() const { return this->_ref.instance(); }
};

static long temporaries;  /* live harness-owned Elem objects */

template <typename A>
static void check_elems(const A *arr, const std::vector<uint64_t> *sh, int n, int h, bool adopt, std::vector<uint64_t> *shw, const std::string &ctx)
{
	static uint32_t *mark, gen;
	if (!mark) mark = (uint32_t *) calloc(MAXSER, sizeof(*mark));
	gen++;
	long counted = 0;
	for (int i = 0; i < n; i++) {
		const Elem *e = arr[i].begin();
		long len = arr[i].length();
		bool dup = false;
		for (int k = 0; k < i; k++) if (len && arr[k].begin() == e) dup = true;
		for (long j = 0; j < len; j++) {
			if (e[j].canary != CANARY || e[j].serial >= MAXSER || !live[e[j].serial])
				vf_fail(key("counted-element-not-alive"), "%s: array %d element %ld of %ld is not a live element (canary %08x serial %u)", ctx.c_str(), i, j, len, e[j].canary, e[j].serial);
			if (!dup) {
				if (mark[e[j].serial] == gen) vf_fail(key("duplicate-element"), "%s: element serial %u is stored twice", ctx.c_str(), e[j].serial);
				mark[e[j].serial] = gen;
			}
		}
		if (!dup) counted += len;
		if (adopt && i == h) {
			shw[i].resize(len);
			for (long j = 0; j < len; j++) shw[i][j] = e[j].payload;
			continue;
		}
		if ((size_t) len != sh[i].size())
			vf_fail(key(i == h ? "target-count" : "other-handle-count"), "%s: array %d has %ld elements, model %zu", ctx.c_str(), i, len, sh[i].size());
		for (long j = 0; j < len; j++)
			if (e[j].payload != sh[i][j])
				vf_fail(key(i == h ? "target-value" : "other-handle-value"), "%s: array %d element %ld has payload %llu, model %llu", ctx.c_str(), i, j,
				        (unsigned long long) e[j].payload, (unsigned long long) sh[i][j]);
	}
	VF_CHECK(n_live == counted + temporaries, key(n_live > counted + temporaries ? "live-element-outside-arrays" : "fewer-live-than-counted"),
	         "%s: %ld elements alive, arrays count %ld (+%ld temporaries)", ctx.c_str(), n_live, counted, temporaries);
	vf_count("monitor:conservation-checks", 1);
}

template <typename A, bool unique>
static void run_elems(vf_rng *r, const char *kind)
{
	static uint64_t np = 5000;
	int nops = vf_range(r, 6, 50), shared_writes = 0;
	{
		Open<A> a[3];
		std::vector<uint64_t> s[3];
		vf_fp_u64(unique ? 0xe1 : 0xe2);
		for (int i = 0; i < nops; i++) {
			int op = (int) vf_below(r, 9), h = (int) vf_below(r, 3), g = (int) vf_below(r, 3);
			long n = (long) s[h].size();
			long pos = vf_chance(r, 1, 4) ? -(long) vf_below(r, (uint32_t) n + 2) : (long) vf_below(r, (uint32_t) n + 3);
			static const char *names[] = { "copy", "insert", "set", "resize", "reserve", "skip", "trim", "buffer_copy", "drop" };
			char opn[48], cb[160];
			snprintf(opn, sizeof(opn), "%s_%s", kind, names[op]);
			cur_op = names[op];
			snprintf(cb, sizeof(cb), "%s(h=%d,g=%d,pos=%ld) length=%ld", opn, h, g, pos, n);
			std::string ctx = cb;
			vf_log("%s", cb);
			vf_count(opn, 1);
			vf_fp_u64(((uint64_t) op << 40) ^ (h << 24) ^ (g << 16) ^ (uint32_t) pos);
			bool shared = false, adopt = false;
			for (int k = 0; k < 3; k++) if (k != h && n && a[k].begin() == a[h].begin()) shared = true;
			if (shared) vf_count("state:shared", 1);
			switch (op) {
			case 0: a[h] = a[g]; s[h] = s[g]; break;
			case 1: {
				long p = pos < 0 ? pos + n : pos;
				if (p > 300) break;
				uint64_t pv = np++;
				bool ok;
				if constexpr (unique) {
					Elem *e = a[h].insert(pos);
					ok = e != 0;
					if (e) e->payload = pv;
				} else {
					Elem tmp(pv);
					temporaries++;
					ok = a[h].insert(pos, tmp);
					temporaries--;
				}
				if (p < 0) { VF_CHECK(!ok, key("accepted-outside"), "%s", ctx.c_str()); break; }
				if (!ok) { VF_CHECK(unique && shared, key("refused"), "%s", ctx.c_str()); break; }
				if ((size_t) p > s[h].size()) s[h].resize(p, 0);
				s[h].insert(s[h].begin() + p, pv);
				break; }
			case 2: {
				long p = pos < 0 ? pos + n : pos;
				uint64_t pv = np++;
				bool ok;
				{
					Elem tmp(pv);
					temporaries++;
					ok = a[h].set(pos, tmp);
					temporaries--;
				}
				if (p < 0 || p >= n) { VF_CHECK(!ok, key("accepted-outside"), "%s", ctx.c_str()); break; }
				if (!ok) { VF_CHECK(unique && shared, key("refused"), "%s", ctx.c_str()); break; }
				s[h][p] = pv;
				break; }
			case 3: {
				long len = (long) vf_below(r, (uint32_t) n + 5);
				if (len > 300) break;
				bool ok = a[h].resize(len);
				if (!ok) { VF_CHECK(unique && shared, key("refused"), "%s: resize(%ld)", ctx.c_str(), len); break; }
				s[h].resize(len, 0);
				break; }
			case 4: a[h].reserve((long) vf_below(r, (uint32_t) n + 30)); adopt = true; break;
			case 5: case 6: {
				/* buffer level: only on exclusively owned content */
				if (!a[h].detach() || !n) break;
				bool sh2 = false;
				for (int k = 0; k < 3; k++) if (k != h && a[k].begin() == a[h].begin()) sh2 = true;
				if (sh2) break;
				mpt::content<Elem> *c = a[h].content();
				long cnt = (long) vf_below(r, (uint32_t) n + 2);
				bool ok = op == 5 ? c->skip(cnt * sizeof(Elem)) : c->trim(cnt * sizeof(Elem));
				snprintf(cb, sizeof(cb), "%s(%ld elements) length=%ld", opn, cnt, n);
				ctx = cb;
				if (cnt > n) { VF_CHECK(!ok, key("accepted-outside"), "%s", ctx.c_str()); break; }
				VF_CHECK(ok, key("refused"), "%s", ctx.c_str());
				if (op == 5) s[h].erase(s[h].begin(), s[h].begin() + cnt);
				else s[h].resize(n - cnt);
				break; }
			case 7: {
				/* buffer::copy from another array's content into exclusively owned content with room */
				if (h == g || !a[h].reserve((long) s[g].size()) || !a[h].detach()) break;
				bool sh2 = false;
				for (int k = 0; k < 3; k++) if (k != h && a[k].length() && a[k].begin() == a[h].begin()) sh2 = true;
				if (sh2 || !a[g].content() || !a[h].content()) break;
				if (a[h].content() == a[g].content()) break;
				bool ok = a[h].content()->copy(*a[g].content());
				if (!ok) { adopt = true; break; }
				s[h] = s[g];
				break; }
			case 8: a[h] = Open<A>(); s[h].clear(); break;
			}
			check_elems(a, s, 3, h, adopt, s, ctx);
			if (shared && op != 0 && op != 8) shared_writes++;
		}
	}
	cur_op = "teardown";
	VF_CHECK(n_live == 0, "cxxelem:teardown:element-alive-after-last-handle", "%ld elements alive after all %s handles are gone", n_live, kind);
	if (shared_writes >= 1) vf_nontrivial();
	vf_sample("%s<Elem> x3: %d copy/insert/set/resize/reserve/skip/trim/buffer-copy/drop operations", kind, nops);
}

/* ---- reference arrays -------------------------------------------------------- */
static long obj_alive, obj_refs[8];
class ObjBase
{
public:
	int id;
	ObjBase() : id(-1) { obj_alive++; }
	virtual ~ObjBase() { obj_alive--; vf_count("monitor:object-destroyed", 1); }
};
typedef mpt::reference<ObjBase>::type Obj;

static void case_refarray(vf_rng *r)
{
	int nops = vf_range(r, 5, 40);
	vf_fp_u64(0xef);
	obj_alive = 0;
	{
		mpt::reference_array<Obj> a[2];
		std::vector<Obj *> s[2];
		std::vector<Obj *> pool;      /* harness-held references */
		for (int i = 0; i < 4; i++) pool.push_back(new Obj);
		for (int i = 0; i < nops; i++) {
			int op = (int) vf_below(r, 7), h = (int) vf_below(r, 2);
			long n = (long) s[h].size(), pos = (long) vf_below(r, (uint32_t) n + 2);
			Obj *o = pool[vf_below(r, 4)];
			char cb[160];
			snprintf(cb, sizeof(cb), "reference_array op=%d h=%d pos=%ld length=%ld", op, h, pos, n);
			std::string ctx = cb;
			vf_log("%s", cb);
			vf_fp_u64((op << 16) ^ (h << 8) ^ pos);
			bool shared = n && a[0].begin() == a[1].begin();
			switch (op) {
			case 0: vf_count("refarray_copy", 1); a[h] = a[!h]; s[h] = s[!h]; break;
			case 1: {
				if (n > 60) break;
				vf_at("reference_array::insert"); vf_count("refarray_insert", 1);
				if (!o->addref()) vf_inconclusive("addref failed");
				bool ok = a[h].insert(pos, o);
				if (!ok) { o->unref(); VF_CHECK(shared, "cxxref:insert:refused", "%s", ctx.c_str()); break; }
				if ((size_t) pos > s[h].size()) s[h].resize(pos, 0);
				s[h].insert(s[h].begin() + pos, o);
				break; }
			case 2: {
				vf_at("reference_array::set"); vf_count("refarray_set", 1);
				if (!o->addref()) vf_inconclusive("addref failed");
				bool ok = a[h].set(pos, o);
				if (pos >= n) { VF_CHECK(!ok, "cxxref:set:accepted-outside", "%s", ctx.c_str()); o->unref(); break; }
				if (!ok) { o->unref(); VF_CHECK(shared, "cxxref:set:refused", "%s", ctx.c_str()); break; }
				if (shared) { /* set() writes in place: documented const access on shared references is adopted */
					for (int k = 0; k < 2; k++) s[k][pos] = o;
				} else s[h][pos] = o;
				break; }
			case 3: {
				vf_at("reference_array::clear"); vf_count("refarray_clear", 1);
				long c = a[h].clear(vf_chance(r, 1, 2) ? o : 0);
				(void) c;
				/* clear works on the stored references in place */
				for (int k = 0; k < 2; k++) {
					if (k != h && !shared) continue;
					s[k].assign(a[k].length(), (Obj *) 0);
					for (long j = 0; j < a[k].length(); j++) s[k][j] = a[k].begin()[j].instance();
				}
				break; }
			case 4: {
				vf_at("reference_array::resize"); vf_count("refarray_resize", 1);
				long len = (long) vf_below(r, (uint32_t) n + 3);
				bool ok = a[h].resize(len);
				if (!ok) { VF_CHECK(shared, "cxxref:resize:refused", "%s", ctx.c_str()); break; }
				s[h].resize(len, 0);
				break; }
			case 6: {
				/* compact(): references move to the front in order, the slots behind them are empty; works in place */
				vf_at("reference_array::compact"); vf_count("refarray_compact", 1);
				long live = a[h].count(), holes_in_front = 0, seen = 0;
				for (long j = 0; j < n; j++) { if (s[h][j]) seen++; else if (seen < live) holes_in_front++; }
				if (holes_in_front) vf_count("state:compact-with-hole-before-reference", 1);
				a[h].compact();
				for (int k = 0; k < 2; k++) {
					if (k != h && !shared) continue;
					std::vector<Obj *> t;
					for (size_t j = 0; j < s[k].size(); j++) if (s[k][j]) t.push_back(s[k][j]);
					t.resize(s[k].size(), (Obj *) 0);
					s[k] = t;
				}
				VF_CHECK(a[h].count() == live, "cxxref:compact:count", "%s: %ld references before compact, %ld after", ctx.c_str(), live, a[h].count());
				break; }
			case 5: vf_count("refarray_drop", 1); a[h] = mpt::reference_array<Obj>(); s[h].clear(); break;
			}
			/* oracle: slots equal model; every object's count = pool reference + slots in distinct arrays */
			for (int k = 0; k < 2; k++) {
				VF_CHECK((size_t) a[k].length() == s[k].size(), "cxxref:length", "%s: array %d has %ld slots, model %zu", ctx.c_str(), k, a[k].length(), s[k].size());
				for (size_t j = 0; j < s[k].size(); j++)
					VF_CHECK(a[k].begin()[j].instance() == s[k][j], "cxxref:slot", "%s: array %d slot %zu differs from model", ctx.c_str(), k, j);
			}
			bool same = a[0].length() && a[0].begin() == a[1].begin();
			for (int q = 0; q < 4; q++) {
				long expect = 1;
				for (int k = 0; k < 2; k++) {
					if (k && same) continue;
					for (size_t j = 0; j < s[k].size(); j++) if (s[k][j] == pool[q]) expect++;
				}
				/* probe the counter: addref returns the new value */
				uintptr_t c = pool[q]->addref();
				pool[q]->unref();
				VF_CHECK((long) c - 1 == expect, (long) c - 1 > expect ? "cxxref:reference-leaked" : "cxxref:reference-lost",
				         "%s: object %d has %ld references, model %ld", ctx.c_str(), q, (long) c - 1, expect);
			}
			vf_count("monitor:refarray-checks", 1);
		}
		for (size_t q = 0; q < pool.size(); q++) pool[q]->unref();
	}
	VF_CHECK(obj_alive == 0, obj_alive > 0 ? "cxxref:object-alive-after-teardown" : "cxxref:object-destroyed-twice", "%ld objects alive after all references are gone", obj_alive);
	vf_nontrivial();
	vf_sample("reference_array<Obj> x2: %d copy/insert/set/clear/compact/resize/drop operations, 4 objects", nops);
}

static uint64_t n_typed(void) { return vf_thorough ? 400000 : 40000; }
static uint64_t n_uniq(void) { return vf_thorough ? 200000 : 20000; }
static uint64_t n_ref(void) { return vf_thorough ? 200000 : 20000; }
static uint64_t n_item(void) { return vf_thorough ? 200000 : 20000; }
uint64_t vf_cases(void) { return n_typed() + n_uniq() + n_ref() + n_item(); }
void vf_case(uint64_t idx, vf_rng *r)
{
	if (!live) live = (uint8_t *) calloc(MAXSER, 1);
	if (next_serial > MAXSER - 100000) { memset(live, 0, MAXSER); next_serial = 0; }
	n_live = 0; temporaries = 0;
	(void) obj_refs;
	if (idx < n_typed()) { run_elems<mpt::typed_array<Elem>, false>(r, "typed_array"); return; }
	idx -= n_typed();
	if (idx < n_uniq()) { run_elems<mpt::unique_array<Elem>, true>(r, "unique_array"); return; }
	idx -= n_uniq();
	if (idx < n_ref()) { case_refarray(r); return; }
	ia::run(r, "cxxitem");
}
