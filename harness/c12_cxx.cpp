/*
 * C12 (C++ leg): request dispatch of mpt::io::stream (io_stream.cpp,
 * io::stream::dispatch::process) with a deferrable reply context as reply
 * target.
 *
 * A subclass of mpt::io::stream installs mpt_reply_deferrable(idlen, send,
 * transport) as its reply context and hands decoded request messages
 * [id][serial, payload] to dispatch::process().  The harness is the transport
 * (accepts or rejects every send according to a PRNG plan) and the event
 * handler (silent / reply / reply twice / defer).  Model and oracle as in
 * c12_reply.c: every send carries the id of the request that is armed at that
 * moment with the reply mark, at most one accepted send per request, a
 * rejected send leaves the request armed (retry through the context, or the
 * default reply when the stream - and with it the context - is released while
 * the transport is attached), further replies are refused, no send after the
 * release.
 */
#include <vector>
#include <string>
#include <cstring>
#include <cinttypes>
#include <sys/uio.h>

#include "meta.h"
#include "message.h"
#include "event.h"
#include "stream.h"
#include "io.h"
#include "vf.h"

const char *vf_name = "c12_cxx";

extern "C" int c12_tr_send(void *, const mpt::reply_data *, const mpt::message *);
extern "C" int c12_on_send(void *ptr, const uint8_t *id, size_t idlen, const uint8_t *msg, size_t msglen, int hasmsg);

enum { PlanSilent, PlanReply, PlanReplyTwice, PlanDefer, PlanCount };
struct request {
	int serial;
	uint8_t id[8];
	bool zero;
	int plan;
	int accepted, rejected;
	int handled;
	mpt::reply_context_detached *deferred;
};
static std::vector<request> reqs;
static size_t idlen;
static int transport_tag;
static bool attached;
static request *armed;        /* request armed on the context (model) */
static request *target;       /* request the running call may answer: armed or a deferred handle's */
static int failmode;          /* 0 accept, 1 reject, 2 flaky */
static vf_rng *rng;
static int sends_in_op, accepted_in_op;
static const uint8_t *exp_body;   /* explicit reply in progress: expected message, else not judged */
static size_t exp_bodylen;
static bool exp_default_null;     /* release: message must be absent */
static const char *cur = "";
static char hx1[120], hx2[120];
static int n_accept, n_reject, n_default;

class S : public mpt::io::stream
{
public:
	S(uint8_t len)
	{
		_idlen = len;
		_ctx.set_instance(mpt_reply_deferrable(len, c12_tr_send, &transport_tag));
	}
	virtual ~S() { }
	mpt::metatype *context() const { return _ctx.instance(); }
	int feed(const uint8_t *frame, size_t len, mpt::event_handler_t cmd, void *arg)
	{
		mpt::message msg(frame, len);
		class dispatch d(*this, cmd, arg);
		return d.process(&msg);
	}
};

int c12_on_send(void *ptr, const uint8_t *id, size_t len, const uint8_t *msg, size_t msglen, int hasmsg)
{
	vf_count("callback:send", 1);
	VF_CHECK(ptr == &transport_tag, "model:send:wrong-transport-pointer", "%s: send called with a foreign transport pointer", cur);
	VF_CHECK(attached, "model:send:after-detach", "%s: send called although the stream (transport owner) was released before", cur);
	VF_CHECK(target != 0, "model:send:unexpected", "%s: send called (id %s) although no armed request is addressed by this call", cur, vf_hex(hx1, sizeof(hx1), id, len < 16 ? len : 16));
	VF_CHECK(!target->accepted, "model:send:request-already-answered", "%s: send for request #%d which the transport already accepted a reply for", cur, target->serial);
	sends_in_op++;
	vf_count("monitor:send-id-compared", 1);
	{
		uint8_t want[8];
		memcpy(want, target->id, idlen);
		want[0] |= 0x80;
		VF_CHECK(len == idlen && !memcmp(id, want, idlen), "model:send:wrong-id", "%s: reply for request #%d carries id %s, expected %s (request id with reply bit)", cur, target->serial,
		         vf_hex(hx1, sizeof(hx1), id, len < 16 ? len : 16), vf_hex(hx2, sizeof(hx2), want, idlen));
	}
	if (exp_body) {
		vf_count("monitor:send-message-compared", 1);
		VF_CHECK(hasmsg && msglen == exp_bodylen && !memcmp(msg, exp_body, msglen), "model:send:wrong-message", "%s: explicit reply for request #%d carries %s, sent was %s", cur, target->serial,
		         vf_hex(hx1, sizeof(hx1), msg, msglen), vf_hex(hx2, sizeof(hx2), exp_body, exp_bodylen));
	} else if (exp_default_null) {
		VF_CHECK(!hasmsg, "model:send:wrong-message", "%s: default reply at release arrived with a message", cur);
	}
	if (!exp_body) { n_default++; vf_count("transport:default-reply-attempts", 1); }
	bool fail = failmode == 1 || (failmode == 2 && vf_chance(rng, 1, 2));
	vf_log("   send(#%d, %s) -> %s", target->serial, exp_body ? "explicit" : "default", fail ? "rejected" : "accepted");
	if (fail) { target->rejected++; n_reject++; vf_count("transport:rejected", 1); return -4; }
	target->accepted++; accepted_in_op++; n_accept++; vf_count("transport:accepted", 1);
	return 0;
}

static int hnd(void *, mpt::event *ev)
{
	vf_count("callback:handler", 1);
	if (!ev) return 0;
	VF_CHECK(ev->msg != 0, "model:cxx:event-without-message", "handler invoked without message");
	mpt::message m = *ev->msg;
	uint8_t body[32];
	size_t n = m.read(sizeof(body), body);
	VF_CHECK(n >= 1 && body[0] < reqs.size(), "model:cxx:payload", "handler received %s", vf_hex(hx1, sizeof(hx1), body, n));
	request *q = &reqs[body[0]];
	q->handled++;
	VF_CHECK(q->handled == 1, "model:cxx:request-dispatched-twice", "request #%d dispatched %d times", q->serial, q->handled);
	if (q->zero) return 0;
	VF_CHECK(ev->reply != 0, "model:cxx:no-reply-context", "request #%d dispatched without reply context", q->serial);
	armed = q; target = q;
	if (q->plan == PlanReply || q->plan == PlanReplyTwice) {
		for (int k = 0; k < (q->plan == PlanReplyTwice ? 2 : 1); k++) {
			uint8_t b[3] = { 0xA0, (uint8_t) q->serial, (uint8_t) k };
			mpt::message ans(b, sizeof(b));
			int before = sends_in_op, acc = q->accepted;
			exp_body = b; exp_bodylen = sizeof(b);
			vf_at("reply_context::reply");
			vf_count("reply_context::reply", 1);
			int r = ev->reply->reply(&ans);
			exp_body = 0;
			vf_log("   handler #%d: reply attempt %d = %d", q->serial, k, r);
			if (acc) {
				vf_count("monitor:further-reply-refused", 1);
				VF_CHECK(r < 0 && sends_in_op == before, "model:reply:second-accepted", "reply to request #%d after its accepted reply returned %d (%d sends)", q->serial, r, sends_in_op - before);
			} else {
				VF_CHECK(sends_in_op == before + 1, "model:reply:no-send", "reply to armed request #%d: send was not called (return %d)", q->serial, r);
				if (q->accepted) VF_CHECK(r >= 0, "model:reply:accepted-reported-failure", "transport accepted the reply to request #%d, reply() returned %d", q->serial, r);
				else VF_CHECK(r < 0, "model:reply:rejected-reported-success", "transport rejected the reply to request #%d, reply() returned %d", q->serial, r);
			}
		}
	} else if (q->plan == PlanDefer) {
		vf_at("reply_context::defer");
		vf_count("reply_context::defer", 1);
		q->deferred = ev->reply->defer();
		vf_log("   handler #%d: defer = %p", q->serial, (void *) q->deferred);
		if (q->deferred) { armed = 0; target = 0; vf_count("defer:accepted", 1); }
		else q->plan = PlanSilent;
	}
	return 0;
}

static void finish_op(request *q)
{
	/* after any call: accepted -> no longer armed */
	if (q && q->accepted && armed == q) armed = 0;
}

void vf_case(uint64_t, vf_rng *r)
{
	static const size_t idlens[] = { 1, 2, 2, 3, 4, 8 };
	int nops = vf_range(r, 3, vf_thorough ? 30 : 16);
	std::string desc;
	char one[64];
	rng = r;
	reqs.clear(); reqs.reserve(64);
	idlen = idlens[vf_below(r, sizeof(idlens) / sizeof(*idlens))];
	failmode = (int) vf_below(r, 3);
	armed = 0; target = 0; attached = true; exp_body = 0; exp_default_null = false;
	n_accept = n_reject = n_default = 0;
	vf_fp_u64(idlen); vf_fp_u64((uint64_t) failmode);
	snprintf(one, sizeof(one), "idlen=%zu transport=%s:", idlen, failmode == 0 ? "accepting" : failmode == 1 ? "rejecting" : "flaky");
	desc = one;
	vf_at("io::stream");
	S *s = new S((uint8_t) idlen);
	VF_CHECK(s->context() != 0, "model:create:refused", "mpt_reply_deferrable(%zu) returned NULL", idlen);
	int rejected_default_then_release = 0;

	for (int i = 0; i < nops && reqs.size() < 60; i++) {
		uint32_t c = vf_below(r, 100);
		std::vector<int> defs;
		for (size_t k = 0; k < reqs.size(); k++) if (reqs[k].deferred) defs.push_back((int) k);
		one[0] = 0;
		if (armed) {
			/* a request is still pending on the context: retry, or leave it for the release */
			if (c < 60) {
				uint8_t b[3] = { 0xA0, (uint8_t) armed->serial, 9 };
				mpt::message ans(b, sizeof(b));
				mpt::reply_context *rc = *s->context();
				request *q = armed;
				cur = "retry";
				target = q; sends_in_op = 0; accepted_in_op = 0;
				exp_body = b; exp_bodylen = sizeof(b);
				vf_fp_u64(0x30);
				vf_at("reply_context::reply");
				vf_count("reply_context::reply(retry)", 1);
				int ret = rc ? rc->reply(&ans) : -99;
				exp_body = 0;
				vf_log("retry reply for pending request #%d = %d", q->serial, ret);
				VF_CHECK(sends_in_op == 1, "model:reply:no-send", "retry for request #%d whose earlier replies the transport rejected: send was not called (return %d): the request is no longer armed", q->serial, ret);
				if (q->accepted) VF_CHECK(ret >= 0, "model:reply:accepted-reported-failure", "retry accepted by the transport returned %d", ret);
				else VF_CHECK(ret < 0, "model:reply:rejected-reported-success", "retry rejected by the transport returned %d", ret);
				finish_op(q);
				target = 0;
				snprintf(one, sizeof(one), " retry%s", q->accepted ? "" : "!");
			} else if (c < 80) break;   /* go to the release with the request pending */
			else continue;
		} else if (c < 70) {
			/* new request */
			reqs.push_back(request());
			request *q = &reqs.back();
			memset(q, 0, sizeof(*q));
			q->serial = (int) reqs.size() - 1;
			q->zero = vf_chance(r, 1, 10);
			if (!q->zero) { q->id[idlen - 1] = (uint8_t) (q->serial + 1); if (idlen > 1) q->id[0] = (uint8_t) vf_below(r, 0x80); }
			q->plan = (int) vf_below(r, PlanCount);
			uint8_t frame[32];
			size_t pl = 1 + vf_below(r, 8);
			memcpy(frame, q->id, idlen);
			frame[idlen] = (uint8_t) q->serial;
			vf_bytes(r, frame + idlen + 1, pl - 1);
			cur = "process";
			target = 0; sends_in_op = 0; accepted_in_op = 0;
			vf_fp(frame, idlen + pl); vf_fp_u64((uint64_t) q->plan);
			vf_at("io::stream::dispatch::process");
			vf_count("io::stream::dispatch::process", 1);
			int ret = s->feed(frame, idlen + pl, hnd, 0);
			vf_log("process(request #%d id %s plan %d) = %d, %d send(s)", q->serial, q->zero ? "zero" : vf_hex(hx1, sizeof(hx1), q->id, idlen), q->plan, ret, sends_in_op);
			VF_CHECK(q->handled == 1, "model:cxx:request-not-dispatched", "request #%d was not handed to the handler (process returned %d)", q->serial, ret);
			if (!q->zero && !q->deferred) {
				/* handler silent, or its replies rejected: the dispatcher's default reply is due */
				if (!q->accepted) {
					vf_count("monitor:default-reply-due", 1);
					int expect = (q->plan == PlanReply) ? 2 : (q->plan == PlanReplyTwice) ? 3 : 1;
					VF_CHECK(sends_in_op == expect, "model:reply:no-send", "request #%d unanswered after the handler: %d send(s) in process(), expected %d (default reply missing)", q->serial, sends_in_op, expect);
					if (q->rejected) vf_count("process:default-reply-rejected", 1);
				}
			}
			finish_op(q);
			if (q->zero || q->deferred) { if (armed == q) armed = 0; }
			target = 0;
			snprintf(one, sizeof(one), " req(%s,p%d)%s", q->zero ? "noid" : "id", q->plan, (!q->zero && !q->deferred && !q->accepted) ? "!" : "");
		} else if (!defs.empty()) {
			int k = defs[vf_below(r, (uint32_t) defs.size())];
			request *q = &reqs[(size_t) k];
			bool release = vf_chance(r, 1, 2);
			uint8_t b[3] = { 0xA0, (uint8_t) q->serial, 7 };
			mpt::message ans(b, sizeof(b));
			cur = release ? "deferred-release" : "deferred-reply";
			target = q; sends_in_op = 0;
			if (!release) { exp_body = b; exp_bodylen = sizeof(b); } else exp_default_null = true;
			vf_fp_u64(0x40 + (release ? 1 : 0)); vf_fp_u64((uint64_t) k);
			vf_at("reply_context_detached::reply");
			vf_count(release ? "reply_context_detached::reply(NULL)" : "reply_context_detached::reply", 1);
			int ret = q->deferred->reply(release ? 0 : &ans);
			exp_body = 0; exp_default_null = false;
			vf_log("%s for request #%d = %d", cur, q->serial, ret);
			VF_CHECK(sends_in_op == 1, release ? "model:release:no-default-reply" : "model:reply:no-send", "%s of request #%d: send was not called", cur, q->serial);
			if (release || ret >= 0) q->deferred = 0;
			if (!release && !q->accepted) VF_CHECK(ret < 0, "model:reply:rejected-reported-success", "deferred reply rejected by the transport returned %d", ret);
			target = 0;
			snprintf(one, sizeof(one), " %s", cur);
		}
		if (desc.size() + strlen(one) < 900) desc += one;
	}
	/* release: deferred handles and the stream in PRNG order */
	bool stream_alive = true;
	for (;;) {
		std::vector<int> defs;
		for (size_t k = 0; k < reqs.size(); k++) if (reqs[k].deferred) defs.push_back((int) k);
		if (!stream_alive && defs.empty()) break;
		uint32_t pick = vf_below(r, (uint32_t) defs.size() + (stream_alive ? 1 : 0));
		if (stream_alive && pick == defs.size()) {
			request *q = armed;
			cur = "release";
			target = q; sends_in_op = 0; exp_default_null = true;
			if (q && q->rejected) { rejected_default_then_release = 1; vf_count("release:after-rejected-reply", 1); }
			vf_at("io::stream::~stream");
			vf_count("io::stream::~stream", 1);
			delete s;
			exp_default_null = false;
			vf_log("stream released with %s", q ? "a pending request" : "nothing pending");
			if (q) {
				vf_count("monitor:release-default-reply", 1);
				VF_CHECK(sends_in_op == 1, "model:release:no-default-reply",
				         "stream released with request #%d unanswered (%d rejected sends before) and the transport attached: no default reply was sent", q->serial, q->rejected);
			}
			attached = false; stream_alive = false; armed = 0; target = 0;
			desc += " release";
		} else {
			request *q = &reqs[(size_t) defs[pick]];
			cur = "deferred-release";
			target = attached ? q : 0; sends_in_op = 0; exp_default_null = true;
			vf_count("reply_context_detached::reply(NULL)", 1);
			q->deferred->reply(0);
			exp_default_null = false;
			if (attached) VF_CHECK(sends_in_op == 1, "model:release:no-default-reply", "deferred handle of request #%d released with transport attached: send was not called", q->serial);
			else vf_count("monitor:detached-no-send", 1);
			q->deferred = 0; target = 0;
			desc += " deferred-release";
		}
	}
	for (auto &q : reqs) {
		vf_count("monitor:request-accounted", 1);
		VF_CHECK(q.accepted <= 1, "model:send:request-already-answered", "request #%d: %d accepted sends", q.serial, q.accepted);
	}
	if (rejected_default_then_release) vf_count("history:rejected-then-released", 1);
	if (n_reject) vf_count("history:with-rejected-send", 1);
	if (reqs.size() >= 2 && n_accept + n_reject >= 2) vf_nontrivial();
	vf_sample("%s  => %zu requests, %d accepted / %d rejected sends, %d default attempts", desc.c_str(), reqs.size(), n_accept, n_reject, n_default);
	reqs.clear();
}

uint64_t vf_cases(void) { return vf_thorough ? 400000 : 40000; }
