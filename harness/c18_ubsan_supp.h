# UBSan runtime suppressions for the C++ leg of C18 (read through
# __ubsan_default_options in c18_cxx.cpp; this is not a C header, the name
# only follows the file naming rule of the framework).
#
# The library implements C++ classes (mpt::buffer, ...) in C: objects are
# allocated by C code that stores a hand-built vtable without RTTI.  UBSan's
# "vptr" check (is the dynamic type what the static type says) cannot succeed
# on such objects; this has no observable effect and no property is about it
# (same category as the checks compiled out in DESIGN 2.3).
vptr:*
