/*
 * C03: decoders are safe and honest on arbitrary bytes (decoder functions).
 *
 * Case classes
 *   [0, E)      every string of length 0..L over the boundary alphabet
 *               {00,01,02,1F,20,DE,DF,E0,E1,FE,FF}; each string goes through
 *               all five decoders x { one call with everything, byte-wise
 *               delivery, one PRNG schedule (slack, segment sizes, iovec
 *               fragments incl. empty ones, MissingBuffer answer size, peek
 *               calls, repeated calls on unchanged input) }
 *   [E, E+M)    streams of 1..3 valid frames (reference encoder, sometimes
 *               encoded for another framing than the decoder's) with 0..3
 *               mutations: set byte to a boundary value / insert / delete /
 *               truncate / duplicate delimiter / insert zero
 *
 * All monitors live in c03_driver.h.
 */
#include <stdlib.h>
#include <sys/uio.h>

#include "convert.h"

#include "vf.h"
#include "c01_refcodec.h"
#include "c01_gen.h"
#include "c03_driver.h"

const char *vf_name = "c03_decode";

static char hx1[600];

static unsigned ex_len(void) { return vf_thorough ? 6 : 5; }
static uint64_t n_ex(void)
{
	uint64_t n = 0, p = 1;
	for (unsigned l = 0; l <= ex_len(); l++) { n += p; p *= 11; }
	return n;
}
static uint64_t n_mut(void) { return vf_thorough ? 2000000 : 250000; }

uint64_t vf_cases(void) { return n_ex() + n_mut(); }

static void sched_prng(dd_sched *sc, int fmt, vf_rng *r)
{
	static const int slacks[] = { 0, 0, 1, 2, 2, 3, 8, 15, 16, 17 };
	static const int mbks[] = { 1, 1, 2, 3, 8, 64 };
	memset(sc, 0, sizeof(*sc));
	sc->fmt = fmt;
	sc->slack = slacks[vf_below(r, 10)];
	sc->mbk = mbks[vf_below(r, 6)];
	sc->deliver = (int) vf_below(r, 3);
	sc->frag = vf_chance(r, 2, 3);
	sc->peeks = vf_chance(r, 1, 2);
	sc->again = vf_chance(r, 1, 2);
}
static void tally(const dd_result *res)
{
	if (res->messages) vf_count("runs:delivered-message", 1);
	if (res->errors) vf_count("runs:reported-error", 1);
	if (res->missing_buffer) vf_count("runs:with-missing-buffer", 1);
	if (res->peeks) vf_count("runs:with-peek", 1);
	vf_count("runs:total", 1);
}

static void case_string(uint64_t idx, vf_rng *r)
{
	uint8_t s[8];
	unsigned l = 0;
	uint64_t p = 1, k = idx;
	dd_sched sc;
	dd_result res;
	int complete;

	while (k >= p) { k -= p; p *= 11; l++; }
	for (unsigned i = 0; i < l; i++) { s[l - 1 - i] = gen_alpha[k % 11]; k /= 11; }
	vf_fp_u64(0xC03000 + l);
	vf_fp(s, l);
	complete = l && memchr(s, 0, l) != 0;
	if (complete) vf_nontrivial();
	if (vf_logging) vf_log("string %s", vf_hex(hx1, sizeof(hx1), s, l));
	for (int fmt = 0; fmt < RC_NFMT; fmt++) {
		memset(&sc, 0, sizeof(sc));
		sc.fmt = fmt; sc.slack = (fmt == RC_CMD) ? 2 : 0; sc.mbk = 8; sc.deliver = DD_ONESHOT;
		dd_run(&sc, s, l, r, 1, &res); tally(&res);
		sc.deliver = DD_BYTEWISE; sc.mbk = 1;
		dd_run(&sc, s, l, r, 1, &res); tally(&res);
		sched_prng(&sc, fmt, r);
		dd_run(&sc, s, l, r, 1, &res); tally(&res);
	}
	vf_count("cases:exhaustive-string", 1);
	vf_sample("string %s over the boundary alphabet: 5 decoders x {one call, byte-wise, PRNG schedule}", vf_hex(hx1, sizeof(hx1), s, l));
}

#define MAXSTREAM 2400
static void case_mutant(vf_rng *r)
{
	static uint8_t msg[1100], st[MAXSTREAM + 16];
	size_t n = 0;
	int fmt = (int) vf_below(r, RC_NFMT);
	int nfr = 1 + (int) vf_below(r, 3), nmut;
	char desc[300];
	size_t dl = 0;
	dd_sched sc;
	dd_result res;

	dl += snprintf(desc + dl, sizeof(desc) - dl, "decoder %s:", rc_name[fmt]);
	for (int i = 0; i < nfr; i++) {
		int efmt = vf_chance(r, 1, 6) ? (int) vf_below(r, RC_NFMT) : fmt;
		size_t ml = gen_message(r, efmt, msg, nfr > 1 ? 300 : 700), fl;
		if (n + rc_frame_bound(ml) > MAXSTREAM) break;
		fl = rc_encode(efmt, msg, ml, st + n);
		n += fl;
		dl += snprintf(desc + dl, sizeof(desc) - dl, " frame(%s,%zu bytes)", rc_name[efmt], ml);
	}
	nmut = vf_chance(r, 1, 5) ? 0 : 1 + (int) vf_below(r, 3);
	for (int i = 0; i < nmut && n; i++) {
		size_t at = vf_below(r, (uint32_t) n);
		int kind = (int) vf_below(r, 7);
		if (vf_chance(r, 1, 3)) {
			/* aim at a code byte neighbourhood: start of stream or just behind a delimiter */
			const uint8_t *z = memchr(st + at, 0, n - at);
			at = z ? (size_t) (z - st) + vf_below(r, 3) : vf_below(r, 3);
			if (at >= n) at = n - 1;
		}
		switch (kind) {
		case 0: st[at] = gen_alpha[vf_below(r, 11)]; break;
		case 1: st[at] = (uint8_t) vf_below(r, 256); break;
		case 2: if (n < MAXSTREAM) { memmove(st + at + 1, st + at, n - at); st[at] = gen_alpha[vf_below(r, 11)]; n++; } break;
		case 3: memmove(st + at, st + at + 1, n - at - 1); n--; break;
		case 4: n = at; break;
		case 5: { const uint8_t *z = memchr(st + at, 0, n - at);
			if (z && n < MAXSTREAM) { at = z - st; memmove(st + at + 1, st + at, n - at); n++; } break; }
		default: if (n < MAXSTREAM) { memmove(st + at + 1, st + at, n - at); st[at] = 0; n++; }
		}
		dl += snprintf(desc + dl, sizeof(desc) - dl, " mut%d@%zu", kind, at);
	}
	vf_fp_u64(0xC03111 + fmt);
	vf_fp(st, n);
	if (nmut || nfr > 1) vf_nontrivial();
	if (vf_logging) vf_log("%s -> stream %s", desc, vf_hex(hx1, sizeof(hx1), st, n));

	memset(&sc, 0, sizeof(sc));
	sc.fmt = fmt; sc.slack = (fmt == RC_CMD) ? 2 : 0; sc.mbk = 8; sc.deliver = DD_ONESHOT;
	dd_run(&sc, st, n, r, 1, &res); tally(&res);
	sched_prng(&sc, fmt, r);
	if (n > 500 && sc.deliver == DD_BYTEWISE && !vf_thorough) sc.deliver = DD_CUTS;
	dd_run(&sc, st, n, r, 1, &res); tally(&res);
	vf_count("cases:mutated-frames", 1);
	vf_count(nmut ? "mutants:mutated" : "mutants:valid-stream", 1);
	vf_sample("%s; %zu stream bytes %s", desc, n, vf_hex(hx1, 120, st, n));
}

void vf_case(uint64_t idx, vf_rng *r)
{
	if (idx < n_ex()) case_string(idx, r);
	else case_mutant(r);
}
