/*
 * C08: case generator (see c08_gen.h).
 */
#include <stdlib.h>
#include <ctype.h>

#include "config.h"
#include "parse.h"

#include "c08_gen.h"

/* ------------------------------------------------------------------ bytes */
typedef struct { uint8_t *d; size_t n, cap; } bytes;
static void b_need(bytes *b, size_t add)
{
	if (b->n + add <= b->cap) return;
	size_t c = b->cap ? b->cap * 2 : 256;
	while (c < b->n + add) c *= 2;
	b->d = realloc(b->d, c);
	if (!b->d) vf_inconclusive("out of memory");
	b->cap = c;
}
static void b_put(bytes *b, int c) { b_need(b, 1); b->d[b->n++] = (uint8_t) c; }
static void b_add(bytes *b, const void *p, size_t n) { if (!n) return; b_need(b, n); memcpy(b->d + b->n, p, n); b->n += n; }
static void b_free(bytes *b) { free(b->d); b->d = 0; b->n = b->cap = 0; }

/* ----------------------------------------------------------------- format */
typedef struct {
	char str[32];
	int  null;                      /* pass NULL (library default) */
	int  type;                      /* result of mpt_parse_format */
	MPT_STRUCT(parser_format) pf;
	MPT_TYPE(input_parser) next;
} format;

static const char *const fixed_formats[] = {
	/* the five ctest invocations and layout::file_format() */
	"{*} =;!# `", "[*] = ", "[*] = !", "{*} =;!#", "[ ] = #", "{*} =;#! '\"",
	/* other families / delimiter sets */
	"{x} =;#", "{x} = #", "|x| = #", "|x| =;#", "(x) :,!", "[ ] =;#", "[ [ = #",
	"<_> = #", "<_> =;#", "<_>  ;#", "{*}>=;#", "{x}>=;#", "[ ]>= #", "{*}  ;#", "{*}   #", "{*} = ", "{", "{x", "{ "
};
#define NFIXED (sizeof(fixed_formats) / sizeof(*fixed_formats))

/*
 * What a description means (layout of mpt_parse_format(), defaults of
 * MPT_PARSER_FORMAT_INIT): [0] section start, [1] family, [2] section end,
 * [3] option start, [4] assign, [5] option end - a blank there means "none" -
 * [6..] up to four comment characters, blanks, up to three escape characters;
 * whatever the description is too short for keeps its default.
 * Returns 0 when the lists are longer than their fields (meaning not stated).
 */
static int blank_none(char c) { return isspace((unsigned char) c) ? 0 : (unsigned char) c; }
static int expect_format(const char *s, MPT_STRUCT(parser_format) *e, int *family)
{
	static const MPT_STRUCT(parser_format) def = MPT_PARSER_FORMAT_INIT;
	size_t n = strlen(s), i, k;
	*e = def;
	*family = '*';
	if (n < 1) return 1;
	e->sstart = (uint8_t) blank_none(s[0]);
	if (n < 2) return 1;
	*family = (unsigned char) s[1];
	if (n < 3) return 1;
	e->send = (uint8_t) blank_none(s[2]);
	if (n < 4) return 1;
	e->ostart = (uint8_t) blank_none(s[3]);
	if (n < 5) return 1;
	e->assign = (uint8_t) blank_none(s[4]);
	if (n < 6) return 1;
	e->oend = (uint8_t) blank_none(s[5]);
	if (n < 7) return 1;
	memset(e->com, 0, sizeof(e->com));
	for (i = 6, k = 0; s[i] && !isspace((unsigned char) s[i]); i++) {
		if (k == sizeof(e->com)) return 0;
		e->com[k++] = (uint8_t) s[i];
	}
	while (s[i] && isspace((unsigned char) s[i])) i++;
	if (!s[i]) return 1;
	memset(e->esc, 0, sizeof(e->esc));
	for (k = 0; s[i] && !isspace((unsigned char) s[i]); i++) {
		if (k == sizeof(e->esc)) return 0;
		e->esc[k++] = (uint8_t) s[i];
	}
	return 1;
}
static void build_format(char *str, vf_rng *r)
{
	static const char delim[] = "{}[]()<>|=:;,!#%\"'`\\/@a1 ";
	static const char types[] = "*x _";
	size_t n = 0;
	str[n++] = delim[vf_below(r, sizeof(delim) - 1)];
	str[n++] = vf_chance(r, 1, 25) ? "q-X0"[vf_below(r, 4)] : types[vf_below(r, 4)];
	str[n++] = vf_chance(r, 1, 4) ? str[0] : delim[vf_below(r, sizeof(delim) - 1)];
	str[n++] = vf_chance(r, 3, 4) ? ' ' : delim[vf_below(r, sizeof(delim) - 1)];
	str[n++] = vf_chance(r, 2, 3) ? "=:"[vf_below(r, 2)] : delim[vf_below(r, sizeof(delim) - 1)];
	str[n++] = vf_chance(r, 1, 2) ? "; "[vf_below(r, 2)] : delim[vf_below(r, sizeof(delim) - 1)];
	/* comment list (0..5 characters: one more than there are fields), sometimes the escape or a delimiter character */
	for (uint32_t k = vf_chance(r, 1, 12) ? 5 : vf_below(r, 5); k; k--) {
		char c = delim[vf_below(r, sizeof(delim) - 2)];
		str[n++] = vf_chance(r, 1, 6) ? str[vf_below(r, 6)] : c;
		if (str[n - 1] == ' ') str[n - 1] = '#';
	}
	if (vf_chance(r, 1, 2)) {
		str[n++] = vf_chance(r, 1, 8) ? '\t' : ' ';
		if (vf_chance(r, 1, 8)) str[n++] = ' ';
		for (uint32_t k = vf_chance(r, 1, 12) ? 4 : vf_below(r, 4); k; k--) {
			char c = delim[vf_below(r, sizeof(delim) - 2)];
			str[n++] = vf_chance(r, 1, 6) ? str[vf_below(r, 6)] : c;
			if (str[n - 1] == ' ') str[n - 1] = '"';
		}
		if (vf_chance(r, 1, 10)) { str[n++] = ' '; str[n++] = 'z'; }
	}
	if (vf_chance(r, 1, 10)) n = vf_below(r, (uint32_t) n + 1);
	str[n] = 0;
}
static char *format_make(format *f, vf_rng *r)
{
	static const char *const lencount[] = {
		"format:length-0", "format:length-1", "format:length-2", "format:length-3", "format:length-4",
		"format:length-5", "format:length-6", "format:length-7", "format:length-8", "format:length>8"
	};
	MPT_STRUCT(parser_format) want;
	uint32_t sel = vf_below(r, 100);
	char *desc = 0;
	size_t len;
	int family, stated;

	memset(f, 0, sizeof(*f));
	if (sel < 4) {
		f->null = 1;
	} else if (sel < 50) {
		strcpy(f->str, fixed_formats[vf_below(r, NFIXED)]);
	} else if (sel < 68) {
		/* every length 0..8: a fixed or built description cut there */
		if (vf_chance(r, 1, 2)) strcpy(f->str, fixed_formats[vf_below(r, NFIXED)]);
		else build_format(f->str, r);
		len = vf_below(r, 9);
		if (len < strlen(f->str)) f->str[len] = 0;
	} else {
		build_format(f->str, r);
	}
	if (!f->null) {
		/* exact-size block: reading behind the terminator is an ASan report */
		len = strlen(f->str);
		desc = vf_xalloc(len + 1);
		memcpy(desc, f->str, len + 1);
		vf_count(lencount[len > 8 ? 9 : len], 1);
	}
	memset(&f->pf, 0xa5, sizeof(f->pf));
	vf_at("mpt_parse_format");
	vf_count("mpt_parse_format", 1);
	f->type = mpt_parse_format(&f->pf, desc);
	stated = expect_format(f->str, &want, &family);
	if (stated) {
		const uint8_t *g = (const uint8_t *) &f->pf, *w = (const uint8_t *) &want;
		VF_CHECK(f->type == family, "model:parse_format:family", "mpt_parse_format(%s%s%s) returned '%c' (%d), expected '%c'",
		         f->null ? "" : "\"", f->null ? "NULL" : f->str, f->null ? "" : "\"", f->type, f->type, family);
		VF_CHECK(!memcmp(&f->pf, &want, sizeof(want)), "model:parse_format:fields",
		         "mpt_parse_format(%s%s%s): start end ostart assign oend esc[3] com[4] = %02x %02x %02x %02x %02x  %02x %02x %02x  %02x %02x %02x %02x, "
		         "expected %02x %02x %02x %02x %02x  %02x %02x %02x  %02x %02x %02x %02x",
		         f->null ? "" : "\"", f->null ? "NULL" : f->str, f->null ? "" : "\"",
		         g[0], g[1], g[2], g[3], g[4], g[5], g[6], g[7], g[8], g[9], g[10], g[11],
		         w[0], w[1], w[2], w[3], w[4], w[5], w[6], w[7], w[8], w[9], w[10], w[11]);
		vf_count("monitor:format-fields-checked", 1);
		if (!f->null && strlen(f->str) > 6) vf_count("monitor:format-lists-checked", 1);
	}
	else vf_count("format:list-longer-than-field", 1);
	vf_at("mpt_parse_next_fcn");
	f->next = mpt_parse_next_fcn(f->type);
	return desc;
}
/* ------------------------------------------------------- document generator */
static const char *const vocab[] = { "a", "b", "c", "ab", "x", "y", "name", "n1", "sect", "opt", "k", "zz" };
#define NVOCAB (sizeof(vocab) / sizeof(*vocab))

static size_t long_len(vf_rng *r)
{
	static const size_t big[] = { 254, 255, 256, 257, 258, 300, 511, 512, 513, 1024, 4095, 4096, 4097 };
	static const size_t huge[] = { 65533, 65534, 65535, 65536, 65537, 65538, 70000 };
	if (vf_chance(r, 1, 8)) return huge[vf_below(r, sizeof(huge) / sizeof(*huge))];
	return big[vf_below(r, sizeof(big) / sizeof(*big))];
}
static int plain_char(vf_rng *r)
{
	static const char set[] = "abcdefghijklmnopqrstuvwxyzABCXYZ0123456789_-+";
	return set[vf_below(r, sizeof(set) - 1)];
}
static int odd_char(vf_rng *r, const format *f)
{
	switch (vf_below(r, 12)) {
	case 0: return 0;
	case 1: return 0x80 + (int) vf_below(r, 128);
	case 2: return 1 + (int) vf_below(r, 31);
	case 3: return '\r';
	case 4: return '\n';
	case 5: return '\\';
	case 6: return "\"'`"[vf_below(r, 3)];
	case 7: return '.';
	case 8: return ' ';
	default: {
		const uint8_t *p = (const uint8_t *) &f->pf;
		return p[vf_below(r, sizeof(f->pf))];
	}
	}
}
static void gen_ws(vf_rng *r, bytes *b)
{
	/* between elements */
	static const char *const ws[] = { "", " ", " ", "\n", "\n", "\n ", "\t", "\r\n", " \n ", "\n\n", "  " };
	const char *s = ws[vf_below(r, sizeof(ws) / sizeof(*ws))];
	if (vf_chance(r, 1, 40)) s = vf_chance(r, 1, 2) ? "\v" : "\f";
	b_add(b, s, strlen(s));
}
static void gen_iws(vf_rng *r, bytes *b)
{
	/* inside an element */
	static const char *const ws[] = { "", "", " ", " ", "  ", "\t" };
	const char *s = ws[vf_below(r, sizeof(ws) / sizeof(*ws))];
	if (vf_chance(r, 1, 40)) s = "\n";
	b_add(b, s, strlen(s));
}
static int is_delim(const format *f, int c)
{
	const uint8_t *p = (const uint8_t *) &f->pf;
	for (size_t i = 0; i < sizeof(f->pf); i++) if (p[i] == c) return 1;
	return c == '.';
}
/* name the flag set admits (mostly) */
static void gen_name(vf_rng *r, bytes *b, const format *f, unsigned flags, int *longs)
{
	static const char special[] = "_-+/:,@%&*~^";
	uint32_t sel = vf_below(r, 100);
	size_t n, i;
	if (sel < 45) {
		const char *s = vocab[vf_below(r, NVOCAB)];
		if (!(flags & 0x2) && isdigit((uint8_t) s[1])) s = "nn";
		b_add(b, s, strlen(s));
		return;
	}
	if (sel < 50) {
		/* empty name */
		if ((flags & 0x10) || vf_chance(r, 1, 6)) return;
		b_put(b, 'e');
		return;
	}
	if (sel < 52 && *longs < 2) {
		n = long_len(r);
		++*longs;
	}
	else if (sel < 62) {
		/* anything */
		n = (size_t) vf_range(r, 1, 12);
		for (i = 0; i < n; i++) b_put(b, vf_chance(r, 1, 4) ? odd_char(r, f) : plain_char(r));
		return;
	}
	else n = (size_t) vf_range(r, 1, 10);
	for (i = 0; i < n; i++) {
		int c;
		switch (vf_below(r, 10)) {
		case 0: c = (flags & (i ? 0x2 : 0x1)) ? '0' + (int) vf_below(r, 10) : 'd'; break;
		case 1: c = (flags & 0x4) ? special[vf_below(r, sizeof(special) - 1)] : 's'; break;
		case 2: c = ((flags & 0x8) && i && i + 1 < n && n < 200) ? ' ' : 'w'; break;
		case 3: c = ((flags & 0x20) && vf_chance(r, 1, 3)) ? 0x80 + (int) vf_below(r, 128) : 'b'; break;
		default: c = 'a' + (int) vf_below(r, 26);
		}
		if (is_delim(f, c)) c = 'x';
		b_put(b, c);
	}
}
static void gen_value(vf_rng *r, bytes *b, const format *f, int *longs)
{
	uint32_t sel = vf_below(r, 100);
	int q = 0, odd = vf_chance(r, 1, 8);
	size_t n, i;
	if (vf_chance(r, 1, 4)) {
		q = f->pf.esc[vf_below(r, 3)];
		if (!q && vf_chance(r, 1, 8)) q = '"';
	}
	if (q) b_put(b, q);
	if (sel < 8) n = 0;
	else if (sel < 10 && *longs < 2) { n = long_len(r); ++*longs; }
	else n = (size_t) vf_range(r, 1, 24);
	for (i = 0; i < n; i++) {
		int c;
		if (q && vf_chance(r, 1, 12)) { b_put(b, '\\'); b_put(b, q); continue; }
		if (i && i + 1 < n && vf_chance(r, 1, 8)) c = ' ';
		else if (odd && vf_chance(r, 1, 6)) c = odd_char(r, f);
		else if (q && vf_chance(r, 1, 6)) { const uint8_t *p = (const uint8_t *) &f->pf; c = p[vf_below(r, sizeof(f->pf))]; if (!c || c == q) c = ' '; }
		else c = plain_char(r);
		if (!q && !odd && is_delim(f, c)) c = 'v';
		b_put(b, c);
	}
	/* closing quote, sometimes missing */
	if (q && !vf_chance(r, 1, 25)) b_put(b, q);
}
static void gen_comment(vf_rng *r, bytes *b, const format *f)
{
	int c = f->pf.com[vf_below(r, 4)];
	if (!c) c = f->pf.com[0];
	if (!c) return;
	b_put(b, c);
	for (int n = vf_range(r, 0, 12); n; n--) b_put(b, vf_chance(r, 1, 6) ? odd_char(r, f) : plain_char(r));
	if (!vf_chance(r, 1, 30)) b_put(b, '\n');
}
typedef struct { unsigned sect, opt; int budget, longs, maxdepth; } genctx;

static void gen_items(vf_rng *r, bytes *b, const format *f, genctx *g, int depth)
{
	int n = vf_range(r, 0, depth ? 4 : 7);
	const MPT_STRUCT(parser_format) *pf = &f->pf;
	while (n-- > 0 && g->budget > 0) {
		uint32_t sel = vf_below(r, 100);
		--g->budget;
		gen_ws(r, b);
		if (sel < 55 || (sel < 85 && (depth >= g->maxdepth || f->type == '_'))) {
			/* option */
			if (pf->ostart) b_put(b, pf->ostart);
			gen_name(r, b, f, g->opt, &g->longs);
			gen_iws(r, b);
			if (pf->assign) { if (!vf_chance(r, 1, 40)) b_put(b, pf->assign); }
			else b_put(b, ' ');
			gen_iws(r, b);
			gen_value(r, b, f, &g->longs);
			gen_iws(r, b);
			if (!pf->oend && vf_chance(r, 1, 10)) { b_put(b, ' '); gen_comment(r, b, f); }
			if (pf->oend) { if (!vf_chance(r, 1, 40)) b_put(b, pf->oend); }
			else b_put(b, '\n');
		} else if (sel < 85) {
			/* section in the spelling of the family */
			switch (f->type) {
			case 'x':
				b_put(b, pf->sstart);
				gen_iws(r, b);
				gen_name(r, b, f, g->sect & ~0x8u, &g->longs);
				b_put(b, vf_chance(r, 1, 2) ? ' ' : '\n');
				gen_items(r, b, f, g, depth + 1);
				gen_ws(r, b);
				if (pf->send != pf->sstart ? !vf_chance(r, 1, 30) : vf_chance(r, 1, 10)) b_put(b, pf->send);
				break;
			case ' ':
				b_put(b, pf->sstart);
				gen_iws(r, b);
				gen_name(r, b, f, g->sect, &g->longs);
				gen_iws(r, b);
				if (!vf_chance(r, 1, 30)) b_put(b, pf->send);
				gen_ws(r, b);
				gen_items(r, b, f, g, g->maxdepth);
				break;
			default:
				gen_name(r, b, f, g->sect, &g->longs);
				gen_ws(r, b);
				b_put(b, pf->sstart);
				gen_items(r, b, f, g, depth + 1);
				gen_ws(r, b);
				if (!vf_chance(r, 1, 30)) b_put(b, pf->send);
			}
		} else if (sel < 93) {
			gen_comment(r, b, f);
		} else if (sel < 96) {
			/* data without name */
			if (!(g->opt & 0x10) && !vf_chance(r, 1, 8)) continue;
			gen_value(r, b, f, &g->longs);
			if (pf->oend) b_put(b, pf->oend); else b_put(b, '\n');
		} else if (sel < 97) {
			b_put(b, pf->send);
		} else {
			b_put(b, '\n');
		}
	}
}
static void gen_deep(vf_rng *r, bytes *b, const format *f, genctx *g, int depth)
{
	const MPT_STRUCT(parser_format) *pf = &f->pf;
	g->maxdepth = depth + 1;
	for (int d = 0; d < depth; d++) {
		switch (f->type) {
		case 'x': b_put(b, pf->sstart); gen_name(r, b, f, g->sect & ~0x8u, &g->longs); b_put(b, ' '); break;
		case ' ': b_put(b, pf->sstart); gen_name(r, b, f, g->sect, &g->longs); b_put(b, pf->send); break;
		default:  gen_name(r, b, f, g->sect, &g->longs); b_put(b, pf->sstart);
		}
		if (vf_chance(r, 1, 8)) { g->budget = 3; gen_items(r, b, f, g, depth); }
	}
	g->budget = 4;
	gen_items(r, b, f, g, depth);
	for (int d = vf_chance(r, 1, 6) ? vf_range(r, 0, depth + 2) : depth; d > 0; d--) {
		gen_ws(r, b);
		b_put(b, pf->send);
	}
}
static void gen_soup(vf_rng *r, bytes *b, const format *f)
{
	int n = vf_range(r, 0, 200);
	while (n-- > 0) {
		if (vf_chance(r, 1, 3)) b_put(b, odd_char(r, f));
		else if (vf_chance(r, 1, 6)) b_put(b, (int) vf_below(r, 256));
		else b_put(b, plain_char(r));
	}
}
static void mutate(vf_rng *r, bytes *b, const format *f)
{
	int k = vf_range(r, 1, 6);
	while (k-- > 0) {
		size_t pos = b->n ? vf_below(r, (uint32_t) b->n) : 0;
		switch (vf_below(r, 6)) {
		case 0: /* delete a range */
			if (b->n) {
				size_t len = 1 + vf_below(r, 4);
				if (len > b->n - pos) len = b->n - pos;
				memmove(b->d + pos, b->d + pos + len, b->n - pos - len);
				b->n -= len;
			}
			break;
		case 1: /* duplicate a range */
			if (b->n) {
				size_t len = 1 + vf_below(r, 12);
				if (len > b->n - pos) len = b->n - pos;
				b_need(b, len);
				memmove(b->d + pos + len, b->d + pos, b->n - pos);
				b->n += len;
			}
			break;
		case 2: /* insert */
			b_need(b, 1);
			memmove(b->d + pos + 1, b->d + pos, b->n - pos);
			b->d[pos] = (uint8_t) odd_char(r, f);
			b->n++;
			break;
		case 3: /* overwrite */
			if (b->n) b->d[pos] = (uint8_t) (vf_chance(r, 1, 2) ? odd_char(r, f) : (int) vf_below(r, 256));
			break;
		case 4: /* truncate */
			if (vf_chance(r, 1, 3)) b->n = pos;
			break;
		default: /* LF -> CR LF */
			if (b->n && b->d[pos] == '\n') {
				b_need(b, 1);
				memmove(b->d + pos + 1, b->d + pos, b->n - pos);
				b->d[pos] = '\r';
				b->n++;
			}
		}
	}
}

/* ------------------------------------------------------------------ cases */
static void flags_string(char *dst, unsigned sect, unsigned opt)
{
	static const struct { char c; unsigned f; } map[] = {
		{ 'f', 0x1 }, { 'c', 0x2 }, { 's', 0x4 }, { 'w', 0x8 }, { 'e', 0x10 }, { 'b', 0x20 }
	};
	size_t n = 0;
	for (int i = 0; i < 6; i++) {
		if (sect & map[i].f) dst[n++] = (char) toupper(map[i].c);
		if (opt & map[i].f) dst[n++] = map[i].c;
	}
	dst[n] = 0;
}
void c08_case_make(c08_case *c, vf_rng *r)
{
	format f;
	bytes doc = { 0, 0, 0 };
	genctx g;
	uint32_t kind;

	memset(c, 0, sizeof(*c));
	c->desc = format_make(&f, r);
	memcpy(c->fmt, f.str, sizeof(c->fmt));
	c->fmt_null = f.null;
	c->type = f.type;
	c->known = f.next != 0;
	memcpy(c->pf, &f.pf, sizeof(f.pf));

	/* name flags: every one of the 64 x 64 sets can occur; through mpt_parse_accept */
	switch (vf_below(r, 4)) {
	case 0: c->sect = c->opt = 0xff; break;
	case 1: c->sect = 0x3f & (uint16_t) vf_u64(r); c->opt = 0x3f & (uint16_t) vf_u64(r); break;
	case 2: c->sect = 0x10 | (0x3f & (uint16_t) vf_u64(r)); c->opt = 0x10 | (0x3f & (uint16_t) vf_u64(r)); break;
	default: c->sect = 0x3f; c->opt = 0x3f;
	}
	if (c->sect != 0xff) {
		MPT_STRUCT(parser_allow) al = { 0, 0 };
		int rr;
		flags_string(c->flags, c->sect, c->opt);
		vf_at("mpt_parse_accept");
		vf_count("mpt_parse_accept", 1);
		rr = mpt_parse_accept(&al, c->flags);
		if (c->flags[0]) {
			VF_CHECK(rr == (int) strlen(c->flags) && al.sect == c->sect && al.opt == c->opt, "model:parse_accept:flags",
			         "mpt_parse_accept(\"%s\") = %d sets sect=%x opt=%x, expected %x / %x", c->flags, rr, al.sect, al.opt, c->sect, c->opt);
		}
	} else {
		strcpy(c->flags, "(all)");
	}

	/* document */
	kind = vf_below(r, 100);
	g.sect = c->sect; g.opt = c->opt;
	g.budget = vf_chance(r, 1, 20) ? 200 : 40;
	g.longs = 0;
	if (kind < 85) {
		g.maxdepth = vf_range(r, 0, 5);
		if (vf_chance(r, 1, 30)) gen_deep(r, &doc, &f, &g, vf_range(r, 6, 60));
		else gen_items(r, &doc, &f, &g, 0);
		if (kind >= 45) mutate(r, &doc, &f);
	} else {
		gen_soup(r, &doc, &f);
	}
	c->longs = g.longs;
	c->kind = kind < 45 ? 0 : kind < 85 ? 1 : 2;
	c->doc = doc.d;
	c->len = doc.n;
}
void c08_case_free(c08_case *c)
{
	free(c->doc);
	c->doc = 0;
	c->len = 0;
	if (c->desc) vf_xfree(c->desc, strlen(c->desc) + 1);
	c->desc = 0;
}
