/*
 * C10 (path leg): splitting a path string into elements and walking or
 * rebuilding it element by element visits exactly the separator-delimited
 * components.
 *
 * Case kinds
 *   A  mpt_path_set on a generated string, walk with mpt_path_next, reduce to
 *      the last element with mpt_path_last (from the start and after k steps);
 *      oracle: split(sep) of the string up to the end delimiter.
 *   B  rebuild: characters are appended with mpt_path_addchar/mpt_path_valid
 *      (the parser's protocol), declared an element with mpt_path_add, removed
 *      again with mpt_path_del; text and binary (length-linked) mode; after
 *      every step a copy of the path is walked with mpt_path_next /
 *      mpt_path_last; oracle: vector of byte strings.
 */
#include <stdlib.h>
#include <errno.h>

#include "array.h"
#include "config.h"
#include "vf.h"

const char *vf_name = "c10_path";

#define MAXE 8
#define MAXL 340

static const size_t lens[] = { 0, 1, 1, 2, 2, 3, 3, 1, 2, 254, 255, 256, 257 };
static const char seps[] = { '.', '/', ':' };

static void count_len(size_t l)
{
	if (!l) vf_count("elements:empty", 1);
	else if (l <= 3) vf_count("elements:short", 1);
	else if (l == 254) vf_count("elements:len254", 1);
	else if (l == 255) vf_count("elements:len255", 1);
	else if (l == 256) vf_count("elements:len256", 1);
	else if (l >= 257) vf_count("elements:len257", 1);
}
static size_t pick_elem(vf_rng *r, uint8_t *dst, int sep, int assign, int binary, int allow_long)
{
	size_t l = lens[vf_below(r, allow_long && vf_chance(r, 1, 3) ? 13 : 9)];
	for (size_t i = 0; i < l; i++) {
		uint8_t c;
		do {
			c = binary ? (uint8_t) vf_below(r, 256) : (uint8_t) (0x21 + vf_below(r, 0x5e));
			/* the other separators are ordinary characters */
			if (!binary && vf_chance(r, 1, 6)) c = (uint8_t) seps[vf_below(r, 3)];
		} while (!binary && (c == sep || c == assign || !c));
		dst[i] = c;
	}
	return l;
}

/* walk a copy of the path: must yield exactly elements e[0..n) */
static void walk(const char *what, const MPT_STRUCT(path) *p, int n, uint8_t e[][MAXL], const size_t *el, int binary)
{
	MPT_STRUCT(path) w = *p;
	size_t off = p->off;
	for (int k = 0; k < n; k++) {
		size_t start = w.off;
		vf_at("mpt_path_next");
		int r = mpt_path_next(&w);
		vf_count("mpt_path_next", 1);
		VF_CHECK(r >= 0, "model:path_next:refused", "%s: element %d of %d: returned %d", what, k, n, r);
		VF_CHECK((size_t) r == el[k], "model:path_next:length", "%s: element %d of %d has length %d, expected %zu", what, k, n, r, el[k]);
		VF_CHECK(start == off, "model:path_next:offset", "%s: element %d of %d starts at %zu, expected %zu", what, k, n, start, off);
		VF_CHECK(!memcmp(p->base + start, e[k], el[k]), "model:path_next:content", "%s: element %d of %d has other bytes", what, k, n);
		off += el[k] + (binary ? 2 : 1);
		VF_CHECK(w.off == off, "model:path_next:advance", "%s: after element %d the path starts at %zu, expected %zu", what, k, w.off, off);
		vf_count("monitor:element-compares", 1);
	}
	VF_CHECK(w.len == 0, "model:path_next:remaining", "%s: %zu bytes left after %d elements", what, w.len, n);
	vf_at("mpt_path_next");
	int r = mpt_path_next(&w);
	VF_CHECK(r < 0, "model:path_next:past-end", "%s: returned %d on consumed path", what, r);
}
/* reduce a copy (after `skip` steps) to the last element */
static void last(const char *what, const MPT_STRUCT(path) *p, int skip, int n, uint8_t e[][MAXL], const size_t *el, int binary)
{
	MPT_STRUCT(path) w = *p;
	size_t off = p->off;
	int k;
	for (k = 0; k < skip; k++) { mpt_path_next(&w); }
	for (k = 0; k < n - 1; k++) off += el[k] + (binary ? 2 : 1);
	vf_at("mpt_path_last");
	vf_count("mpt_path_last", 1);
	if (skip) vf_count("state:last-after-next", 1);
	int r = mpt_path_last(&w);
	if (!n) {
		VF_CHECK(r < 0, "model:path_last:empty", "%s: returned %d for empty path", what, r);
		return;
	}
	VF_CHECK(r >= 0, "model:path_last:refused", "%s: returned %d (%d elements, %d consumed)", what, r, n, skip);
	VF_CHECK((size_t) r == el[n - 1], "model:path_last:length", "%s: last of %d elements (%d consumed) has length %d, expected %zu", what, n, skip, r, el[n - 1]);
	VF_CHECK(w.off == off, "model:path_last:offset", "%s: last of %d elements (%d consumed) starts at %zu, expected %zu", what, n, skip, w.off, off);
	/* the reduced path is a path of one element */
	vf_at("mpt_path_next");
	r = mpt_path_next(&w);
	VF_CHECK(r >= 0 && (size_t) r == el[n - 1] && !w.len, "model:path_last:single",
	         "%s: walking the reduced path gives %d with %zu bytes left, expected %zu and 0", what, r, w.len, el[n - 1]);
	vf_count("monitor:last-compares", 1);
}

/* ------------------------------------------------------------------ kind A */
static void case_set(vf_rng *r)
{
	static uint8_t e[MAXE][MAXL];
	size_t el[MAXE], total = 0;
	int sep = seps[vf_below(r, 3)];
	int assign = vf_chance(r, 1, 4) ? '=' : 0;
	int explicit = !assign && vf_chance(r, 1, 3);
	int n = 1 + (int) vf_below(r, 6);
	int nlong = 0;
	for (int k = 0; k < n; k++) {
		el[k] = pick_elem(r, e[k], sep, assign ? assign : 0, 0, nlong < 2);
		if (el[k] > 3) nlong++;
		count_len(el[k]);
		total += el[k] + 1;
	}
	/* string: elements joined by sep, end delimiter, optional trailing data */
	size_t plen = total;               /* path length incl. end delimiter */
	size_t extra = assign ? vf_below(r, 6) : 0;
	size_t blen = plen + extra + (assign ? 1 : 0);
	char *s = vf_xalloc(blen), *snap = malloc(blen + 1);
	size_t o = 0;
	for (int k = 0; k < n; k++) {
		memcpy(s + o, e[k], el[k]); o += el[k];
		s[o++] = (char) (k + 1 < n ? sep : assign);
	}
	if (assign) {
		for (size_t i = 0; i < extra; i++) s[o++] = (char) ('a' + vf_below(r, 26));
		s[o++] = 0;
	}
	if (explicit) s[plen - 1] = (char) (vf_chance(r, 1, 2) ? sep : 'Z');  /* byte after the given length: not part of the path */
	memcpy(snap, s, blen);
	vf_fp(s, blen); vf_fp_u64((uint64_t) sep << 8 | (uint64_t) assign | (uint64_t) explicit << 16);

	MPT_STRUCT(path) p = MPT_PATH_INIT;
	p.sep = (char) sep;
	p.assign = (char) assign;
	vf_at("mpt_path_set");
	vf_count("mpt_path_set", 1);
	if (explicit) vf_count("state:set-explicit-length", 1);
	if (assign) vf_count("state:set-end-delimiter", 1);
	vf_log("path_set(%d elements, sep '%c', end %d, len %s) total %zu", n, sep, assign, explicit ? "explicit" : "-1", plen);
	(void) mpt_path_set(&p, s, explicit ? (int) (plen - 1) : -1);
	VF_CHECK(p.base == s && p.off == 0, "model:path_set:base", "path does not start at the given string (off %zu)", p.off);
	VF_CHECK(p.len == plen, "model:path_set:length", "path length %zu, expected %zu (%d elements, sep '%c', end %d, %s length)", p.len, plen, n, sep, assign,
	         explicit ? "explicit" : "implicit");
	VF_CHECK(p.sep == sep && p.assign == assign, "model:path_set:separators", "separator/end delimiter changed");
	walk("after path_set", &p, n, e, el, 0);
	last("after path_set", &p, 0, n, e, el, 0);
	if (n > 1) last("after path_set and path_next", &p, 1 + (int) vf_below(r, (uint32_t) n - 1), n, e, el, 0);
	VF_CHECK(!memcmp(s, snap, blen), "model:path_set:modified-string", "the caller's string was modified");
	if (n >= 3 || nlong) vf_nontrivial();
	vf_sample("set+walk: %d elements (lengths %zu,%zu,..), sep '%c', end delimiter %d, %s length", n, el[0], n > 1 ? el[1] : 0, sep, assign, explicit ? "explicit" : "implicit");
	vf_xfree(s, blen); free(snap);
}

/* ------------------------------------------------------------------ kind B */
static void case_build(vf_rng *r)
{
	static uint8_t e[MAXE][MAXL], cand[MAXL];
	size_t el[MAXE];
	int n = 0, binary = vf_chance(r, 1, 3), adds = 0, dels = 0, nlong = 0;
	int sep = seps[vf_below(r, 3)];
	int assign = vf_chance(r, 1, 4) ? '=' : 0;
	MPT_STRUCT(path) p = MPT_PATH_INIT;
	p.sep = (char) sep;
	p.assign = (char) assign;
	if (binary) p.flags = MPT_PATHFLAG(SepBinary);
	int nops = 4 + (int) vf_below(r, 14);
	vf_fp_u64(0xB0 | (uint64_t) binary << 8 | (uint64_t) sep << 16 | (uint64_t) assign << 24);
	if (binary) vf_count("state:binary-mode", 1);
	for (int op = 0; op < nops; op++) {
		char ctx[96];
		int what = (int) vf_below(r, 10);
		size_t unit = binary ? 2 : 1, total = 0;
		if (what < 6 && n < MAXE) {
			/* append an element */
			int bad = !binary && vf_chance(r, 1, 10);   /* element containing the separator: must be refused */
			size_t l = pick_elem(r, cand, sep, assign, binary, nlong < 2);
			if (!l && !p.base) continue;             /* nothing to declare valid without storage */
			if (bad && !l) bad = 0;
			if (bad) cand[vf_below(r, (uint32_t) l)] = (uint8_t) sep;
			int toolong = binary && l > 255;
			snprintf(ctx, sizeof(ctx), "add element %d of length %zu%s", n, l, binary ? " (binary)" : "");
			vf_log("%s%s", ctx, bad ? " containing the separator" : "");
			vf_fp(cand, l); vf_fp_u64(0xADD);
			for (size_t i = 0; i < l; i++) {
				vf_at("mpt_path_addchar");
				int rc = mpt_path_addchar(&p, cand[i]);
				vf_count("mpt_path_addchar", 1);
				VF_CHECK(rc >= 0, "model:path_addchar:refused", "%s: char %zu returned %d", ctx, i, rc);
				vf_at("mpt_path_valid");
				rc = mpt_path_valid(&p);
				VF_CHECK(rc == (int) (i + 1), "model:path_valid:count", "%s: %d pending characters reported after %zu", ctx, rc, i + 1);
			}
			vf_at("mpt_path_add");
			vf_count("mpt_path_add", 1);
			int rc = mpt_path_add(&p, (int) l);
			if (bad || toolong) {
				VF_CHECK(rc < 0, bad ? "model:path_add:accepted-separator" : "model:path_add:accepted-overlong",
				         "%s: returned %d for an element that %s", ctx, rc, bad ? "contains the separator" : "exceeds the binary length byte");
				vf_count("outcome:add-refused", 1);
				vf_at("mpt_path_invalidate");
				mpt_path_invalidate(&p);
			} else {
				VF_CHECK(rc >= 0, "model:path_add:refused", "%s: returned %d", ctx, rc);
				memcpy(e[n], cand, l); el[n++] = l;
				count_len(l);
				if (l > 3) nlong++;
				adds++;
			}
		}
		else if (what < 9) {
			snprintf(ctx, sizeof(ctx), "del with %d elements%s", n, binary ? " (binary)" : "");
			vf_log("%s", ctx);
			vf_fp_u64(0xDE1);
			vf_at("mpt_path_del");
			vf_count("mpt_path_del", 1);
			int rc = mpt_path_del(&p);
			if (!n) {
				VF_CHECK(rc < 0, "model:path_del:empty", "returned %d on empty path", rc);
			} else {
				VF_CHECK(rc >= 0, "model:path_del:refused", "%s: returned %d", ctx, rc);
				VF_CHECK((size_t) rc == el[n - 1], "model:path_del:length", "%s: removed element length %d, expected %zu", ctx, rc, el[n - 1]);
				n--; dels++;
			}
		}
		else {
			snprintf(ctx, sizeof(ctx), "re-walk with %d elements%s", n, binary ? " (binary)" : "");
		}
		for (int k = 0; k < n; k++) total += el[k] + unit;
		VF_CHECK(p.off == 0 && p.len == total, "model:path_add:path-length", "after %s: path off %zu len %zu, expected 0 and %zu", ctx, p.off, p.len, total);
		walk(ctx, &p, n, e, el, binary);
		last(ctx, &p, 0, n, e, el, binary);
		if (n > 1 && vf_chance(r, 1, 2)) last(ctx, &p, 1 + (int) vf_below(r, (uint32_t) n - 1), n, e, el, binary);
		vf_count("monitor:rebuild-walks", 1);
	}
	vf_at("mpt_path_fini");
	mpt_path_fini(&p);
	if (adds >= 3 && dels >= 1) vf_nontrivial();
	vf_sample("rebuild: %s mode, sep '%c', %d adds, %d dels, %d elements at the end", binary ? "binary" : "text", sep, adds, dels, n);
}


/* ------------------------------------------------------------------ kind C
 * The parser's protocol with characters that are NOT kept: mpt_path_addchar()
 * for every character, mpt_path_valid() only after characters to keep.  Model
 * of the data behind the path: pending bytes P and the "keep" mark K
 *   addchar(c): P non-empty and K clear -> the last pending byte is replaced,
 *               otherwise c is appended
 *   valid():    returns |P|, sets K when |P| > 0
 *   add(n):     first n pending bytes become the element, the end marker(s)
 *               take the place of the following 1 (text) / 2 (binary) bytes,
 *               the rest stays pending, K cleared
 *   del(), invalidate(): P emptied, K cleared
 * Element lengths are aimed so that path length and pending characters meet
 * the allocation steps of the path buffer (its _size is read back) exactly. */
static uint8_t P[1024];
static size_t np;
static int K;

static const MPT_STRUCT(buffer) *pbuffer(const MPT_STRUCT(path) *p)
{
	return (p->base && (p->flags & MPT_PATHFLAG(HasArray))) ? ((const MPT_STRUCT(buffer) *) p->base) - 1 : 0;
}
static void c_addchar(MPT_STRUCT(path) *p, int c, const char *ctx)
{
	const MPT_STRUCT(buffer) *b = pbuffer(p);
	int replace = np && !K;
	if (b && b->_used == b->_size) {
		vf_count("state:addchar-at-allocation-step", 1);
		if (replace) vf_count("state:pending-char-at-allocation-step", 1);
	}
	if (b && b->_used != p->off + p->len + np)
		vf_fail("model:path_addchar:used-size", "%s: buffer holds %zu bytes, path %zu + pending %zu", ctx, b->_used, p->off + p->len, np);
	vf_at("mpt_path_addchar");
	vf_count("mpt_path_addchar", 1);
	int rc = mpt_path_addchar(p, c);
	VF_CHECK(rc >= 0, "model:path_addchar:refused", "%s: returned %d", ctx, rc);
	if (replace) { P[np - 1] = (uint8_t) c; vf_count("outcome:pending-char-replaced", 1); }
	else { if (np >= sizeof(P)) vf_inconclusive("pending model overflow"); P[np++] = (uint8_t) c; }
	/* the data behind the path is exactly the pending bytes */
	b = pbuffer(p);
	VF_CHECK(b && b->_used == p->off + p->len + np, "model:path_addchar:pending-length", "%s: %zu bytes behind the path after adding a character, model has %zu (%s)", ctx,
	         b ? b->_used - p->off - p->len : 0, np, replace ? "character replaces the pending one" : "character is appended");
	VF_CHECK(!memcmp(p->base + p->off + p->len, P, np), "model:path_addchar:pending-content", "%s: pending bytes differ from the model", ctx);
}
static void c_valid(MPT_STRUCT(path) *p, const char *ctx)
{
	vf_at("mpt_path_valid");
	vf_count("mpt_path_valid", 1);
	int rc = mpt_path_valid(p);
	VF_CHECK(rc == (int) np, "model:path_valid:count", "%s: %d pending characters reported, model has %zu", ctx, rc, np);
	if (np) K = 1;
}
static void c_delchar(MPT_STRUCT(path) *p, const char *ctx)
{
	const MPT_STRUCT(buffer) *b = pbuffer(p);
	size_t used = b ? b->_used : 0, plen = p->len;
	vf_at("mpt_path_delchar");
	vf_count("mpt_path_delchar", 1);
	int rc = mpt_path_delchar(p);
	if (!np) {
		vf_count("state:delchar-nothing-pending", 1);
		VF_CHECK(rc < 0, "model:path_delchar:accepted-nothing-pending", "%s: returned %d ('%c') although no character is pending behind the path", ctx, rc, rc > 31 ? rc : '?');
		b = pbuffer(p);
		VF_CHECK(p->len == plen && (!b || b->_used == used), "model:path_delchar:refused-modified", "%s: refused but path/buffer length changed (%zu -> %zu bytes used)", ctx, used, b ? b->_used : 0);
		return;
	}
	VF_CHECK(rc >= 0, "model:path_delchar:refused", "%s: returned %d with %zu pending characters", ctx, rc, np);
	VF_CHECK(rc == (int) (char) P[np - 1], "model:path_delchar:character", "%s: took back %d, the last pending character is %d", ctx, rc, (int) (char) P[np - 1]);
	np--;
	b = pbuffer(p);
	VF_CHECK(b && b->_used == p->off + p->len + np, "model:path_delchar:pending-length", "%s: %zu bytes behind the path after taking one back, model has %zu", ctx,
	         b ? b->_used - p->off - p->len : 0, np);
	VF_CHECK(!memcmp(p->base + p->off + p->len, P, np), "model:path_delchar:pending-content", "%s: pending bytes differ from the model", ctx);
	vf_count("outcome:delchar-took-back", 1);
}
struct shared { MPT_STRUCT(path) p; int n; size_t el[MAXE]; int live; };

static void case_parser(vf_rng *r)
{
	static uint8_t e[MAXE][MAXL], cand[MAXL];
	size_t el[MAXE];
	int n = 0, binary = vf_chance(r, 1, 3), adds = 0, aimed = 0;
	int sep = seps[vf_below(r, 3)];
	MPT_STRUCT(path) p = MPT_PATH_INIT;
	struct shared sh = { MPT_PATH_INIT, 0, { 0 }, 0 };
	static uint8_t she[MAXE][MAXL];
	size_t unit = binary ? 2 : 1;
	p.sep = (char) sep;
	if (binary) p.flags = MPT_PATHFLAG(SepBinary);
	np = 0; K = 0;
	int nops = 5 + (int) vf_below(r, 14);
	vf_fp_u64(0xC0 | (uint64_t) binary << 8 | (uint64_t) sep << 16);
	for (int op = 0; op < nops; op++) {
		char ctx[120];
		int what = (int) vf_below(r, 15);
		size_t total = 0;
		for (int k = 0; k < n; k++) total += el[k] + unit;
		const MPT_STRUCT(buffer) *b = pbuffer(&p);
		if (what < 7 && n < MAXE) {
			/* blanks - name with kept characters (and blanks inside) - blanks - close the element */
			size_t step = b ? b->_size : 64, l;
			int pre = (int) vf_below(r, 4), post = (int) vf_below(r, 4), inner = vf_chance(r, 1, 4);
			while (step < total + np + 2) step += 128;
			if (vf_chance(r, 2, 3)) {
				/* aim: path end after this element at step-2 .. step, so that following pending characters meet the step */
				size_t want = step - vf_below(r, 3) - (vf_chance(r, 1, 3) ? (size_t) pre : 0);
				if (vf_chance(r, 1, 2)) {
					/* or: the pending character in front of this name meets the step (path end now at step-1) */
					want = total + unit + 1 + vf_below(r, 3);
				}
				l = (want > total + unit) ? want - total - unit : 1;
				aimed++;
			} else l = lens[vf_below(r, 13)];
			if (l > (binary ? 255u : MAXL - 8u)) l = binary ? 255 : MAXL - 8;
			if (!l) l = 1;
			if (inner && l < 3) inner = 0;
			snprintf(ctx, sizeof(ctx), "element %d: %d blanks, name of %zu%s, %d blanks%s", n, pre, l, inner ? " with inner blank" : "", post, binary ? " (binary)" : "");
			vf_log("%s (path %zu, pending %zu, buffer %zu/%zu)", ctx, total, np, b ? b->_used : 0, b ? b->_size : 0);
			vf_fp_u64(0xADD0 + (uint64_t) pre * 4 + (uint64_t) post); vf_fp_u64(l);
			size_t start = np;          /* stale pending bytes stay in front when nobody invalidated */
			int stale = np && !K;       /* ... except that the last one is replaced */
			for (int k = 0; k < pre; k++) c_addchar(&p, ' ', ctx);
			size_t keep = 0;
			for (size_t k = 0; k < l; k++) {
				int c = (inner && k == l / 2) ? ' ' : 'a' + (int) vf_below(r, 26);
				if (!binary && c == sep) c = 'x';
				c_addchar(&p, c, ctx);
				if (c != ' ') { c_valid(&p, ctx); keep = np; }
			}
			for (int k = 0; k < post; k++) c_addchar(&p, vf_chance(r, 1, 2) ? ' ' : '\t', ctx);
			(void) start; (void) stale;
			/* element = the first `keep` pending bytes (what mpt_path_valid reported last) */
			VF_CHECK(keep <= np && keep < MAXL, "model:harness", "keep %zu pending %zu", keep, np);
			memcpy(cand, P, keep);
			int bad = !binary && memchr(cand, sep, keep) != 0;
			int toolong = binary && keep > 255;
			vf_at("mpt_path_add");
			vf_count("mpt_path_add", 1);
			int rc = mpt_path_add(&p, (int) keep);
			if (bad || toolong) {
				VF_CHECK(rc < 0, "model:path_add:accepted-bad-element", "%s: returned %d", ctx, rc);
				vf_at("mpt_path_invalidate");
				mpt_path_invalidate(&p);
				np = 0; K = 0;
			} else {
				VF_CHECK(rc >= 0, "model:path_add:refused", "%s: returned %d", ctx, rc);
				memcpy(e[n], cand, keep); el[n++] = keep;
				count_len(keep);
				size_t rest = np > keep + unit ? np - keep - unit : 0;
				memmove(P, P + np - rest, rest);
				np = rest; K = 0;
				adds++;
				if (rest) vf_count("state:trailing-characters-left", 1);
			}
		}
		else if (what < 9) {
			snprintf(ctx, sizeof(ctx), "del with %d elements, %zu pending", n, np);
			vf_log("%s", ctx);
			vf_fp_u64(0xDE1);
			vf_at("mpt_path_del");
			vf_count("mpt_path_del", 1);
			int rc = mpt_path_del(&p);
			if (!n) VF_CHECK(rc < 0, "model:path_del:empty", "returned %d on empty path", rc);
			else {
				VF_CHECK(rc >= 0 && (size_t) rc == el[n - 1], "model:path_del:length", "%s: returned %d, expected %zu", ctx, rc, el[n - 1]);
				n--; np = 0; K = 0;
			}
		}
		else if (what < 11) {
			snprintf(ctx, sizeof(ctx), "invalidate with %zu pending", np);
			vf_log("%s (buffer %zu/%zu)", ctx, b ? b->_used : 0, b ? b->_size : 0);
			vf_fp_u64(0x1A7);
			if (b && !np && b->_used == b->_size) vf_count("state:invalidate-exactly-full", 1);
			vf_at("mpt_path_invalidate");
			vf_count("mpt_path_invalidate", 1);
			int rc = mpt_path_invalidate(&p);
			VF_CHECK(rc >= 0, "model:path_invalidate:refused", "%s: returned %d", ctx, rc);
			np = 0; K = 0;
		}
		else if (what >= 12) {
			/* characters taken back: m added and m taken back, then the rest of what is pending, then one more (refused) */
			int m = (int) vf_below(r, 4), identity = (!np || K);
			size_t before = np;
			uint8_t saved[sizeof(P)];
			memcpy(saved, P, np);
			snprintf(ctx, sizeof(ctx), "add %d / take back characters with %d elements, %zu pending%s", m, n, np, p.base ? "" : " (no storage)");
			vf_log("%s", ctx);
			vf_fp_u64(0xDC0 + (uint64_t) m);
			if (!p.base || !(p.flags & MPT_PATHFLAG(HasArray))) {
				/* nothing was ever added: documented refusal */
				vf_at("mpt_path_delchar");
				VF_CHECK(mpt_path_delchar(&p) < 0, "model:path_delchar:accepted-nothing-pending", "%s: accepted on a path without storage", ctx);
			} else {
				for (int k = 0; k < m; k++) c_addchar(&p, 'A' + (int) vf_below(r, 26), ctx);
				for (int k = 0; k < m; k++) c_delchar(&p, ctx);
				if (identity) {
					VF_CHECK(np == before && !memcmp(saved, P, np), "model:harness", "identity expectation broken in the model");
					vf_count("monitor:addchar-delchar-identity", 1);
				}
				if (vf_chance(r, 2, 3)) {
					int extra = (n && vf_chance(r, 1, 2)) ? 2 : 1;
					while (np) c_delchar(&p, ctx);
					if (n) vf_count("state:delchar-nothing-pending-after-element", 1);
					while (extra--) c_delchar(&p, ctx);   /* nothing pending: refused, path untouched */
				}
			}
		}
		else if (!sh.live && b) {
			/* a second holder of the path data: what it sees must stay what it is */
			MPT_STRUCT(buffer) *wb = (MPT_STRUCT(buffer) *) p.base - 1;
			snprintf(ctx, sizeof(ctx), "shared copy with %d elements", n);
			vf_log("%s", ctx);
			vf_fp_u64(0x5A);
			if (wb->_vptr->addref(wb)) {
				sh.p = p; sh.n = n; sh.live = 1;
				memcpy(sh.el, el, sizeof(el));
				memcpy(she, e, sizeof(she));
				vf_count("state:shared-copy", 1);
			}
		}
		else {
			snprintf(ctx, sizeof(ctx), "drop shared copy");
			if (sh.live) { vf_at("mpt_path_fini"); mpt_path_fini(&sh.p); sh.live = 0; }
		}
		total = 0;
		for (int k = 0; k < n; k++) total += el[k] + unit;
		VF_CHECK(p.off == 0 && p.len == total, "model:path_add:path-length", "after %s: path off %zu len %zu, expected 0 and %zu", ctx, p.off, p.len, total);
		b = pbuffer(&p);
		if (b) {
			VF_CHECK(b->_used == total + np, "model:path:pending-length", "after %s: %zu bytes behind the path, model has %zu", ctx, b->_used - total, np);
			VF_CHECK(b->_used <= b->_size, "model:path:used-exceeds-size", "after %s: used %zu > size %zu", ctx, b->_used, b->_size);
		}
		walk(ctx, &p, n, e, el, binary);
		last(ctx, &p, 0, n, e, el, binary);
		if (sh.live) {
			walk("shared copy", &sh.p, sh.n, she, sh.el, binary);
			vf_count("monitor:shared-copy-walks", 1);
		}
		vf_count("monitor:parser-protocol-walks", 1);
	}
	if (sh.live) { vf_at("mpt_path_fini"); mpt_path_fini(&sh.p); }
	vf_at("mpt_path_fini");
	mpt_path_fini(&p);
	if (adds >= 2 && aimed) vf_nontrivial();
	vf_sample("parser protocol: %s mode, %d ops, %d elements added (%d aimed at an allocation step), %d at the end", binary ? "binary" : "text", nops, adds, aimed, n);
}

uint64_t vf_cases(void) { return vf_thorough ? 3000000 : 180000; }

void vf_case(uint64_t idx, vf_rng *r)
{
	switch (idx % 3) {
	case 0: case_set(r); break;
	case 1: case_build(r); break;
	default: case_parser(r);
	}
}
