/*
 * C10 (path leg): splitting a path string into elements and walking or
 * rebuilding it element by element visits exactly the separator-delimited
 * components.
 *
 * Case kinds
 *   A  mpt_path_set on a generated string, walk with mpt_path_next, reduce to
 *      the last element with mpt_path_last (from the start and after k steps);
 *      oracle: split(sep) of the string up to the end delimiter.
 *   B  rebuild: characters are appended with mpt_path_addchar/mpt_path_valid
 *      (the parser's protocol), declared an element with mpt_path_add, removed
 *      again with mpt_path_del; text and binary (length-linked) mode; after
 *      every step a copy of the path is walked with mpt_path_next /
 *      mpt_path_last; oracle: vector of byte strings.
 */
#include <stdlib.h>
#include <errno.h>

#include "array.h"
#include "config.h"
#include "vf.h"

const char *vf_name = "c10_path";

#define MAXE 8
#define MAXL 300

static const size_t lens[] = { 0, 1, 1, 2, 2, 3, 3, 1, 2, 254, 255, 256, 257 };
static const char seps[] = { '.', '/', ':' };

static void count_len(size_t l)
{
	if (!l) vf_count("elements:empty", 1);
	else if (l <= 3) vf_count("elements:short", 1);
	else if (l == 254) vf_count("elements:len254", 1);
	else if (l == 255) vf_count("elements:len255", 1);
	else if (l == 256) vf_count("elements:len256", 1);
	else if (l >= 257) vf_count("elements:len257", 1);
}
static size_t pick_elem(vf_rng *r, uint8_t *dst, int sep, int assign, int binary, int allow_long)
{
	size_t l = lens[vf_below(r, allow_long && vf_chance(r, 1, 3) ? 13 : 9)];
	for (size_t i = 0; i < l; i++) {
		uint8_t c;
		do {
			c = binary ? (uint8_t) vf_below(r, 256) : (uint8_t) (0x21 + vf_below(r, 0x5e));
			/* the other separators are ordinary characters */
			if (!binary && vf_chance(r, 1, 6)) c = (uint8_t) seps[vf_below(r, 3)];
		} while (!binary && (c == sep || c == assign || !c));
		dst[i] = c;
	}
	return l;
}

/* walk a copy of the path: must yield exactly elements e[0..n) */
static void walk(const char *what, const MPT_STRUCT(path) *p, int n, uint8_t e[][MAXL], const size_t *el, int binary)
{
	MPT_STRUCT(path) w = *p;
	size_t off = p->off;
	for (int k = 0; k < n; k++) {
		size_t start = w.off;
		vf_at("mpt_path_next");
		int r = mpt_path_next(&w);
		vf_count("mpt_path_next", 1);
		VF_CHECK(r >= 0, "model:path_next:refused", "%s: element %d of %d: returned %d", what, k, n, r);
		VF_CHECK((size_t) r == el[k], "model:path_next:length", "%s: element %d of %d has length %d, expected %zu", what, k, n, r, el[k]);
		VF_CHECK(start == off, "model:path_next:offset", "%s: element %d of %d starts at %zu, expected %zu", what, k, n, start, off);
		VF_CHECK(!memcmp(p->base + start, e[k], el[k]), "model:path_next:content", "%s: element %d of %d has other bytes", what, k, n);
		off += el[k] + (binary ? 2 : 1);
		VF_CHECK(w.off == off, "model:path_next:advance", "%s: after element %d the path starts at %zu, expected %zu", what, k, w.off, off);
		vf_count("monitor:element-compares", 1);
	}
	VF_CHECK(w.len == 0, "model:path_next:remaining", "%s: %zu bytes left after %d elements", what, w.len, n);
	vf_at("mpt_path_next");
	int r = mpt_path_next(&w);
	VF_CHECK(r < 0, "model:path_next:past-end", "%s: returned %d on consumed path", what, r);
}
/* reduce a copy (after `skip` steps) to the last element */
static void last(const char *what, const MPT_STRUCT(path) *p, int skip, int n, uint8_t e[][MAXL], const size_t *el, int binary)
{
	MPT_STRUCT(path) w = *p;
	size_t off = p->off;
	int k;
	for (k = 0; k < skip; k++) { mpt_path_next(&w); }
	for (k = 0; k < n - 1; k++) off += el[k] + (binary ? 2 : 1);
	vf_at("mpt_path_last");
	vf_count("mpt_path_last", 1);
	if (skip) vf_count("state:last-after-next", 1);
	int r = mpt_path_last(&w);
	if (!n) {
		VF_CHECK(r < 0, "model:path_last:empty", "%s: returned %d for empty path", what, r);
		return;
	}
	VF_CHECK(r >= 0, "model:path_last:refused", "%s: returned %d (%d elements, %d consumed)", what, r, n, skip);
	VF_CHECK((size_t) r == el[n - 1], "model:path_last:length", "%s: last of %d elements (%d consumed) has length %d, expected %zu", what, n, skip, r, el[n - 1]);
	VF_CHECK(w.off == off, "model:path_last:offset", "%s: last of %d elements (%d consumed) starts at %zu, expected %zu", what, n, skip, w.off, off);
	/* the reduced path is a path of one element */
	vf_at("mpt_path_next");
	r = mpt_path_next(&w);
	VF_CHECK(r >= 0 && (size_t) r == el[n - 1] && !w.len, "model:path_last:single",
	         "%s: walking the reduced path gives %d with %zu bytes left, expected %zu and 0", what, r, w.len, el[n - 1]);
	vf_count("monitor:last-compares", 1);
}

/* ------------------------------------------------------------------ kind A */
static void case_set(vf_rng *r)
{
	static uint8_t e[MAXE][MAXL];
	size_t el[MAXE], total = 0;
	int sep = seps[vf_below(r, 3)];
	int assign = vf_chance(r, 1, 4) ? '=' : 0;
	int explicit = !assign && vf_chance(r, 1, 3);
	int n = 1 + (int) vf_below(r, 6);
	int nlong = 0;
	for (int k = 0; k < n; k++) {
		el[k] = pick_elem(r, e[k], sep, assign ? assign : 0, 0, nlong < 2);
		if (el[k] > 3) nlong++;
		count_len(el[k]);
		total += el[k] + 1;
	}
	/* string: elements joined by sep, end delimiter, optional trailing data */
	size_t plen = total;               /* path length incl. end delimiter */
	size_t extra = assign ? vf_below(r, 6) : 0;
	size_t blen = plen + extra + (assign ? 1 : 0);
	char *s = vf_xalloc(blen), *snap = malloc(blen + 1);
	size_t o = 0;
	for (int k = 0; k < n; k++) {
		memcpy(s + o, e[k], el[k]); o += el[k];
		s[o++] = (char) (k + 1 < n ? sep : assign);
	}
	if (assign) {
		for (size_t i = 0; i < extra; i++) s[o++] = (char) ('a' + vf_below(r, 26));
		s[o++] = 0;
	}
	if (explicit) s[plen - 1] = (char) (vf_chance(r, 1, 2) ? sep : 'Z');  /* byte after the given length: not part of the path */
	memcpy(snap, s, blen);
	vf_fp(s, blen); vf_fp_u64((uint64_t) sep << 8 | (uint64_t) assign | (uint64_t) explicit << 16);

	MPT_STRUCT(path) p = MPT_PATH_INIT;
	p.sep = (char) sep;
	p.assign = (char) assign;
	vf_at("mpt_path_set");
	vf_count("mpt_path_set", 1);
	if (explicit) vf_count("state:set-explicit-length", 1);
	if (assign) vf_count("state:set-end-delimiter", 1);
	vf_log("path_set(%d elements, sep '%c', end %d, len %s) total %zu", n, sep, assign, explicit ? "explicit" : "-1", plen);
	(void) mpt_path_set(&p, s, explicit ? (int) (plen - 1) : -1);
	VF_CHECK(p.base == s && p.off == 0, "model:path_set:base", "path does not start at the given string (off %zu)", p.off);
	VF_CHECK(p.len == plen, "model:path_set:length", "path length %zu, expected %zu (%d elements, sep '%c', end %d, %s length)", p.len, plen, n, sep, assign,
	         explicit ? "explicit" : "implicit");
	VF_CHECK(p.sep == sep && p.assign == assign, "model:path_set:separators", "separator/end delimiter changed");
	walk("after path_set", &p, n, e, el, 0);
	last("after path_set", &p, 0, n, e, el, 0);
	if (n > 1) last("after path_set and path_next", &p, 1 + (int) vf_below(r, (uint32_t) n - 1), n, e, el, 0);
	VF_CHECK(!memcmp(s, snap, blen), "model:path_set:modified-string", "the caller's string was modified");
	if (n >= 3 || nlong) vf_nontrivial();
	vf_sample("set+walk: %d elements (lengths %zu,%zu,..), sep '%c', end delimiter %d, %s length", n, el[0], n > 1 ? el[1] : 0, sep, assign, explicit ? "explicit" : "implicit");
	vf_xfree(s, blen); free(snap);
}

/* ------------------------------------------------------------------ kind B */
static void case_build(vf_rng *r)
{
	static uint8_t e[MAXE][MAXL], cand[MAXL];
	size_t el[MAXE];
	int n = 0, binary = vf_chance(r, 1, 3), adds = 0, dels = 0, nlong = 0;
	int sep = seps[vf_below(r, 3)];
	int assign = vf_chance(r, 1, 4) ? '=' : 0;
	MPT_STRUCT(path) p = MPT_PATH_INIT;
	p.sep = (char) sep;
	p.assign = (char) assign;
	if (binary) p.flags = MPT_PATHFLAG(SepBinary);
	int nops = 4 + (int) vf_below(r, 14);
	vf_fp_u64(0xB0 | (uint64_t) binary << 8 | (uint64_t) sep << 16 | (uint64_t) assign << 24);
	if (binary) vf_count("state:binary-mode", 1);
	for (int op = 0; op < nops; op++) {
		char ctx[96];
		int what = (int) vf_below(r, 10);
		size_t unit = binary ? 2 : 1, total = 0;
		if (what < 6 && n < MAXE) {
			/* append an element */
			int bad = !binary && vf_chance(r, 1, 10);   /* element containing the separator: must be refused */
			size_t l = pick_elem(r, cand, sep, assign, binary, nlong < 2);
			if (!l && !p.base) continue;             /* nothing to declare valid without storage */
			if (bad && !l) bad = 0;
			if (bad) cand[vf_below(r, (uint32_t) l)] = (uint8_t) sep;
			int toolong = binary && l > 255;
			snprintf(ctx, sizeof(ctx), "add element %d of length %zu%s", n, l, binary ? " (binary)" : "");
			vf_log("%s%s", ctx, bad ? " containing the separator" : "");
			vf_fp(cand, l); vf_fp_u64(0xADD);
			for (size_t i = 0; i < l; i++) {
				vf_at("mpt_path_addchar");
				int rc = mpt_path_addchar(&p, cand[i]);
				vf_count("mpt_path_addchar", 1);
				VF_CHECK(rc >= 0, "model:path_addchar:refused", "%s: char %zu returned %d", ctx, i, rc);
				vf_at("mpt_path_valid");
				rc = mpt_path_valid(&p);
				VF_CHECK(rc == (int) (i + 1), "model:path_valid:count", "%s: %d pending characters reported after %zu", ctx, rc, i + 1);
			}
			vf_at("mpt_path_add");
			vf_count("mpt_path_add", 1);
			int rc = mpt_path_add(&p, (int) l);
			if (bad || toolong) {
				VF_CHECK(rc < 0, bad ? "model:path_add:accepted-separator" : "model:path_add:accepted-overlong",
				         "%s: returned %d for an element that %s", ctx, rc, bad ? "contains the separator" : "exceeds the binary length byte");
				vf_count("outcome:add-refused", 1);
				vf_at("mpt_path_invalidate");
				mpt_path_invalidate(&p);
			} else {
				VF_CHECK(rc >= 0, "model:path_add:refused", "%s: returned %d", ctx, rc);
				memcpy(e[n], cand, l); el[n++] = l;
				count_len(l);
				if (l > 3) nlong++;
				adds++;
			}
		}
		else if (what < 9) {
			snprintf(ctx, sizeof(ctx), "del with %d elements%s", n, binary ? " (binary)" : "");
			vf_log("%s", ctx);
			vf_fp_u64(0xDE1);
			vf_at("mpt_path_del");
			vf_count("mpt_path_del", 1);
			int rc = mpt_path_del(&p);
			if (!n) {
				VF_CHECK(rc < 0, "model:path_del:empty", "returned %d on empty path", rc);
			} else {
				VF_CHECK(rc >= 0, "model:path_del:refused", "%s: returned %d", ctx, rc);
				VF_CHECK((size_t) rc == el[n - 1], "model:path_del:length", "%s: removed element length %d, expected %zu", ctx, rc, el[n - 1]);
				n--; dels++;
			}
		}
		else {
			snprintf(ctx, sizeof(ctx), "re-walk with %d elements%s", n, binary ? " (binary)" : "");
		}
		for (int k = 0; k < n; k++) total += el[k] + unit;
		VF_CHECK(p.off == 0 && p.len == total, "model:path_add:path-length", "after %s: path off %zu len %zu, expected 0 and %zu", ctx, p.off, p.len, total);
		walk(ctx, &p, n, e, el, binary);
		last(ctx, &p, 0, n, e, el, binary);
		if (n > 1 && vf_chance(r, 1, 2)) last(ctx, &p, 1 + (int) vf_below(r, (uint32_t) n - 1), n, e, el, binary);
		vf_count("monitor:rebuild-walks", 1);
	}
	vf_at("mpt_path_fini");
	mpt_path_fini(&p);
	if (adds >= 3 && dels >= 1) vf_nontrivial();
	vf_sample("rebuild: %s mode, sep '%c', %d adds, %d dels, %d elements at the end", binary ? "binary" : "text", sep, adds, dels, n);
}

uint64_t vf_cases(void) { return vf_thorough ? 2000000 : 120000; }

void vf_case(uint64_t idx, vf_rng *r)
{
	if (idx & 1) case_build(r);
	else case_set(r);
}
