/*
 * Shared by C04 (c04_users.c), C05 (c05_elems.c) and C15 (c15_refs.c): histories on raw data
 * stages (mptplot): a stage is a typed array of value stores, each value store owns an array of
 * doubles; both levels are copy-on-write buffers.
 *
 * Oracles after every operation:
 *  - value semantics: every stage handle reads its own shadow (dimension count, values per dimension),
 *  - handle accounting: a buffer (outer or inner) that the model reaches through two or more
 *    owners must report BufferShared, one reached through exactly one owner must not
 *    (an owner = a stage handle for outer buffers, a value store slot of a distinct outer buffer for
 *    inner buffers) - a reference dropped or kept without a handle shows here before it becomes a
 *    use after free or a leak,
 *  - ASan / LSan for what is left.
 * Include after vf.h; key prefix is passed in.
 */
#ifndef C_STAGE_H
#define C_STAGE_H

#include <string.h>
#include <errno.h>
#include "array.h"
#include "types.h"
#include "values.h"

#define ST_NH 3
#define ST_MAXDIM 6
#define ST_MAXVAL 64
typedef struct { int ndim; int n[ST_MAXDIM]; double v[ST_MAXDIM][ST_MAXVAL]; } st_shadow;

static MPT_STRUCT(rawdata_stage) st_h[ST_NH];
static st_shadow st_s[ST_NH];
static double st_next = 1.0;
static char st_key[96];

static const char *st_k(const char *pre, const char *what)
{
	snprintf(st_key, sizeof(st_key), "%s:%s", pre, what);
	return st_key;
}
static void st_audit(const char *pre, int h, const char *ctx)
{
	const MPT_STRUCT(buffer) *outer[ST_NH];
	int owners[ST_NH], no = 0;
	const MPT_STRUCT(buffer) *inner[ST_NH * ST_MAXDIM];
	int iown[ST_NH * ST_MAXDIM], ni = 0;

	for (int i = 0; i < ST_NH; i++) {
		const MPT_STRUCT(buffer) *b = st_h[i]._d._buf;
		int cnt = b ? (int) (b->_used / sizeof(MPT_STRUCT(value_store))) : 0;
		const char *w = i == h ? "target" : "other-handle";
		if (b) VF_CHECK(b->_content_traits == mpt_value_store_traits(), st_k(pre, "stage-buffer-type"), "%s: stage %d buffer lost its element type", ctx, i);
		if (cnt != st_s[i].ndim) {
			snprintf(st_key, sizeof(st_key), "%s:%s-dimensions", pre, w);
			vf_fail(st_key, "%s: stage %d has %d dimensions, model %d", ctx, i, cnt, st_s[i].ndim);
		}
		const MPT_STRUCT(value_store) *vs = b ? (const void *) (b + 1) : 0;
		for (int d = 0; d < cnt; d++) {
			const MPT_STRUCT(buffer) *ib = vs[d]._d._buf;
			int nv = ib ? (int) (ib->_used / sizeof(double)) : 0;
			if (nv != st_s[i].n[d] || (nv && memcmp(ib + 1, st_s[i].v[d], nv * sizeof(double)))) {
				snprintf(st_key, sizeof(st_key), "%s:%s-values", pre, w);
				vf_fail(st_key, "%s: stage %d dimension %d holds %d values%s, model %d", ctx, i, d, nv, nv == st_s[i].n[d] ? " (content differs)" : "", st_s[i].n[d]);
			}
		}
		if (!b) continue;
		int k;
		for (k = 0; k < no; k++) if (outer[k] == b) break;
		if (k < no) { owners[k]++; continue; }
		outer[no] = b; owners[no++] = 1;
		/* value store slots of a distinct outer buffer own their inner buffers */
		for (int d = 0; d < cnt; d++) {
			const MPT_STRUCT(buffer) *ib = vs[d]._d._buf;
			int q;
			if (!ib) continue;
			for (q = 0; q < ni; q++) if (inner[q] == ib) break;
			if (q < ni) iown[q]++; else { inner[ni] = ib; iown[ni++] = 1; }
		}
	}
	for (int k = 0; k < no; k++) {
		int sh = (outer[k]->_vptr->get_flags(outer[k]) & MPT_ENUM(BufferShared)) != 0;
		VF_CHECK(sh == (owners[k] > 1), st_k(pre, owners[k] > 1 ? "stage-buffer-reference-lost" : "stage-buffer-reference-leaked"),
		         "%s: stage buffer with %d handles reports %s", ctx, owners[k], sh ? "shared" : "not shared");
	}
	for (int q = 0; q < ni; q++) {
		int sh = (inner[q]->_vptr->get_flags(inner[q]) & MPT_ENUM(BufferShared)) != 0;
		VF_CHECK(sh == (iown[q] > 1), st_k(pre, iown[q] > 1 ? "value-buffer-reference-lost" : "value-buffer-reference-leaked"),
		         "%s: value buffer owned by %d value stores reports %s", ctx, iown[q], sh ? "shared" : "not shared");
	}
	vf_count("monitor:stage-audits", 1);
}
static void stage_history(vf_rng *r, const char *pre)
{
	const MPT_STRUCT(type_traits) *tr = mpt_stage_traits();
	int nops = vf_range(r, 6, 40), shared_access = 0;
	char ctx[200];

	for (int i = 0; i < ST_NH; i++) { tr->init(&st_h[i], 0); st_s[i].ndim = 0; }
	vf_fp_u64(0x57a9e);
	for (int i = 0; i < nops; i++) {
		int op = (int) vf_below(r, 8), h = (int) vf_below(r, ST_NH), g = (int) vf_below(r, ST_NH);
		const MPT_STRUCT(buffer) *ob = st_h[h]._d._buf;
		int shared = ob && (ob->_vptr->get_flags(ob) & MPT_ENUM(BufferShared));
		int nd = st_s[h].ndim;
		switch (op) {
		case 0: case 1: case 2: case 3: {   /* access a dimension and append / repeat values through it */
			int dim = (op == 3 || !nd) ? (int) vf_below(r, ST_MAXDIM) : (int) vf_below(r, (uint32_t) nd);
			long len = (long) vf_below(r, 5);
			int rep = nd && dim < nd && st_s[h].n[dim] && vf_chance(r, 1, 4);
			if (rep) len = -(long) (1 + vf_below(r, (uint32_t) st_s[h].n[dim]));
			snprintf(ctx, sizeof(ctx), "stage_data(h=%d,dim=%d)+values_prepare(%ld) dims=%d%s", h, dim, len, nd, shared ? " shared" : "");
			vf_log("%s", ctx);
			vf_at("mpt_stage_data"); vf_count("mpt_stage_data", 1);
			if (shared && dim < nd) { shared_access++; vf_count("state:existing-dimension-of-shared-stage", 1); }
			if (shared && dim >= nd) vf_count("state:new-dimension-on-shared-stage", 1);
			MPT_STRUCT(value_store) *vs = mpt_stage_data(&st_h[h], (unsigned) dim);
			VF_CHECK(vs != 0, st_k(pre, "stage_data:refused"), "%s: NULL (errno %d)", ctx, errno);
			VF_CHECK(st_h[h]._d._buf && (uint8_t *) vs >= (uint8_t *) (st_h[h]._d._buf + 1)
			         && (uint8_t *) (vs + 1) <= (uint8_t *) (st_h[h]._d._buf + 1) + st_h[h]._d._buf->_used,
			         st_k(pre, "stage_data:result-outside-stage"), "%s: returned value store is not an element of the stage's buffer", ctx);
			for (int d = nd; d <= dim; d++) st_s[h].n[d] = 0;
			if (dim >= nd) st_s[h].ndim = dim + 1;
			int n = st_s[h].n[dim];
			if (n + (len < 0 ? -len : len) > ST_MAXVAL) len = 0;
			if (!len) break;
			vf_at("mpt_values_prepare");
			double *p = mpt_values_prepare((void *) &vs->_d, len);
			VF_CHECK(p != 0, st_k(pre, "values_prepare:refused"), "%s: NULL (errno %d)", ctx, errno);
			if (len > 0) for (long j = 0; j < len; j++) { p[j] = st_s[h].v[dim][n + j] = st_next; st_next += 0.25; }
			else for (long j = 0; j < -len; j++) st_s[h].v[dim][n + j] = st_s[h].v[dim][n + len + j];
			st_s[h].n[dim] = n + (int) (len < 0 ? -len : len);
			break; }
		case 4: case 5:   /* stage copy through its traits */
			if (h == g) { snprintf(ctx, sizeof(ctx), "skip"); break; }
			snprintf(ctx, sizeof(ctx), "stage copy h=%d <- g=%d", h, g);
			vf_log("%s", ctx);
			vf_at("rawdata_stage traits"); vf_count("stage_copy", 1);
			tr->fini(&st_h[h]);
			if (tr->init(&st_h[h], &st_h[g]) < 0) vf_fail(st_k(pre, "stage_copy:refused"), "%s", ctx);
			st_s[h] = st_s[g];
			break;
		case 6:
			snprintf(ctx, sizeof(ctx), "stage drop h=%d", h);
			vf_log("%s", ctx);
			vf_count("stage_drop", 1);
			tr->fini(&st_h[h]);
			st_s[h].ndim = 0;
			break;
		default: {   /* a value store array copied as a plain typed array (what a stage array copy does) */
			MPT_STRUCT(array) tmp = MPT_ARRAY_INIT;
			snprintf(ctx, sizeof(ctx), "array_clone of stage %d content, then release", h);
			vf_log("%s", ctx);
			vf_at("mpt_array_clone"); vf_count("stage_content_clone", 1);
			mpt_array_clone(&tmp, (void *) &st_h[h]._d);
			if (tmp._buf && vf_chance(r, 1, 2)) {
				/* private copy of the outer buffer: value stores are copy-constructed, inner buffers become shared */
				vf_at("mpt_array_slice");
				if (!mpt_array_slice(&tmp, 0, 0)) vf_fail(st_k(pre, "array_slice:refused"), "%s", ctx);
			}
			mpt_array_clone(&tmp, 0);
			break; }
		}
		vf_fp_u64(((uint64_t) op << 32) ^ (h << 8) ^ g);
		st_audit(pre, h, ctx);
	}
	for (int i = 0; i < ST_NH; i++) { tr->fini(&st_h[i]); st_s[i].ndim = 0; }
	if (shared_access) vf_nontrivial();
	vf_sample("raw data stages x3: %d access/append/repeat/copy/drop operations, %d accesses to an existing dimension of a shared stage", nops, shared_access);
}
#endif
