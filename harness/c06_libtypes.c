/*
 * C06 (library registrations leg): the types the library registers for itself.
 *
 * mptplot / mptio / mptcore register their own types lazily through
 * convenience functions (mpt_color_typeid, mpt_lattr_typeid, mpt_line_typeid,
 * mpt_{graph,axis,world,text}_pointer_typeid, mpt_fpoint_typeid,
 * mpt_rawdata_type_traits, mpt_input_type_traits, mpt_client_type_traits).
 * One PRNG history per process (batch=1): these calls in random order,
 * interleaved with registrations of the harness, stack-heavy harness work and
 * lookups.  Monitor: the id of each convenience is stable over repeated calls,
 * lies in the range of its kind, is unique among all ids handed out, and
 * mpt_type_traits(id) keeps returning the same descriptor (pointer identical,
 * size == sizeof of the public C type, init/fini unchanged) for the rest of
 * the process; the descriptor must not live in a stack frame that has returned.
 * The leg runs with detect_stack_use_after_return=1, so ASan reports a read of
 * a dead frame directly; the content/address checks do not depend on it.
 */
#define _GNU_SOURCE
#include <stdlib.h>
#include <pthread.h>
#include <sys/uio.h>

#include "types.h"
#include "meta.h"
#include "client.h"
#include "notify.h"
#include "values.h"
#include "layout.h"

#include "vf.h"

const char *vf_name = "c06_libtypes";

enum { KBasic, KGeneric, KIface, KMeta };
static const char *kindname[] = { "basic", "generic", "interface", "metatype" };

typedef struct {
	const char *api;
	int kind;
	size_t size;          /* sizeof of the C type the id stands for */
	const char *name;     /* named kinds */
	/* state */
	int id;               /* 0: not registered yet */
	const MPT_STRUCT(type_traits) *traits;
	int (*init)(void *, const void *);
	void (*fini)(void *);
	uint64_t calls, lookups;
} libtype;

#define NLIB 11
static libtype lib[NLIB] = {
	{ "mpt_color_typeid",          KBasic,   sizeof(MPT_STRUCT(color)),    0, 0, 0, 0, 0, 0, 0 },
	{ "mpt_lattr_typeid",          KBasic,   sizeof(MPT_STRUCT(lineattr)), 0, 0, 0, 0, 0, 0, 0 },
	{ "mpt_line_typeid",           KGeneric, sizeof(MPT_STRUCT(line)),     0, 0, 0, 0, 0, 0, 0 },
	{ "mpt_graph_pointer_typeid",  KGeneric, sizeof(void *),               0, 0, 0, 0, 0, 0, 0 },
	{ "mpt_axis_pointer_typeid",   KGeneric, sizeof(void *),               0, 0, 0, 0, 0, 0, 0 },
	{ "mpt_world_pointer_typeid",  KGeneric, sizeof(void *),               0, 0, 0, 0, 0, 0, 0 },
	{ "mpt_text_pointer_typeid",   KGeneric, sizeof(void *),               0, 0, 0, 0, 0, 0, 0 },
	{ "mpt_fpoint_typeid",         KGeneric, sizeof(MPT_STRUCT(fpoint)),   0, 0, 0, 0, 0, 0, 0 },
	{ "mpt_rawdata_type_traits",   KIface,   sizeof(void *), "mpt.rawdata", 0, 0, 0, 0, 0, 0 },
	{ "mpt_input_type_traits",     KMeta,    sizeof(void *), "mpt.input",   0, 0, 0, 0, 0, 0 },
	{ "mpt_client_type_traits",    KMeta,    sizeof(void *), "mpt.client",  0, 0, 0, 0, 0, 0 }
};

/* ids handed out to the harness itself */
#define MAXOWN 4096
static struct { int id; int kind; size_t size; const MPT_STRUCT(type_traits) *traits; } own[MAXOWN];
static int nown;
static MPT_STRUCT(type_traits) *own_traits;   /* heap, lives until exit */

static uintptr_t stack_lo, frame_hi;   /* [stack_lo, frame_hi): frames below vf_case */

static void range_of(int kind, int *lo, int *hi)
{
	switch (kind) {
	case KBasic:   *lo = MPT_ENUM(_TypeDynamicBase); *hi = MPT_ENUM(_TypeDynamicMax); break;
	case KGeneric: *lo = MPT_ENUM(_TypeValueAdd); *hi = MPT_ENUM(_TypeValueMax); break;
	case KIface:   *lo = MPT_ENUM(_TypeInterfaceAdd); *hi = MPT_ENUM(_TypeInterfaceMax); break;
	default:       *lo = MPT_ENUM(_TypeMetaPtrBase) + 1; *hi = MPT_ENUM(_TypeMetaPtrMax);
	}
}
static void check_unique(const char *api, int id, int self)
{
	int i;
	for (i = 0; i < NLIB; i++) {
		if (i != self && lib[i].id == id) vf_fail("model:libtypes:id-handed-out-twice", "%s returned id 0x%x which is the id of %s", api, id, lib[i].api);
	}
	for (i = 0; i < nown; i++) {
		if (own[i].id == id) vf_fail("model:libtypes:id-handed-out-twice", "%s returned id 0x%x which was handed to the harness before", api, id);
	}
}
/* overwrite the stack below the caller with a pattern (frames that have returned) */
static void __attribute__((noinline)) stack_work(size_t depth, uint8_t pat)
{
	volatile uint8_t buf[2048];
	size_t i;
	for (i = 0; i < sizeof(buf); i++) buf[i] = (uint8_t) (pat + i);
	if (depth) stack_work(depth - 1, (uint8_t) (pat * 31 + 7));
	if (buf[depth % sizeof(buf)] == 0x5a && buf[1] == 0x5a) vf_count("observe:stack-pattern", 0);
}

/* compare what the registry says about a library type now with its description */
static void look_lib(int k)
{
	libtype *l = &lib[k];
	const MPT_STRUCT(type_traits) *t;
	if (!l->id) return;
	vf_at("mpt_type_traits");
	t = mpt_type_traits((MPT_TYPE(type)) l->id);
	vf_count("mpt_type_traits", 1);
	l->lookups++;
	VF_CHECK(t, "model:libtypes:registered-id-missing", "mpt_type_traits(0x%x) is NULL, id was returned by %s", l->id, l->api);
	VF_CHECK(!((uintptr_t) t >= stack_lo && (uintptr_t) t < frame_hi), "model:libtypes:traits-in-dead-stack-frame",
	         "mpt_type_traits(0x%x) (%s) returns %p, an address inside the stack below the caller (stack 0x%zx..0x%zx): descriptor of a function that has returned",
	         l->id, l->api, (const void *) t, (size_t) stack_lo, (size_t) frame_hi);
	if (!l->traits) {
		l->traits = t; l->init = t->init; l->fini = t->fini;
	}
	VF_CHECK(t == l->traits, "model:libtypes:descriptor-changed", "mpt_type_traits(0x%x) (%s) returned %p, before %p", l->id, l->api, (const void *) t, (const void *) l->traits);
	VF_CHECK(t->size == l->size, "model:libtypes:size", "mpt_type_traits(0x%x) (%s) reports size %zu (0x%zx), the C type has %zu (lookup %llu of this id)",
	         l->id, l->api, t->size, t->size, l->size, (unsigned long long) l->lookups);
	VF_CHECK(t->init == l->init && t->fini == l->fini, "model:libtypes:operations-changed", "mpt_type_traits(0x%x) (%s): init/fini differ from the first lookup", l->id, l->api);
	if (l->kind == KBasic || l->kind >= KIface) {
		/* sized-only and pointer kinds: the registry itself describes them without element operations */
		VF_CHECK(!t->init && !t->fini, "model:libtypes:operations-changed", "mpt_type_traits(0x%x) (%s) has init/fini, kind %s has none", l->id, l->api, kindname[l->kind]);
	}
	vf_count("monitor:libtype-compared", 1);
	if (l->kind >= KIface) {
		const MPT_STRUCT(named_traits) *nt;
		vf_at(l->kind == KIface ? "mpt_interface_traits" : "mpt_metatype_traits");
		nt = l->kind == KIface ? mpt_interface_traits((MPT_TYPE(type)) l->id) : mpt_metatype_traits((MPT_TYPE(type)) l->id);
		VF_CHECK(nt && nt->type == (MPT_TYPE(type)) l->id && nt->name && !strcmp(nt->name, l->name) && nt->traits == t,
		         "model:libtypes:named-record", "record of id 0x%x (%s): %s", l->id, l->api, !nt ? "missing" : "type, name or traits differ");
		vf_at("mpt_named_traits");
		nt = mpt_named_traits(l->name, -1);
		VF_CHECK(nt && nt->type == (MPT_TYPE(type)) l->id, "model:libtypes:name-to-id", "mpt_named_traits('%s') -> 0x%zx, expected 0x%x", l->name, nt ? (size_t) nt->type : 0, l->id);
		vf_count("monitor:libtype-name-compared", 1);
	}
}
static void look_own(int i)
{
	const MPT_STRUCT(type_traits) *t;
	vf_at("mpt_type_traits");
	t = mpt_type_traits((MPT_TYPE(type)) own[i].id);
	vf_count("mpt_type_traits", 1);
	VF_CHECK(t && t->size == own[i].size && !t->init && !t->fini, "model:libtypes:own-type-changed", "harness type 0x%x: %s", own[i].id, t ? "size or operations differ" : "missing");
	if (own[i].traits) VF_CHECK(t == own[i].traits, "model:libtypes:own-type-changed", "harness type 0x%x: descriptor pointer changed", own[i].id);
}

/* number of resolving ids per kind: what a call added to the registry */
static void count_entries(int n[4])
{
	int id;
	n[KBasic] = n[KGeneric] = n[KIface] = n[KMeta] = 0;
	for (id = MPT_ENUM(_TypeDynamicBase); id <= MPT_ENUM(_TypeDynamicMax); id++) if (mpt_type_traits((MPT_TYPE(type)) id)) n[KBasic]++;
	for (id = MPT_ENUM(_TypeValueAdd); id <= MPT_ENUM(_TypeValueMax); id++) if (mpt_type_traits((MPT_TYPE(type)) id)) n[KGeneric]++;
	for (id = MPT_ENUM(_TypeInterfaceBase); id <= MPT_ENUM(_TypeInterfaceMax); id++) if (mpt_interface_traits((MPT_TYPE(type)) id)) n[KIface]++;
	for (id = MPT_ENUM(_TypeMetaPtrBase); id <= MPT_ENUM(_TypeMetaPtrMax); id++) if (mpt_metatype_traits((MPT_TYPE(type)) id)) n[KMeta]++;
}
static int call_lib(int k)
{
	int before[4], after[4], other = 0, own_delta, c;
	libtype *l = &lib[k];
	const MPT_STRUCT(named_traits) *nt = 0;
	int id, lo, hi;
	count_entries(before);
	vf_at(l->api);
	switch (k) {
	case 0: id = mpt_color_typeid(); break;
	case 1: id = mpt_lattr_typeid(); break;
	case 2: id = mpt_line_typeid(); break;
	case 3: id = mpt_graph_pointer_typeid(); break;
	case 4: id = mpt_axis_pointer_typeid(); break;
	case 5: id = mpt_world_pointer_typeid(); break;
	case 6: id = mpt_text_pointer_typeid(); break;
	case 7: id = mpt_fpoint_typeid(); break;
	case 8: nt = mpt_rawdata_type_traits(); id = nt ? (int) nt->type : -1; break;
	case 9: nt = mpt_input_type_traits(); id = nt ? (int) nt->type : -1; break;
	default: nt = mpt_client_type_traits(); id = nt ? (int) nt->type : -1; break;
	}
	count_entries(after);
	for (c = 0; c < 4; c++) if (c != l->kind) other += after[c] - before[c];
	own_delta = after[l->kind] - before[l->kind];
	/* one library type stands for one id: only the first successful call adds one entry */
	VF_CHECK(!other && own_delta == ((id > 0 && !l->id) ? 1 : 0), "model:libtypes:extra-registration",
	         "%s() -> %d (id before: 0x%x) changed the number of registry entries: basic %+d, generic %+d, interface %+d, metatype %+d",
	         l->api, id, l->id, after[KBasic] - before[KBasic], after[KGeneric] - before[KGeneric], after[KIface] - before[KIface], after[KMeta] - before[KMeta]);
	vf_count("monitor:registry-growth-compared", 1);
	vf_count(l->api, 1);
	l->calls++;
	vf_fp_u64(0x1000 + (uint64_t) k);
	if (vf_logging) vf_log("%s() -> %d (0x%x)", l->api, id, id);
	if (id <= 0) {
		VF_CHECK(!l->id, "model:libtypes:id-not-stable", "%s() returned 0x%x before and %d now", l->api, l->id, id);
		vf_count("refused:library-registration", 1);
		return id;
	}
	if (l->id) {
		VF_CHECK(id == l->id, "model:libtypes:id-not-stable", "%s() returned 0x%x before and 0x%x now (call %llu)", l->api, l->id, id, (unsigned long long) l->calls);
		vf_count("monitor:repeated-call-same-id", 1);
	} else {
		range_of(l->kind, &lo, &hi);
		VF_CHECK(id >= lo && id <= hi, "model:libtypes:id-outside-range", "%s() returned 0x%x, range of kind %s is 0x%x..0x%x", l->api, id, kindname[l->kind], lo, hi);
		check_unique(l->api, id, k);
		l->id = id;
		vf_count("monitor:library-type-registered", 1);
	}
	if (nt) {
		VF_CHECK(nt->name && !strcmp(nt->name, l->name), "model:libtypes:named-record", "%s(): record is named '%s'", l->api, nt->name ? nt->name : "(null)");
	}
	return id;
}
static void own_register(vf_rng *r)
{
	int kind = (int) vf_below(r, 4), id = -1, lo, hi;
	size_t size = 1 + vf_below(r, 900);
	const MPT_STRUCT(type_traits) *tp = 0;
	if (nown >= MAXOWN) return;
	switch (kind) {
	case KBasic:
		vf_at("mpt_type_basic_add");
		id = mpt_type_basic_add(size);
		break;
	case KGeneric: {
		MPT_STRUCT(type_traits) tmp = MPT_TYPETRAIT_INIT(size);
		memcpy(&own_traits[nown], &tmp, sizeof(tmp));
		tp = &own_traits[nown];
		vf_at("mpt_type_add");
		id = mpt_type_add(tp);
		break; }
	default: {
		const MPT_STRUCT(named_traits) *nt;
		char nm[32];
		snprintf(nm, sizeof(nm), "vf.lib.%d", nown);
		vf_at(kind == KIface ? "mpt_type_interface_add" : "mpt_type_metatype_add");
		nt = kind == KIface ? mpt_type_interface_add(vf_chance(r, 1, 2) ? nm : 0) : mpt_type_metatype_add(vf_chance(r, 1, 2) ? nm : 0);
		id = nt ? (int) nt->type : -1;
		size = sizeof(void *);
		break; }
	}
	vf_count("harness-registration", 1);
	vf_fp_u64(0x2000 + (uint64_t) kind * 1000 + size);
	if (id <= 0) { vf_count("refused:harness-registration", 1); return; }
	range_of(kind, &lo, &hi);
	VF_CHECK(id >= lo && id <= hi, "model:libtypes:id-outside-range", "harness registration of kind %s got 0x%x", kindname[kind], id);
	check_unique("harness registration", id, -1);
	own[nown].id = id; own[nown].kind = kind; own[nown].size = size; own[nown].traits = tp;
	nown++;
}

/* register harness types of one kind until the registry refuses */
static int fill_range(int kind)
{
	int n = 0;
	while (nown < MAXOWN) {
		const MPT_STRUCT(type_traits) *tp = 0;
		const MPT_STRUCT(named_traits) *nt;
		size_t size = 3 + (size_t) (n % 5);
		int id, lo, hi;
		switch (kind) {
		case KBasic: vf_at("mpt_type_basic_add"); id = mpt_type_basic_add(size); break;
		case KGeneric: {
			MPT_STRUCT(type_traits) tmp = MPT_TYPETRAIT_INIT(size);
			memcpy(&own_traits[nown], &tmp, sizeof(tmp));
			tp = &own_traits[nown];
			vf_at("mpt_type_add");
			id = mpt_type_add(tp);
			break; }
		case KIface: vf_at("mpt_type_interface_add"); nt = mpt_type_interface_add(0); id = nt ? (int) nt->type : -1; size = sizeof(void *); break;
		default: vf_at("mpt_type_metatype_add"); nt = mpt_type_metatype_add(0); id = nt ? (int) nt->type : -1; size = sizeof(void *); break;
		}
		if (id <= 0) break;
		range_of(kind, &lo, &hi);
		VF_CHECK(id >= lo && id <= hi, "model:libtypes:id-outside-range", "harness registration of kind %s got 0x%x", kindname[kind], id);
		check_unique("harness registration", id, -1);
		own[nown].id = id; own[nown].kind = kind; own[nown].size = size; own[nown].traits = tp;
		nown++; n++;
	}
	switch (kind) {
	case KBasic: vf_count("range-filled:basic", 1); break;
	case KGeneric: vf_count("range-filled:generic", 1); break;
	case KIface: vf_count("range-filled:interface", 1); break;
	default: vf_count("range-filled:metatype", 1);
	}
	return n;
}

uint64_t vf_cases(void) { return vf_thorough ? 6000 : 600; }

void vf_case(uint64_t idx, vf_rng *r)
{
	static int ran;
	volatile int marker = 0;
	pthread_attr_t at;
	void *sbase = 0;
	size_t ssize = 0;
	int nops, i, k, registered = 0, fill;
	char order[NLIB * 3 + 1] = "";

	if (ran++) vf_inconclusive("c06_libtypes needs batch=1 (one case per process)");
	if (!(own_traits = calloc(MAXOWN, sizeof(*own_traits)))) vf_inconclusive("out of memory");
	/* stack region of frames deeper than this one */
	if (pthread_getattr_np(pthread_self(), &at) || pthread_attr_getstack(&at, &sbase, &ssize)) vf_inconclusive("cannot determine the stack");
	pthread_attr_destroy(&at);
	stack_lo = (uintptr_t) sbase;
	frame_hi = (uintptr_t) &marker;
	if (frame_hi <= stack_lo || frame_hi > stack_lo + ssize) {
		/* locals live on ASan's fake stack: the real stack pointer bounds the live frames instead */
		frame_hi = (uintptr_t) __builtin_frame_address(0);
		if (frame_hi <= stack_lo || frame_hi > stack_lo + ssize) { stack_lo = 1; frame_hi = 0; vf_count("observe:stack-bounds-unknown", 1); }
	}
	(void) marker;

	vf_fp_u64(idx);
	nops = vf_range(r, 30, 160);
	fill = (idx % 12 == 6);   /* fill the generic range with harness types at some point: library registrations are refused then */
	/* names the library wants for itself ("mpt.rawdata" interface, "mpt.input" / "mpt.client" metatypes) are taken by
	 * the application first: the library's own registration is refused then; it must not invent an id, nor use the foreign one */
	if (idx % 12 == 5 || idx % 12 == 4) {
		for (k = 8; k < NLIB; k++) {
			const MPT_STRUCT(named_traits) *nt;
			if (idx % 12 == 4 && !vf_chance(r, 1, 2)) continue;
			if (nown >= MAXOWN) break;
			vf_at(lib[k].kind == KIface ? "mpt_type_interface_add" : "mpt_type_metatype_add");
			nt = lib[k].kind == KIface ? mpt_type_interface_add(lib[k].name) : mpt_type_metatype_add(lib[k].name);
			if (!nt) continue;
			check_unique("harness registration", (int) nt->type, -1);
			own[nown].id = (int) nt->type; own[nown].kind = lib[k].kind; own[nown].size = sizeof(void *); own[nown].traits = 0;
			nown++;
			vf_count("library-name-taken-first", 1);
			vf_fp_u64(0xa000 + (uint64_t) k);
		}
		for (i = 0; i < 3 * NLIB; i++) { k = (int) vf_below(r, NLIB); call_lib(k); look_lib(k); }
	}
	/* ranges exhausted by the application before the library registers anything of its own:
	 * every library registration is then an error or a fresh, unique id of the right size */
	if (idx % 12 >= 7) {
		int which = (int) (idx % 12) - 7;   /* 0..3 one range, 4 all four */
		int pre = (int) vf_below(r, 3);     /* some library types may exist already */
		while (pre-- > 0) { k = (int) vf_below(r, NLIB); call_lib(k); look_lib(k); }
		if (which < 4) fill_range(which);
		else { int o = (int) vf_below(r, 4), j; for (j = 0; j < 4; j++) fill_range((o + j) % 4); }
		vf_fp_u64(0x9000 + (uint64_t) which);
		for (k = 0; k < NLIB; k++) { int kk = (k + (int) (idx % NLIB)) % NLIB; call_lib(kk); stack_work(3, (uint8_t) k); look_lib(kk); }
		for (i = 0; i < nown; i++) look_own(i);
		vf_count("monitor:library-after-exhaustion", 1);
	}
	for (i = 0; i < nops; i++) {
		uint32_t w = vf_below(r, 100);
		if (w < 30) {
			k = (int) vf_below(r, NLIB);
			if (!lib[k].id && strlen(order) + 3 < sizeof(order)) snprintf(order + strlen(order), 4, "%x ", k);
			if (call_lib(k) > 0) { registered++; }
			if (vf_chance(r, 2, 3)) stack_work(vf_below(r, 12), (uint8_t) vf_u64(r));
			look_lib(k);
		} else if (w < 50) {
			own_register(r);
			if (nown) look_own((int) vf_below(r, (uint32_t) nown));
		} else if (w < 70) {
			stack_work(vf_below(r, 24), (uint8_t) vf_u64(r));
			vf_count("stack-work", 1);
		} else if (w < 72 && fill) {
			int n = 0;
			while (nown < MAXOWN && n < 2000) {
				MPT_STRUCT(type_traits) tmp = MPT_TYPETRAIT_INIT(3);
				int id;
				memcpy(&own_traits[nown], &tmp, sizeof(tmp));
				if ((id = mpt_type_add(&own_traits[nown])) <= 0) break;
				check_unique("harness registration", id, -1);
				own[nown].id = id; own[nown].kind = KGeneric; own[nown].size = 3; own[nown].traits = &own_traits[nown];
				nown++; n++;
			}
			vf_count("generic-range-filled", 1);
			fill = 0;
		} else {
			for (k = 0; k < NLIB; k++) look_lib(k);
			if (nown) look_own((int) vf_below(r, (uint32_t) nown));
		}
	}
	/* every convenience at least twice, then everything once more after stack work */
	for (k = 0; k < NLIB; k++) { call_lib(k); call_lib(k); }
	stack_work(40, 0xd7);
	for (k = 0; k < NLIB; k++) { look_lib(k); look_lib(k); }
	for (i = 0; i < nown; i++) look_own(i);
	for (k = 0, registered = 0; k < NLIB; k++) if (lib[k].id) registered++;
	vf_max("library-types-registered", (uint64_t) registered);
	if (registered >= 6 && nown >= 2) vf_nontrivial();
	if (idx % 7 == 0) vf_sample("library registrations history: %d ops, first-call order %s, %d library ids registered, %d harness ids; all ids looked up after stack work", nops, order, registered, nown);
}
