/*
 * C08: case generator shared by the C and the C++ leg.
 *
 * c08_case_make() draws (format string, name flag sets, document bytes) from
 * the PRNG: fixed and PRNG-built format strings, grammar-directed documents
 * for the active format, the same mutated, or random bytes.
 */
#ifndef C08_GEN_H
#define C08_GEN_H

#include "vf.h"

#ifdef __cplusplus
extern "C" {
#endif

typedef struct c08_case {
	char     fmt[32];       /* format description (printable copy) */
	char    *desc;          /* the same in a heap block of exactly strlen + 1 bytes: what the library is given */
	int      fmt_null;      /* pass NULL (library default) instead */
	int      type;          /* family character reported by mpt_parse_format() */
	int      known;         /* mpt_parse_next_fcn() knows the family */
	uint8_t  pf[16];        /* struct mpt_parser_format as filled by mpt_parse_format() */
	uint16_t sect, opt;     /* name flags, 0xff: library default */
	char     flags[16];     /* the same as mpt_parse_accept() string */
	uint8_t *doc;           /* document */
	size_t   len;
	int      kind;          /* 0 grammar, 1 grammar + mutation, 2 random bytes */
	int      longs;         /* tokens of 254.. / 65533.. bytes in the document */
} c08_case;

void c08_case_make(c08_case *c, vf_rng *r);
void c08_case_free(c08_case *c);

#ifdef __cplusplus
}
#endif
#endif /* C08_GEN_H */
