#!/usr/bin/env python3
"""C01 helper: run the bundled Python client's encoders (mpt.py of the tree
under test, $VERIF_REPO) as a co-process of harness/c01_python.c.

stdin : one request per line  "<cobs|command> <hex of message or ->"
stdout: one reply per line    "ok <hex of frame or ->"  |  "err <exception>"
"""
import importlib.util
import os
import sys


def main():
    repo = os.environ.get("VERIF_REPO", "/repo")
    spec = importlib.util.spec_from_file_location("mpt_client_under_test", os.path.join(repo, "mpt.py"))
    mod = importlib.util.module_from_spec(spec)
    spec.loader.exec_module(mod)
    enc = {"cobs": mod.encode_cobs, "command": mod.encode_command}
    out = sys.stdout
    out.write("ready\n")
    out.flush()
    for line in sys.stdin:
        w = line.split()
        if len(w) != 2 or w[0] not in enc:
            out.write("err request\n")
            out.flush()
            continue
        msg = bytearray() if w[1] == "-" else bytearray.fromhex(w[1])
        try:
            frame = bytes(enc[w[0]](msg))
            out.write("ok " + (frame.hex() or "-") + "\n")
        except Exception as e:  # noqa: BLE001 - report whatever the encoder raises
            out.write("err " + type(e).__name__ + "\n")
        out.flush()


if __name__ == "__main__":
    main()
