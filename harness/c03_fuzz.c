/*
 * C03 (thorough tier): coverage-guided byte streams through the monitored
 * decoder driver of c03_driver.h.  Byte 0 selects the decoder, bytes 1..2 the
 * delivery schedule (one call / byte-wise / PRNG cuts, fragmentation, space
 * granted per MissingBuffer, peeks, repeated calls); the rest is the stream.
 */
#include "c03_driver.h"

const char *vf_name = "c03_fuzz";
uint64_t vf_cases(void) { return 0; }
void vf_case(uint64_t idx, vf_rng *r) { (void) idx; (void) r; }

int LLVMFuzzerTestOneInput(const uint8_t *data, size_t size)
{
	dd_sched sc;
	dd_result res;
	vf_rng rng;
	uint64_t h = 0xcbf29ce484222325ULL;
	size_t n;

	if (size < 3) return 0;
	n = size - 3;
	if (n > 2400) n = 2400;
	memset(&sc, 0, sizeof(sc));
	sc.fmt = data[0] % RC_NFMT;
	sc.slack = (sc.fmt == RC_CMD) ? 2 + (data[0] >> 5) : (data[0] >> 5);
	sc.deliver = data[1] % 3;
	sc.frag = (data[1] >> 2) & 1;
	sc.mbk = 1 + (data[1] >> 4);
	sc.peeks = data[2] & 1;
	sc.again = (data[2] >> 1) & 1;
	for (size_t i = 0; i < size; i++) { h ^= data[i]; h *= 0x100000001b3ULL; }
	vf_seed_rng(&rng, h, data[2]);
	dd_run(&sc, data + 3, n, &rng, 1, &res);
	vf_count("fuzz:streams", 1);
	if (res.messages) vf_count("fuzz:streams-with-message", 1);
	if (res.errors) vf_count("fuzz:streams-with-error", 1);
	if (res.missing_buffer) vf_count("fuzz:streams-with-missing-buffer", 1);
	vf_count(dd_cnt_msg[sc.fmt], res.messages);
	vf_count(dd_cnt_err[sc.fmt], res.errors);
	return 0;
}
