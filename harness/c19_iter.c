/*
 * C19: value generators follow the iterator protocol and their formulas.
 *
 * Every source (created from text or directly) is driven through an
 * abstraction (read / advance / reset / clone) and compared with a protocol
 * model:
 *   reference walk   the documented loop (read; advance; stop at <= 0) on a
 *                    fresh source gives the element sequence S, |S| = L
 *   closed form      where the denotation is documented, L and S are
 *                    compared with the harness's own evaluation
 *   determinism      the same description created a second time (with a
 *                    differently filled stack) gives the same S
 *   interleaving     PRNG sequence of read/advance/reset/clone/consume with
 *                    model position p: read == S[p] bit-identical (or "end"
 *                    for p >= L); advance > 0 iff p+1 < L, == 0 at the last
 *                    element, <= 0 behind it; reset >= 0 and p = 0; a clone
 *                    walked on its own yields S[p..L)
 * Malformed descriptions: refusal or any source obeying the above, no fault.
 */
#define _GNU_SOURCE
#include <stdlib.h>
#include <stdarg.h>
#include <errno.h>
#include <math.h>
#include <float.h>
#include <limits.h>
#include <ctype.h>
#include <sys/uio.h>
#include <fcntl.h>
#include <unistd.h>

#include "meta.h"
#include "convert.h"
#include "types.h"
#include "array.h"
#include "message.h"
#include "values.h"
#include "vf.h"

const char *vf_name = "c19_iter";

/* ------------------------------------------------------------------ elements */
enum { StEnd = 0, StVal = 1, StErr = -1 };
typedef struct {
	int st;
	int isnum;
	double d;        /* numeric sources */
	uint64_t h;      /* text sources: hash of content */
	size_t len;
	char txt[40];    /* rendering */
} elem;

static uint64_t fnv(const void *p, size_t n)
{
	const uint8_t *b = p;
	uint64_t h = 0xcbf29ce484222325ULL;
	for (size_t i = 0; i < n; i++) { h ^= b[i]; h *= 0x100000001b3ULL; }
	return h;
}
static int elem_eq(const elem *a, const elem *b)
{
	if (a->st != b->st) return 0;
	if (a->st != StVal) return 1;
	if (a->isnum != b->isnum) return 0;
	if (a->isnum) return !memcmp(&a->d, &b->d, sizeof(double));
	return a->h == b->h && a->len == b->len;
}
static const char *elem_str(const elem *e)
{
	static char buf[4][64];
	static int n;
	char *s = buf[n++ & 3];
	if (e->st == StEnd) return "<end>";
	if (e->st == StErr) return "<error>";
	if (e->isnum) snprintf(s, 64, "%.17g", e->d);
	else snprintf(s, 64, "\"%s\"(%zu)", e->txt, e->len);
	return s;
}

/* ------------------------------------------------------------------- sources */
enum { KNum, KStr, KBuf, KFile };
#define MAXWALK 2600
typedef struct {
	MPT_INTERFACE(metatype) *mt;
	MPT_INTERFACE(iterator) *it;
	int kind;
	const char *api;      /* creating function */
	char desc[400];
} source;

static void src_bind(source *s, MPT_INTERFACE(metatype) *mt, int kind, const char *api)
{
	int r;
	s->mt = mt; s->kind = kind; s->api = api; s->it = 0;
	vf_at("metatype::convert");
	r = MPT_metatype_convert(mt, MPT_ENUM(TypeIteratorPtr), &s->it);
	VF_CHECK(r >= 0 && s->it, "model:create:no-iterator", "%s: source %s does not convert to an iterator (%d)", api, s->desc, r);
}
static void src_drop(source *s)
{
	if (!s->mt) return;
	vf_at("metatype::unref");
	s->mt->_vptr->unref(s->mt);
	s->mt = 0; s->it = 0;
}
static void src_read(source *s, elem *e)
{
	const MPT_STRUCT(value) *v;
	memset(e, 0, sizeof(*e));
	vf_at("iterator::value");
	v = s->it->_vptr->value(s->it);
	vf_count("iterator::value", 1);
	if (s->kind == KNum) {
		if (!v) { e->st = StEnd; return; }
		VF_CHECK(v->_type == 'd' && v->_addr, "model:value:type", "%s: %s: value() has type %d, expected 'd'", s->api, s->desc, v->_type);
		e->st = StVal; e->isnum = 1;
		memcpy(&e->d, v->_addr, sizeof(double));
		return;
	}
	if (s->kind == KBuf) {
		if (!v) { e->st = StEnd; return; }
		if (v->_type == 's') {
			const char *str = *(const char * const *) v->_addr;
			if (!str) { e->st = StErr; return; }
			e->len = strlen(str);
			e->h = fnv(str, e->len);
			snprintf(e->txt, sizeof(e->txt), "%.30s", str);
			e->st = StVal;
			return;
		}
		if (v->_type == MPT_type_toVector('c')) {
			const struct iovec *vec = v->_addr;
			e->len = vec->iov_len;
			e->h = fnv(vec->iov_base, e->len) ^ 0x55;   /* unterminated piece differs from a string */
			snprintf(e->txt, sizeof(e->txt), "%.*s", (int) (e->len < 30 ? e->len : 30), (const char *) vec->iov_base);
			e->st = StVal;
			return;
		}
		vf_fail("model:value:type", "%s: %s: buffer iterator value has type %d", s->api, s->desc, v->_type);
	}
	/* string iterator: the element converts the text at the current position */
	VF_CHECK(v && v->_type == MPT_ENUM(TypeConvertablePtr) && v->_addr, "model:value:type", "%s: %s: string iterator value is not a convertable", s->api, s->desc);
	{
		MPT_INTERFACE(convertable) *conv = *(MPT_INTERFACE(convertable) * const *) v->_addr;
		double d = 0;
		int r;
		vf_at("convertable::convert");
		r = conv->_vptr->convert(conv, 'd', &d);
		if (r > 0) { e->st = StVal; e->isnum = 1; e->d = d; }
		else if (!r || r == MPT_ERROR(MissingData)) e->st = StEnd;
		else e->st = StErr;
	}
}
static int src_advance(source *s)
{
	int r;
	vf_at("iterator::advance");
	r = s->it->_vptr->advance(s->it);
	vf_count("iterator::advance", 1);
	return r;
}
static int src_reset(source *s)
{
	int r;
	vf_at("iterator::reset");
	r = s->it->_vptr->reset(s->it);
	vf_count("iterator::reset", 1);
	return r;
}
static int src_clone(const source *s, source *c)
{
	MPT_INTERFACE(metatype) *mt;
	vf_at("metatype::clone");
	mt = s->mt->_vptr->clone(s->mt);
	vf_count("metatype::clone", 1);
	if (!mt) return 0;
	*c = *s;
	src_bind(c, mt, s->kind, s->api);
	return 1;
}

/* ----------------------------------------------------------- stack filling */
static void __attribute__((noinline)) fill_stack(int pattern)
{
	volatile char pad[6000];
	memset((void *) pad, pattern, sizeof(pad));
	__asm__ volatile ("" : : "r"(pad) : "memory");
}

/* ------------------------------------------------------------- expectation */
typedef struct {
	long L;              /* expected number of elements, -1: not claimed */
	int slack;           /* L may be one less/more (quotient next to an integer) */
	double *v;           /* expected values (min(L, MAXWALK)), NULL: not claimed */
	double *tol;         /* absolute tolerance per value (0: exact) */
	int must_create;     /* canonical form: refusal is a violation */
} expect;

static void expect_free(expect *x) { free(x->v); free(x->tol); x->v = x->tol = 0; }
static void expect_alloc(expect *x, long n)
{
	long k = n > MAXWALK ? MAXWALK : n;
	x->L = n;
	x->v = calloc(k + 1, sizeof(double));
	x->tol = calloc(k + 1, sizeof(double));
	if (!x->v || !x->tol) vf_inconclusive("out of memory");
}
static long expect_n(const expect *x) { return x->L > MAXWALK ? MAXWALK : x->L; }

/* linear: len values from a to b */
static void expect_linear(expect *x, long len, double a, double b)
{
	volatile double span = b - a;
	double m = fabs(a) > fabs(b) ? fabs(a) : fabs(b);
	x->L = len;
	if (!isfinite(a) || !isfinite(b) || !isfinite(span) || m > 1e300) return;   /* values not claimed (i * step may overflow by rounding) */
	expect_alloc(x, len);
	for (long i = 0; i < expect_n(x); i++) {
		x->v[i] = (double) ((long double) a + (long double) i * ((long double) b - a) / (len - 1));
		x->tol[i] = i ? 8 * DBL_EPSILON * m + DBL_MIN * 8 : 0;
	}
}
/* range: a + i*s */
static void expect_range(expect *x, double a, double b, double s)
{
	long double q = ((long double) b - a) / s;
	long n = (long) floorl(q);
	double m = fabs(a) > fabs(b) ? fabs(a) : fabs(b);
	if (fabsl(q - roundl(q)) < 1e-9L * (1 + fabsl(q))) { x->slack = 1; n = (long) roundl(q); }
	x->L = n + 1;
	if (m > 1e300) return;   /* next to the overflow threshold: values not claimed */
	expect_alloc(x, n + 1);
	for (long i = 0; i < expect_n(x); i++) {
		x->v[i] = (double) ((long double) a + (long double) i * s);
		x->tol[i] = i ? 8 * DBL_EPSILON * (m + fabs(i * s)) + DBL_MIN * 8 : 0;
	}
}
/* factor: init, base, base*f, ... (n + 1 values) */
static void expect_factor(expect *x, long n, double base, double f, double init)
{
	int edge = 0;
	expect_alloc(x, n + 1);
	for (long i = 0; i < expect_n(x); i++) {
		if (!i) { x->v[0] = init; x->tol[0] = 0; continue; }
		long double e = (long double) base * powl(f, i - 1);
		x->v[i] = (double) e;
		x->tol[i] = (i == 1) ? 0 : fabs(x->v[i]) * 1e-12;
		/* products that pass through the subnormal range or overflow lose their precision for good: not compared from there on */
		if (!isfinite(x->v[i]) || (x->v[i] != 0 && fabs(x->v[i]) < 1e-290) || fabs(x->v[i]) > 1e290 || x->v[i] == 0) edge = 1;
		if (edge) x->tol[i] = -1;
	}
}

/* ------------------------------------------------------------ protocol run */
static elem ref[MAXWALK + 2], ref2[MAXWALK + 2];
/* string iterator text with blanks behind the last element: advance() announces an element that has no value (finding in notes/C19.md) */
static int tail_not_claimed;

/* documented loop on a fresh source; returns number of elements, sets *open when the bound was hit */
static long ref_walk(source *s, elem *seq, int *open)
{
	long n = 0;
	*open = 0;
	for (;;) {
		elem e;
		int r;
		src_read(s, &e);
		if (e.st != StVal) {
			/* nothing (more) to read: for a fresh source L = 0 */
			if (n && e.st == StEnd && tail_not_claimed) { vf_count("string:phantom-element-behind-trailing-blank", 1); return -1 - n; }
			VF_CHECK(n == 0 || e.st == StErr, "model:walk:no-value-after-advance", "%s: %s: advance() reported a further element after %ld but value() has none", s->api, s->desc, n);
			if (e.st == StErr) return -1 - n;
			return n;
		}
		seq[n++] = e;
		if (vf_logging) vf_log("  [%ld] %s", n - 1, elem_str(&e));
		if (n >= MAXWALK) { *open = 1; return n; }
		r = src_advance(s);
		if (r < 0) {
			/* error while advancing: tokenisation/argument errors are not part of the claimed domain */
			return -1 - n;
		}
		if (!r) return n;
	}
}
static void check_expect(const source *s, const expect *x, const elem *seq, long L, int open)
{
	if (x->L < 0) return;
	if (!open) {
		long d = L - x->L;
		if (d < 0) d = -d;
		VF_CHECK(d <= x->slack, "model:closed-form:count", "%s: %s: yields %ld elements, description denotes %ld", s->api, s->desc, L, x->L);
		vf_count("monitor:closed-form-count", 1);
	} else {
		VF_CHECK(x->L >= L, "model:closed-form:count", "%s: %s: yields more than %ld elements, description denotes %ld", s->api, s->desc, L, x->L);
	}
	if (!x->v) return;
	for (long i = 0; i < L && i < expect_n(x); i++) {
		double got = seq[i].d, want = x->v[i], tol = x->tol[i];
		if (tol < 0) { vf_count("monitor:closed-form-skipped-range-edge", 1); continue; }
		vf_count("monitor:closed-form-values", 1);
		if (tol == 0) {
			if (got != want && !(isnan(got) && isnan(want)))
				vf_fail("model:closed-form:value", "%s: %s: element %ld is %.17g, expected exactly %.17g", s->api, s->desc, i, got, want);
		} else if (got != want && !(fabs(got - want) <= tol)) {
			vf_fail("model:closed-form:value", "%s: %s: element %ld is %.17g, expected %.17g (tolerance %.3g)", s->api, s->desc, i, got, want, tol);
		}
	}
}
/* walk an independent clone: must yield seq[p..L) then end */
static void check_clone(source *c, const elem *seq, long L, long p, int open)
{
	long i = p;
	for (;;) {
		elem e;
		int r;
		src_read(c, &e);
		if (i >= L) {
			if (!open) VF_CHECK(e.st == StEnd, "model:clone:sequence", "%s: %s: clone taken at %ld reads %s behind the end (L=%ld)", c->api, c->desc, p, elem_str(&e), L);
			break;
		}
		VF_CHECK(elem_eq(&e, &seq[i]), "model:clone:sequence", "%s: %s: clone taken at position %ld reads %s as element %ld, original sequence has %s", c->api, c->desc, p, elem_str(&e), i, elem_str(&seq[i]));
		vf_count("monitor:clone-elements", 1);
		r = src_advance(c);
		i++;
		if (i < L) VF_CHECK(r > 0, "model:clone:advance", "%s: %s: clone taken at %ld: advance to element %ld of %ld returned %d", c->api, c->desc, p, i, L, r);
		else if (!open) { VF_CHECK(r == 0, "model:clone:advance", "%s: %s: clone taken at %ld: advance behind the last element returned %d", c->api, c->desc, p, r); }
		if (i - p > 300 && i < L - 3) break;   /* long sources: prefix of the rest */
	}
}

/* string iterator: further reads of the current element in other target types (some are refused).  The
 * result of each read follows from the element's numeral; the element stays current whatever the outcome. */
static void str_extra_reads(source *s, const elem *cur, vf_rng *r)
{
	static const char types[] = "ybnqiufd";
	const MPT_STRUCT(value) *v;
	int n = 1 + (int) vf_below(r, 3);
	for (int i = 0; i < n; i++) {
		MPT_INTERFACE(convertable) *conv;
		/* integral target types only on lists of plain integer numerals: read as integer, "1.5" or "1e3" ends behind the
		 * integral prefix (the conversion delimits the element), which is not what is examined here */
		int plain = !strpbrk(s->desc, ".eEnN"), type = plain ? types[vf_below(r, 8)] : types[6 + vf_below(r, 2)], ret, fits;
		uint8_t buf[16];
		double d = cur->d;
		vf_at("iterator::value");
		v = s->it->_vptr->value(s->it);
		VF_CHECK(v && v->_type == MPT_ENUM(TypeConvertablePtr) && v->_addr, "model:value:type", "%s: %s: string iterator value is not a convertable", s->api, s->desc);
		conv = *(MPT_INTERFACE(convertable) * const *) v->_addr;
		memset(buf, 0x5a, sizeof(buf));
		vf_at("convertable::convert");
		ret = conv->_vptr->convert(conv, type, buf);
		vf_count("string:extra-reads", 1);
		if (vf_logging) vf_log("    extra read as '%c' -> %d", type, ret);
		/* integral targets: an integral numeral inside the target range converts, one outside is refused */
		fits = -1;
		if (d == floor(d) && fabs(d) < 1e15) {
			switch (type) {
			case 'y': fits = d >= 0 && d <= 255; break;
			case 'b': fits = d >= -128 && d <= 127; break;
			case 'n': fits = d >= -32768 && d <= 32767; break;
			case 'q': fits = d >= 0 && d <= 65535; break;
			case 'i': fits = d >= -2147483648.0 && d <= 2147483647.0; break;
			case 'u': fits = d >= 0 && d <= 4294967295.0; break;
			}
		}
		if (type == 'd') {
			VF_CHECK(ret > 0 && !memcmp(buf, &cur->d, 8), "model:value:replay", "%s: %s: repeated read of %s as 'd' gives %d", s->api, s->desc, elem_str(cur), ret);
		}
		else if (fits == 1 && plain) {
			/* list of plain integer numerals */
			long long got = 0;
			VF_CHECK(ret > 0, "model:value:conversion-refused", "%s: %s: element %s refused as '%c' (%d)", s->api, s->desc, elem_str(cur), type, ret);
			switch (type) { case 'y': got = buf[0]; break; case 'b': got = (int8_t) buf[0]; break; case 'n': { int16_t x; memcpy(&x, buf, 2); got = x; break; } case 'q': { uint16_t x; memcpy(&x, buf, 2); got = x; break; }
			case 'i': { int32_t x; memcpy(&x, buf, 4); got = x; break; } default: { uint32_t x; memcpy(&x, buf, 4); got = x; } }
			VF_CHECK((double) got == d, "model:value:conversion-value", "%s: %s: element %s read as '%c' gives %lld", s->api, s->desc, elem_str(cur), type, got);
			vf_count("string:extra-reads-accepted", 1);
		}
		else if (fits == 0 && plain) {
			VF_CHECK(ret < 0, "model:value:conversion-accepted-out-of-range", "%s: %s: element %s accepted as '%c' (%d)", s->api, s->desc, elem_str(cur), type, ret);
			vf_count("string:extra-reads-refused", 1);
		}
	}
}
/* PRNG interleaving on a source whose reference sequence is known */
static void interleave(source *s, const elem *seq, long L, int open, vf_rng *r, int steps)
{
	long p;
	int rr, fresh_read = 0;
	rr = src_reset(s);
	/* sources longer than the walk bound: the count returned by reset() may not fit an int (open point in the notes);
	 * the position is decided by the following reads */
	if (open && rr < 0) vf_count("reset:negative-on-long-source", 1);
	else VF_CHECK(rr >= 0, "model:reset:refused", "%s: %s: reset() returned %d", s->api, s->desc, rr);
	p = 0;
	for (int k = 0; k < steps; k++) {
		int op = (int) vf_below(r, 16);
		elem e;
		/* string iterator: an element is delimited by the conversion that reads it (advance without
		 * a read takes the whole remaining text as the element): advance only behind a read */
		if (s->kind == KStr && op >= 5 && op < 11 && !fresh_read) op = 0;
		if (s->kind != KNum && s->kind != KFile && op == 15) op = 0;   /* consume is for numeric sources */
		if (op >= 5 && !(op >= 13 && op < 15)) fresh_read = 0;
		if (op < 5) {
			fresh_read = 1;
			src_read(s, &e);
			if (vf_logging) vf_log("  p=%ld read -> %s", p, elem_str(&e));
			if (p < L) VF_CHECK(elem_eq(&e, &seq[p]), "model:value:replay", "%s: %s: value() at position %ld is %s, first walk had %s", s->api, s->desc, p, elem_str(&e), elem_str(&seq[p]));
			else if (!open) VF_CHECK(e.st == StEnd, "model:value:past-end", "%s: %s: value() behind the last of %ld elements gives %s", s->api, s->desc, L, elem_str(&e));
			vf_count("monitor:value-compared", 1);
			if (p >= L && !open) vf_count("state:read-past-end", 1);
			/* the same element once more in other target types; whatever the last outcome, it stays current */
			if (s->kind == KStr && p < L && e.st == StVal && vf_chance(r, 1, 2)) str_extra_reads(s, &seq[p], r);
		}
		else if (op < 11) {
			rr = src_advance(s);
			if (vf_logging) vf_log("  p=%ld advance -> %d", p, rr);
			if (p + 1 < L) { VF_CHECK(rr > 0, "model:advance:result", "%s: %s: advance() from position %ld of %ld returned %d", s->api, s->desc, p, L, rr); p++; }
			else if (open) { p = L; /* bound of the reference walk reached: stop comparing */ }
			else if (p + 1 == L) { VF_CHECK(rr == 0, "model:advance:result", "%s: %s: advance() from the last element (%ld of %ld) returned %d", s->api, s->desc, p, L, rr); p++; }
			else { VF_CHECK(rr <= 0, "model:advance:past-end", "%s: %s: advance() behind the end (%ld elements) returned %d", s->api, s->desc, L, rr); vf_count("state:advance-past-end", 1); }
			vf_count("monitor:advance-compared", 1);
			if (open && p >= L) { rr = src_reset(s); p = 0; }
		}
		else if (op < 13) {
			rr = src_reset(s);
			if (vf_logging) vf_log("  p=%ld reset -> %d", p, rr);
			if (open && rr < 0) vf_count("reset:negative-on-long-source", 1);
			else VF_CHECK(rr >= 0, "model:reset:refused", "%s: %s: reset() at position %ld returned %d", s->api, s->desc, p, rr);
			p = 0;
			vf_count("monitor:reset", 1);
		}
		else if (op < 15) {
			source c;
			/* string iterator with an element read but not yet advanced over: whether the clone starts with or
			 * behind that element is not documented (the library yields an empty clone, see notes) */
			if (s->kind == KStr && fresh_read) { vf_count("clone:skipped-string-after-read", 1); continue; }
			if (!src_clone(s, &c)) { vf_count("clone:unsupported", 1); continue; }
			if (vf_logging) vf_log("  p=%ld clone", p);
			check_clone(&c, seq, L, p, open);
			/* reset on the clone replays what reset on the original replays (a string iterator clone holds the rest of the text only) */
			if (s->kind != KStr && !open && vf_chance(r, 1, 2)) {
				int cr = src_reset(&c);
				if (cr >= 0) {
					if (vf_logging) vf_log("  clone reset -> %d", cr);
					check_clone(&c, seq, L, 0, open);
					vf_count("monitor:clone-reset-replays", 1);
				}
			}
			src_drop(&c);
			vf_count("monitor:clones-walked", 1);
			/* the original is where it was */
			src_read(s, &e);
			fresh_read = 1;
			if (p < L) VF_CHECK(elem_eq(&e, &seq[p]), "model:clone:disturbed-original", "%s: %s: after cloning at %ld the original reads %s instead of %s", s->api, s->desc, p, elem_str(&e), elem_str(&seq[p]));
		}
		else if (s->kind == KFile) {
			/* queries without destination do not move the source: the element they looked at is the one converted next */
			const MPT_STRUCT(value) *v;
			int how = (int) vf_below(r, 3);
			vf_at("iterator::value");
			v = s->it->_vptr->value(s->it);
			VF_CHECK(v != 0, "model:value:type", "%s: %s: file iterator without value", s->api, s->desc);
			if (how < 2) {
				vf_at("mpt_value_convert");
				rr = mpt_value_convert(v, 'd', 0);
				vf_count("file:query-without-destination", 1);
				if (vf_logging) vf_log("  p=%ld query 'd' without destination -> %d", p, rr);
				if (p < L) VF_CHECK(rr >= 0, "model:query:refused", "%s: %s: conversion query at position %ld of %ld returned %d", s->api, s->desc, p, L, rr);
				src_read(s, &e);
				if (p < L) VF_CHECK(elem_eq(&e, &seq[p]), "model:query:moved-source", "%s: %s: after a conversion query without destination position %ld reads %s, element is %s", s->api, s->desc, p, elem_str(&e), elem_str(&seq[p]));
				else if (!open) VF_CHECK(e.st == StEnd, "model:value:past-end", "%s: %s: value behind the end gives %s", s->api, s->desc, elem_str(&e));
			} else {
				/* consume without destination = advance */
				vf_at("mpt_iterator_consume");
				rr = mpt_iterator_consume(s->it, 'd', 0);
				vf_count("mpt_iterator_consume", 1);
				if (vf_logging) vf_log("  p=%ld consume without destination -> %d", p, rr);
				if (p < L) {
					VF_CHECK(rr >= 0, "model:consume:refused", "%s: %s: consume('d', NULL) at position %ld of %ld returned %d", s->api, s->desc, p, L, rr);
					p++;
					if (open && p >= L) { src_reset(s); p = 0; }
				} else if (!open) VF_CHECK(rr < 0, "model:consume:past-end", "%s: %s: consume('d', NULL) behind the end returned %d", s->api, s->desc, rr);
			}
		}
		else if (s->kind == KNum) {
			/* mpt_iterator_consume = read + advance */
			double d = -777;
			vf_at("mpt_iterator_consume");
			rr = mpt_iterator_consume(s->it, 'd', &d);
			vf_count("mpt_iterator_consume", 1);
			if (vf_logging) vf_log("  p=%ld consume -> %d (%.17g)", p, rr, d);
			if (p < L) {
				VF_CHECK(rr >= 0, "model:consume:refused", "%s: %s: consume('d') at position %ld of %ld returned %d", s->api, s->desc, p, L, rr);
				VF_CHECK(!memcmp(&d, &seq[p].d, sizeof(d)), "model:consume:value", "%s: %s: consume('d') at position %ld stored %.17g, element is %.17g", s->api, s->desc, p, d, seq[p].d);
				p++;
				if (open && p >= L) { rr = src_reset(s); p = 0; }
			} else if (!open) {
				VF_CHECK(rr < 0, "model:consume:past-end", "%s: %s: consume('d') behind the end returned %d", s->api, s->desc, rr);
				VF_CHECK(d == -777, "model:consume:past-end", "%s: %s: consume('d') behind the end stored %.17g", s->api, s->desc, d);
			}
		}
	}
}


/* consuming from a source directly behind its walk: refused, nothing stored - whatever the stack holds */
static const double consume_sentinel = -777.125;
static int consume_exhausted(source *s, int pattern, double *got)
{
	int rr;
	*got = consume_sentinel;
	fill_stack(pattern);
	vf_at("mpt_iterator_consume");
	rr = mpt_iterator_consume(s->it, 'd', got);
	vf_count("mpt_iterator_consume", 1);
	vf_count("monitor:consume-on-exhausted", 1);
	return rr;
}
/*
 * complete check of one description.  make() creates the source (NULL:
 * refused).  Returns 1 when a source was created.
 */
typedef MPT_INTERFACE(metatype) *(*maker)(void *arg);
static int run_source(const char *api, int kind, const char *desc, maker make, void *arg, const expect *x, vf_rng *r)
{
	source s, s2;
	MPT_INTERFACE(metatype) *mt;
	long L, L2;
	int open, open2, end_ret = 0;
	double end_got = 0;

	memset(&s, 0, sizeof(s));
	snprintf(s.desc, sizeof(s.desc), "%s", desc);
	vf_log("%s: %s", api, desc);
	fill_stack(0x00);
	vf_at(api);
	errno = 0;
	mt = make(arg);
	vf_count(api, 1);
	if (!mt) {
		vf_count("create:refused", 1);
		if (x && x->must_create) vf_fail("model:create:refused", "%s: well-formed description %s refused (errno %d)", api, desc, errno);
		/* refused a second time as well? */
		fill_stack(0xff);
		vf_at(api);
		mt = make(arg);
		if (mt) { mt->_vptr->unref(mt); vf_fail("model:create:nondeterministic", "%s: %s refused once and accepted once", api, desc); }
		return 0;
	}
	vf_count("create:accepted", 1);
	src_bind(&s, mt, kind, api);
	L = ref_walk(&s, ref, &open);
	if (L < 0) {
		/* error state reached by the documented loop: nothing further is claimed, only that nothing faults */
		vf_count("walk:ended-in-error", 1);
		if (x && x->must_create && x->L >= 0) vf_fail("model:walk:error", "%s: %s: walk of a well-formed description ended with an error after %ld elements", api, desc, -1 - L);
		src_drop(&s);
		return 1;
	}
	vf_log("  -> %ld elements%s", L, open ? " (bound reached)" : "");
	if (!L) vf_count("state:empty-source", 1);
	if (open) vf_count("state:walk-bound-reached", 1);
	vf_max("max:elements-walked", (uint64_t) L);
	if (x) check_expect(&s, x, ref, L, open);
	if (!open) {
		end_ret = consume_exhausted(&s, 0x00, &end_got);
		VF_CHECK(end_ret < 0, "model:consume:past-end", "%s: %s: consume('d') behind the walk of %ld elements returned %d (stored %.17g)", api, desc, L, end_ret, end_got);
		VF_CHECK(end_got == consume_sentinel, "model:consume:past-end", "%s: %s: consume('d') behind the walk returned %d but stored %.17g", api, desc, end_ret, end_got);
	}
	if (!open) {
		/* behind the end: reported, repeatedly */
		elem e;
		int rr;
		src_read(&s, &e);
		VF_CHECK(e.st == StEnd, "model:value:past-end", "%s: %s: value() after the walk of %ld elements gives %s", api, desc, L, elem_str(&e));
		rr = src_advance(&s);
		VF_CHECK(rr <= 0, "model:advance:past-end", "%s: %s: advance() after the walk of %ld elements returned %d", api, desc, L, rr);
		src_read(&s, &e);
		VF_CHECK(e.st == StEnd, "model:value:past-end", "%s: %s: value() after advancing behind the end gives %s", api, desc, elem_str(&e));
	}
	/* second creation with another stack content */
	fill_stack(0xa5);
	vf_at(api);
	mt = make(arg);
	VF_CHECK(mt != 0, "model:create:nondeterministic", "%s: %s accepted once and refused once", api, desc);
	s2 = s;
	src_bind(&s2, mt, kind, api);
	L2 = ref_walk(&s2, ref2, &open2);
	if (L2 == L && !open2 && !open) {
		double got2;
		int rr2 = consume_exhausted(&s2, 0xff, &got2);
		VF_CHECK(rr2 == end_ret && !memcmp(&got2, &end_got, sizeof(got2)), "model:consume:depends-on-uninitialised-memory", "%s: %s: consume('d') behind the walk gives %d / %.17g with a zero filled and %d / %.17g with a 0xff filled stack", api, desc, end_ret, end_got, rr2, got2);
	}
	VF_CHECK(L2 == L && open2 == open, "model:create:nondeterministic", "%s: %s: %ld elements on first, %ld on second creation", api, desc, L, L2);
	for (long i = 0; i < L; i++) VF_CHECK(elem_eq(&ref[i], &ref2[i]), "model:create:nondeterministic", "%s: %s: element %ld is %s on first and %s on second creation", api, desc, i, elem_str(&ref[i]), elem_str(&ref2[i]));
	vf_count("monitor:second-creation-compared", 1);
	src_drop(&s2);

	interleave(&s, ref, L, open, r, (int) (3 * (L > 40 ? 40 : L) + 3 + vf_below(r, 20)));
	src_drop(&s);
	return 1;
}

/* ------------------------------------------------------------ description text */
static char *numtxt(char *dst, size_t n, double v, vf_rng *r)
{
	switch (vf_below(r, 4)) {
	case 0: snprintf(dst, n, "%.17g", v); break;
	case 1: snprintf(dst, n, "%g", v); break;
	case 2: snprintf(dst, n, "%.3e", v); break;
	default: snprintf(dst, n, "%.10g", v);
	}
	/* a shortened spelling of a value next to DBL_MAX may round beyond the range of double; such a
	 * numeral is refused by the text conversion (C07: no silent saturation) and is not a well-formed
	 * description any more: spell those values exactly */
	if (isfinite(v) && !isfinite(strtod(dst, 0))) snprintf(dst, n, "%.17g", v);
	return dst;
}
static double pick_num(vf_rng *r, int wild)
{
	static const double special[] = { 0, 1, -1, 0.5, 2, 10, 1e-3, -2.5, 100, 1e10, -1e10, 1e-10, 3, 7 };
	static const double extreme[] = { 1e300, -1e300, 1e308, DBL_MAX, -DBL_MAX, DBL_MIN, 4.9e-324, 1e-300, INFINITY, -INFINITY, NAN };
	if (wild && vf_chance(r, 1, 3)) return extreme[vf_below(r, sizeof(extreme) / sizeof(*extreme))];
	if (vf_chance(r, 1, 2)) return special[vf_below(r, sizeof(special) / sizeof(*special))];
	return (vf_unit(r) - 0.5) * pow(10, vf_range(r, -6, 6));
}
static uint32_t pick_count(vf_rng *r)
{
	static const uint32_t c[] = { 0, 1, 2, 3, 4, 5, 10, 1000, 2500, 2600, 100000 };
	if (vf_chance(r, 1, 3)) return 1 + vf_below(r, 30);
	return c[vf_below(r, sizeof(c) / sizeof(*c))];
}
/* canonical: the spellings of the ctest invocations ("lin(4 : 1 2)", "fact(3:2e-2::1)"): nothing or one blank;
 * other white space (two blanks are refused by mpt_string_nextvis) may be refused */
static const char *sp(vf_rng *r, int canonical)
{
	static const char *s[] = { "", " ", "  ", "\t" };
	return canonical ? "" : s[vf_below(r, 4)];
}
static const char *sp1(vf_rng *r, int canonical)
{
	static const char *s[] = { "", " ", "  ", "\t" };
	return s[vf_below(r, canonical ? 2 : 4)];
}

static MPT_INTERFACE(metatype) *make_text(void *arg) { return mpt_iterator_create(arg); }

/* "lin(n : a b)" */
static void case_text_lin(vf_rng *r)
{
	static const char *names[] = { "lin", "linear", "LIN", "Linear" };
	char d[300], t1[40], t2[40];
	expect x = { -1, 0, 0, 0, 0 };
	uint32_t n = pick_count(r);
	int wild = vf_chance(r, 1, 6), canonical = vf_chance(r, 1, 2);
	double a = pick_num(r, wild), b = vf_chance(r, 1, 8) ? a : pick_num(r, wild);
	const char *name = names[canonical ? vf_below(r, 2) : vf_below(r, 4)];
	int defaults = vf_chance(r, 1, 8);

	numtxt(t1, sizeof(t1), a, r); numtxt(t2, sizeof(t2), b, r);
	a = strtod(t1, 0); b = strtod(t2, 0);
	if (defaults) snprintf(d, sizeof(d), "%s(%u)", name, n);
	else snprintf(d, sizeof(d), "%s%s(%s%u%s:%s%s %s%s)", name, sp(r, canonical), sp(r, canonical), n, sp1(r, canonical), sp1(r, canonical), t1, t2, sp(r, canonical));
	vf_fp(d, strlen(d)); vf_fp_u64(1);
	if (!defaults && n >= 1) {
		expect_linear(&x, (long) n + 1, a, b);
		x.must_create = canonical && isfinite(a) && isfinite(b);
	}
	if (run_source("mpt_iterator_create", KNum, d, make_text, d, &x, r) && x.v && n >= 2) vf_nontrivial();
	vf_count("text:linear", 1);
	expect_free(&x);
	vf_sample("mpt_iterator_create(\"%s\")", d);
}
/* "fact(n : base : f : init)" */
static void case_text_fact(vf_rng *r)
{
	static const char *names[] = { "fact", "factor", "fac", "FACT" };
	char d[300], t1[40], t2[40], t3[40];
	expect x = { -1, 0, 0, 0, 0 };
	uint32_t n = pick_count(r);
	int wild = vf_chance(r, 1, 6), canonical = vf_chance(r, 1, 2), form = (int) vf_below(r, 5);
	double base = pick_num(r, wild), f = vf_chance(r, 1, 4) ? pick_num(r, wild) : fabs(pick_num(r, 0)), init = pick_num(r, wild);
	const char *name = names[canonical ? 0 : vf_below(r, 4)];

	if (n == 100000) n = 1000;
	numtxt(t1, sizeof(t1), base, r); numtxt(t2, sizeof(t2), f, r); numtxt(t3, sizeof(t3), init, r);
	base = strtod(t1, 0); f = strtod(t2, 0); init = strtod(t3, 0);
	switch (form) {
	case 0: /* all arguments */
		snprintf(d, sizeof(d), "%s(%s%u%s:%s%s%s:%s%s%s:%s%s%s)", name, sp(r, canonical), n, sp(r, canonical), sp(r, canonical), t1, sp(r, canonical), sp(r, canonical), t2, sp(r, canonical), sp(r, canonical), t3, sp(r, canonical));
		if (f >= DBL_MIN && isfinite(f) && isfinite(base) && isfinite(init)) { expect_factor(&x, n, base, f, init); x.must_create = canonical; }
		break;
	case 1: /* factor defaults to base (documented), init given: the form of the `iter` test */
		snprintf(d, sizeof(d), "%s(%u:%s::%s)", name, n, t1, t3);
		if (base >= DBL_MIN && isfinite(base) && isfinite(init)) { expect_factor(&x, n, base, base, init); x.must_create = canonical; }
		break;
	case 2: /* base only: factor = base, init = 0 (documented defaults) */
		snprintf(d, sizeof(d), "%s(%u%s:%s%s)", name, n, sp(r, canonical), sp(r, canonical), t1);
		if (base >= DBL_MIN && isfinite(base)) { expect_factor(&x, n, base, base, 0); x.must_create = canonical; }
		break;
	case 3: /* base and factor */
		snprintf(d, sizeof(d), "%s(%u:%s:%s)", name, n, t1, t2);
		if (f >= DBL_MIN && isfinite(f) && isfinite(base)) { expect_factor(&x, n, base, f, 0); x.must_create = canonical; }
		break;
	default: /* count only: defaults not claimed */
		snprintf(d, sizeof(d), "%s(%u)", name, n);
	}
	vf_fp(d, strlen(d)); vf_fp_u64(2);
	if (run_source("mpt_iterator_create", KNum, d, make_text, d, &x, r) && x.v && n >= 2) vf_nontrivial();
	vf_count("text:factor", 1);
	expect_free(&x);
	vf_sample("mpt_iterator_create(\"%s\")", d);
}
/* "range(a b : s)" */
static void case_text_range(vf_rng *r)
{
	char d[300], t1[40], t2[40], t3[40];
	expect x = { -1, 0, 0, 0, 0 };
	int wild = vf_chance(r, 1, 5), canonical = vf_chance(r, 1, 2), nostep = vf_chance(r, 1, 6);
	double a = pick_num(r, wild), span, s, b;
	uint32_t n = pick_count(r);

	if (n > 3000) n = 3000;
	span = fabs(pick_num(r, wild));
	if (vf_chance(r, 1, 10)) span = 0;                       /* equal bounds */
	if (vf_chance(r, 1, 10)) span = -span;                   /* reversed */
	b = a + span;
	s = n ? span / n : span * 2;
	if (vf_chance(r, 1, 8)) s = pick_num(r, wild);
	if (vf_chance(r, 1, 4)) s *= 1 + (vf_unit(r) - 0.5) * 0.3; /* not a divisor */
	numtxt(t1, sizeof(t1), a, r); numtxt(t2, sizeof(t2), b, r); numtxt(t3, sizeof(t3), s, r);
	a = strtod(t1, 0); b = strtod(t2, 0); s = strtod(t3, 0);
	if (nostep) snprintf(d, sizeof(d), "range(%s %s)", t1, t2);
	else snprintf(d, sizeof(d), "range%s(%s%s %s%s:%s%s%s)", sp(r, canonical), sp(r, canonical), t1, t2, sp1(r, canonical), sp1(r, canonical), t3, sp(r, canonical));
	vf_fp(d, strlen(d)); vf_fp_u64(3);
	if (!nostep && isfinite(a) && isfinite(b) && isfinite(s) && b > a && s > 0) {
		volatile double sp_ = b - a;
		/* the library refuses steps above the span and below span * 1e-6; refusal is never a violation here */
		if (isfinite(sp_) && s <= sp_ && s >= sp_ * 1e-6 * 1.001) expect_range(&x, a, b, s);
	}
	if (run_source("mpt_iterator_create", KNum, d, make_text, d, &x, r) && x.v) vf_nontrivial();
	vf_count("text:range", 1);
	expect_free(&x);
	vf_sample("mpt_iterator_create(\"%s\")", d);
}
/* "v1 v2 ..." */
static MPT_INTERFACE(metatype) *make_values(void *arg) { return mpt_iterator_values(arg); }
static void case_text_values(vf_rng *r)
{
	char d[380], t[40];
	expect x = { -1, 0, 0, 0, 0 };
	int n = vf_range(r, 1, 12), direct = vf_chance(r, 1, 3), garbage = vf_chance(r, 1, 8);
	double vals[12];
	size_t l = 0;

	expect_alloc(&x, n);
	if (vf_chance(r, 1, 6)) l += snprintf(d + l, sizeof(d) - l, "%s", vf_chance(r, 1, 2) ? " " : "  ");
	for (int i = 0; i < n; i++) {
		double v = pick_num(r, vf_chance(r, 1, 10));
		if (isnan(v)) v = 4;    /* NaN elements are refused by the list iterator by design */
		if (!i && !isfinite(v)) v = -3;   /* "inf ..." is read as generator name by mpt_iterator_create */
		numtxt(t, sizeof(t), v, r);
		vals[i] = x.v[i] = strtod(t, 0);
		l += snprintf(d + l, sizeof(d) - l, "%s%s", i ? (vf_chance(r, 1, 5) ? "  " : " ") : "", t);
	}
	if (garbage) {
		/* malformed tail: only absence of faults and the protocol up to the error are claimed */
		static const char *junk[] = { " x", " 1e", " --3", " 0x", ",", " nan", " 1.2.3", " )" };
		l += snprintf(d + l, sizeof(d) - l, "%s", junk[vf_below(r, 8)]);
		expect_free(&x); x.L = -1;
	} else {
		x.must_create = 1;
		if (vf_chance(r, 1, 6)) l += snprintf(d + l, sizeof(d) - l, " ");   /* trailing space */
	}
	vf_fp(d, strlen(d)); vf_fp_u64(4 + direct);
	if (run_source(direct ? "mpt_iterator_values" : "mpt_iterator_create", KNum, d, direct ? make_values : make_text, d, &x, r) && n >= 2 && !garbage) vf_nontrivial();
	/* reading with mpt_iterator_consume only: a non-negative result means the numeral was stored */
	{
		source s;
		MPT_INTERFACE(metatype) *mt = mpt_iterator_values(d);
		if (mt) {
			memset(&s, 0, sizeof(s));
			snprintf(s.desc, sizeof(s.desc), "%s", d);
			src_bind(&s, mt, KNum, "mpt_iterator_values");
			for (int i = 0; i < n + 4; i++) {
				static const double sentinel = -777.125;
				double got = sentinel;
				int rr;
				vf_at("mpt_iterator_consume");
				rr = mpt_iterator_consume(s.it, 'd', &got);
				vf_count("mpt_iterator_consume", 1);
				if (vf_logging) vf_log("  consume %d -> %d (%.17g)", i, rr, got);
				if (rr < 0) {
					VF_CHECK(got == sentinel, "model:consume:stored-on-error", "mpt_iterator_values(\"%s\"): consume %d returned %d but stored %.17g", d, i, rr, got);
					break;
				}
				if (i < n) VF_CHECK(!memcmp(&got, &vals[i], sizeof(got)), "model:consume:value", "mpt_iterator_values(\"%s\"): consume %d returned %d and stored %.17g, numeral is %.17g", d, i, rr, got, vals[i]);
				else VF_CHECK(got != sentinel, "model:consume:value", "mpt_iterator_values(\"%s\"): consume %d returned %d without storing a value", d, i, rr);
				vf_count("monitor:consume-stored", 1);
			}
			src_drop(&s);
		}
	}
	vf_count("text:values", 1);
	expect_free(&x);
	vf_sample("%s(\"%s\")", direct ? "mpt_iterator_values" : "mpt_iterator_create", d);
}
/* mutated / malformed descriptions */
static void case_text_mutated(vf_rng *r)
{
	static const char *seeds[] = {
		"lin(4 : 1 2)", "fact(3:2e-2::1)", "range(0 1 : 0.25)", "1 2 3", "lin(10)", "fact(5:2:3:1)", "range(0 1)", "linear(2:0 1)", "factor(2:3)", "",
		"lin", "lin(", "lin()", "lin(3", "lin(3:", "lin(3:1", "lin(3:1 2", "fact(", "fact()", "fact( )", "fact(:2)", "fact(2:", "fact(2::", "fact(2:::)", "range(", "range()", "range(1", "range(1 2:", "range(1 1)", "range(1 1:0)",
		"range(0 inf)", "range(nan 1)", "range(0 1:nan)", "lin(3:nan 1)", "lin(3:inf -inf)", "fact(3:inf)", "fact(3:2:inf)", "fact(3:1e308:1e308)", "range(-inf inf)", "range(0 1e308:1e302)",
		"abcdefghijklmnopqrstuvwxyzabcdef(1)", "abcdefghijklmnopqrstuvwxyzabcde(1)", "foo(1)", "lin(-1:0 1)", "lin(4294967295:0 1)", "lin(4294967294:0 1)", "fact(4294967295:2)", "lin(99999999999:0 1)", "x", "(", ")", ":", " ", "lin 3", "1e400", "-", "+", ".", "1,2"
	};
	char d[200];
	size_t l;
	int muts = vf_range(r, 0, 3);

	snprintf(d, sizeof(d), "%s", seeds[vf_below(r, sizeof(seeds) / sizeof(*seeds))]);
	for (int m = 0; m < muts; m++) {
		static const char alphabet[] = "()::  0123456789.e-+naifxlrct\t";
		l = strlen(d);
		switch (vf_below(r, 4)) {
		case 0: if (l) { size_t p = vf_below(r, (uint32_t) l); memmove(d + p, d + p + 1, l - p); } break;              /* delete */
		case 1: if (l + 2 < sizeof(d)) { size_t p = vf_below(r, (uint32_t) l + 1); memmove(d + p + 1, d + p, l - p + 1); d[p] = alphabet[vf_below(r, sizeof(alphabet) - 1)]; } break;
		case 2: if (l) d[vf_below(r, (uint32_t) l)] = alphabet[vf_below(r, sizeof(alphabet) - 1)]; break;
		default: if (l) d[vf_below(r, (uint32_t) l)] = 0; break;                                                          /* truncate */
		}
	}
	vf_fp(d, strlen(d)); vf_fp_u64(6);
	if (vf_chance(r, 1, 40)) {
		vf_log("mpt_iterator_create(NULL)");
		if (run_source("mpt_iterator_create", KNum, "(null)", make_text, 0, 0, r)) vf_nontrivial();
	}
	else if (run_source("mpt_iterator_create", KNum, d, make_text, d, 0, r)) vf_nontrivial();
	vf_count("text:mutated", 1);
	vf_sample("mpt_iterator_create(\"%s\") [mutated]", d);
}

/* -------------------------------------------------------- direct constructors */
struct lin_arg { uint32_t len; double a, b, c; };
static MPT_INTERFACE(metatype) *make_linear(void *p) { struct lin_arg *a = p; return mpt_iterator_linear(a->len, a->a, a->b); }
static MPT_INTERFACE(metatype) *make_boundary(void *p) { struct lin_arg *a = p; return mpt_iterator_boundary(a->len, a->a, a->b, a->c); }
static void case_direct(vf_rng *r)
{
	struct lin_arg a;
	expect x = { -1, 0, 0, 0, 0 };
	char d[200];
	int bound = vf_chance(r, 1, 2), wild = vf_chance(r, 1, 5);

	memset(&a, 0, sizeof(a));   /* padding goes into the case fingerprint */

	a.len = pick_count(r);
	if (vf_chance(r, 1, 30)) a.len = vf_chance(r, 1, 2) ? UINT32_MAX : (uint32_t) INT32_MAX + vf_below(r, 3);
	a.a = pick_num(r, wild); a.b = pick_num(r, wild); a.c = pick_num(r, wild);
	vf_fp(&a, sizeof(a)); vf_fp_u64(7 + bound);
	if (bound) {
		snprintf(d, sizeof(d), "(%u, %.17g, %.17g, %.17g)", a.len, a.a, a.b, a.c);
		if (a.len >= 2) {
			expect_alloc(&x, a.len);
			for (long i = 0; i < expect_n(&x); i++) x.v[i] = !i ? a.a : (i == (long) a.len - 1) ? a.c : a.b;
			x.must_create = 1;
		}
		if (run_source("mpt_iterator_boundary", KNum, d, make_boundary, &a, &x, r) && a.len > 2) vf_nontrivial();
		if (a.len < 2) { MPT_INTERFACE(metatype) *m = mpt_iterator_boundary(a.len, 1, 2, 3); VF_CHECK(!m, "model:create:accepted", "mpt_iterator_boundary(%u) accepted", a.len); }
		vf_count("direct:boundary", 1);
		vf_sample("mpt_iterator_boundary%s", d);
	} else {
		snprintf(d, sizeof(d), "(%u, %.17g, %.17g)", a.len, a.a, a.b);
		if (a.len >= 2) { expect_linear(&x, a.len, a.a, a.b); x.must_create = 1; }
		if (run_source("mpt_iterator_linear", KNum, d, make_linear, &a, &x, r) && a.len > 2) vf_nontrivial();
		if (a.len < 2) { MPT_INTERFACE(metatype) *m = mpt_iterator_linear(a.len, 1, 2); VF_CHECK(!m, "model:create:accepted", "mpt_iterator_linear(%u) accepted", a.len); }
		vf_count("direct:linear", 1);
		vf_sample("mpt_iterator_linear%s", d);
	}
	expect_free(&x);
}
/* _mpt_iterator_linear/_factor/_range with arguments taken from another iterator */
struct val_arg { int which; const char *args; int from_string; };
static MPT_INTERFACE(metatype) *make_from_iter(void *p)
{
	struct val_arg *a = p;
	MPT_INTERFACE(metatype) *src, *ret;
	MPT_INTERFACE(iterator) *it = 0;
	MPT_STRUCT(value) val;
	if (!(src = a->from_string ? mpt_iterator_string(a->args, 0) : mpt_iterator_values(a->args))) return 0;
	MPT_metatype_convert(src, MPT_ENUM(TypeIteratorPtr), &it);
	MPT_value_set(&val, MPT_ENUM(TypeIteratorPtr), &it);
	ret = a->which == 0 ? _mpt_iterator_linear(&val) : a->which == 1 ? _mpt_iterator_factor(&val) : _mpt_iterator_range(&val);
	src->_vptr->unref(src);
	return ret;
}
static void case_from_iter(vf_rng *r)
{
	static const char *api[] = { "_mpt_iterator_linear", "_mpt_iterator_factor", "_mpt_iterator_range" };
	struct val_arg a;
	expect x = { -1, 0, 0, 0, 0 };
	char d[200];
	uint32_t n = 1 + vf_below(r, 12);
	double p1 = pick_num(r, 0), p2 = pick_num(r, 0), p3 = pick_num(r, 0);

	a.which = (int) vf_below(r, 3);
	switch (a.which) {
	case 0: snprintf(d, sizeof(d), "%u %.17g %.17g", n, p1, p2); expect_linear(&x, (long) n + 1, p1, p2); break;
	case 1:
		p2 = fabs(p2) + 0.001;
		snprintf(d, sizeof(d), "%u %.17g %.17g %.17g", n, p1, p2, p3);
		expect_factor(&x, n, p1, p2, p3);
		break;
	default:
		p2 = p1 + fabs(p2) + 0.01;
		p3 = (p2 - p1) / n;
		snprintf(d, sizeof(d), "%.17g %.17g %.17g", p1, p2, p3);
		p3 = strtod(strrchr(d, ' '), 0);
		expect_range(&x, p1, p2, p3);
	}
	a.args = d;
	a.from_string = vf_chance(r, 1, 2);
	if (a.from_string) {
		/* text arguments as mpt_object_set_string / configuration files hand them over: "4, 0, 2", "4   0   2" */
		static const char *seps[] = { " ", ", ", "   ", ",", ",  " };
		char tmp[200];
		const char *sp = seps[vf_below(r, 5)];
		size_t tl = 0;
		for (const char *c = d; *c && tl + 4 < sizeof(tmp); c++) {
			if (*c == ' ') tl += snprintf(tmp + tl, sizeof(tmp) - tl, "%s", sp);
			else tmp[tl++] = *c;
		}
		tmp[tl] = 0;
		snprintf(d, sizeof(d), "%s%s", vf_chance(r, 1, 4) ? "  " : "", tmp);
		vf_count("direct:from-string-iterator", 1);
	}
	vf_fp(d, strlen(d)); vf_fp_u64(10 + a.which + 16 * a.from_string);
	if (run_source(api[a.which], KNum, d, make_from_iter, &a, &x, r)) vf_nontrivial();
	vf_count("direct:from-iterator", 1);
	expect_free(&x);
	vf_sample("%s(values \"%s\")", api[a.which], d);
}

/* ------------------------------------------------------------ profile / poly */
struct prof_arg { _MPT_ARRAY_TYPE(double) arr; const char *desc; int direct_poly; };
static MPT_INTERFACE(metatype) *make_profile(void *p)
{
	struct prof_arg *a = p;
	return a->direct_poly ? mpt_iterator_poly(a->desc, &a->arr) : mpt_iterator_profile(&a->arr, a->desc);
}
static void case_profile(vf_rng *r)
{
	struct prof_arg a = { MPT_ARRAY_INIT, 0, 0 };
	expect x = { -1, 0, 0, 0, 0 };
	char d[300], t[6][40];
	long len = vf_chance(r, 1, 10) ? 1 : vf_range(r, 2, 30);
	int kind = (int) vf_below(r, 4), nogrid = 0;
	double *grid, c[6];
	const char *api = "mpt_iterator_profile";

	vf_at("mpt_values_prepare");
	if (!(grid = mpt_values_prepare(&a.arr, len))) vf_inconclusive("mpt_values_prepare(%ld) failed", len);
	for (long i = 0; i < len; i++) grid[i] = vf_chance(r, 1, 2) ? (double) i : pick_num(r, 0);
	for (int i = 0; i < 6; i++) { numtxt(t[i], sizeof(t[i]), pick_num(r, 0), r); c[i] = strtod(t[i], 0); }
	switch (kind) {
	case 0:
		snprintf(d, sizeof(d), "%s %s %s", vf_chance(r, 1, 2) ? "lin" : "linear", t[0], t[1]);
		if (len >= 2) { expect_linear(&x, len, c[0], c[1]); x.must_create = 1; }
		break;
	case 1:
		snprintf(d, sizeof(d), "%s %s %s %s", vf_chance(r, 1, 2) ? "bound" : "boundary", t[0], t[1], t[2]);
		if (len >= 2) {
			expect_alloc(&x, len);
			for (long i = 0; i < len; i++) x.v[i] = !i ? c[0] : (i == len - 1) ? c[2] : c[1];
			x.must_create = 1;
		}
		break;
	default: {
		/* polynomial without shifts: sum c_j x^(n-1-j); with shifts only the protocol */
		int nc = vf_range(r, 1, 5), shifts = vf_chance(r, 1, 4);
		size_t l = snprintf(d, sizeof(d), "poly");
		for (int j = 0; j < nc; j++) l += snprintf(d + l, sizeof(d) - l, " %s", t[j]);
		if (shifts) l += snprintf(d + l, sizeof(d) - l, " : %s", t[5]);
		a.direct_poly = kind == 3;
		if (a.direct_poly) { memmove(d, d + 5, strlen(d + 5) + 1); api = "mpt_iterator_poly"; nogrid = vf_chance(r, 1, 5); }
		if (!shifts && !nogrid) {
			expect_alloc(&x, len);
			for (long i = 0; i < len; i++) {
				long double sum = 0, mag = 0;
				for (int j = 0; j < nc; j++) { long double term = c[j] * powl(grid[i], nc - 1 - j); sum += term; mag += fabsl(term); }
				x.v[i] = (double) sum;
				x.tol[i] = (double) (mag * 1e-12L) + DBL_MIN;
			}
			x.must_create = 1;
		}
		if (nogrid) { mpt_array_clone(&a.arr, 0); }
		break; }
	}
	a.desc = d;
	vf_fp(d, strlen(d)); vf_fp(grid, nogrid ? 0 : len * sizeof(*grid)); vf_fp_u64(20 + kind);
	if (run_source(api, KNum, d, make_profile, &a, &x, r) && len > 2) vf_nontrivial();
	vf_count("direct:profile", 1);
	expect_free(&x);
	vf_at("mpt_array_clone");
	mpt_array_clone(&a.arr, 0);
	vf_sample("%s(grid of %ld, \"%s\")", api, nogrid ? 0 : len, d);
}

/* ------------------------------------------------------------- bulk fillers */
static void case_fill(vf_rng *r)
{
	long points = vf_chance(r, 1, 8) ? vf_range(r, -1, 1) : vf_range(r, 2, 40), ld = vf_range(r, 1, 4);
	double a = pick_num(r, 0), b = pick_num(r, 0), c = pick_num(r, 0);
	size_t n = points > 0 ? (size_t) ((points - 1) * ld + 1) : 0;
	double *t = vf_xalloc(n * sizeof(*t));
	static const double sentinel = -123456.789;
	int bound = vf_chance(r, 1, 2);

	vf_fp_u64(30 + bound); vf_fp_u64(points); vf_fp_u64(ld); vf_fp(&a, 8); vf_fp(&b, 8); vf_fp(&c, 8);
	for (size_t i = 0; i < n; i++) t[i] = sentinel;
	if (points > 2) vf_nontrivial();
	if (bound) {
		vf_log("mpt_values_bound(%ld, ld=%ld, %g, %g, %g)", points, ld, a, b, c);
		vf_at("mpt_values_bound");
		mpt_values_bound(points, n ? t : 0, ld, a, b, c);
		vf_count("mpt_values_bound", 1);
		for (size_t i = 0; i < n; i++) {
			double want = (i % ld) ? sentinel : !i ? a : (i == n - 1) ? c : b;
			if (points == 1) want = (a + b + c) / 3;
			VF_CHECK(t[i] == want, "model:values_bound:content", "mpt_values_bound(%ld, ld=%ld, %g, %g, %g): slot %zu is %.17g, expected %.17g", points, ld, a, b, c, i, t[i], want);
		}
	} else {
		double m = fabs(a) > fabs(b) ? fabs(a) : fabs(b);
		vf_log("mpt_values_linear(%ld, ld=%ld, %g, %g)", points, ld, a, b);
		vf_at("mpt_values_linear");
		mpt_values_linear(points, n ? t : 0, ld, a, b);
		vf_count("mpt_values_linear", 1);
		for (size_t i = 0; i < n; i++) {
			if (i % ld) { VF_CHECK(t[i] == sentinel, "model:values_linear:stride", "mpt_values_linear(%ld, ld=%ld): slot %zu between the strides was written (%.17g)", points, ld, i, t[i]); continue; }
			if (points == 1) { VF_CHECK(t[0] == a || t[0] == b, "model:values_linear:content", "mpt_values_linear(1, %g, %g) stored %.17g", a, b, t[0]); continue; }
			long k = (long) (i / ld);
			double want = (double) ((long double) a + (long double) k * ((long double) b - a) / (points - 1));
			if (!k) VF_CHECK(t[i] == a, "model:values_linear:content", "mpt_values_linear: first value %.17g, expected %.17g", t[i], a);
			else if (k == points - 1) VF_CHECK(t[i] == b, "model:values_linear:content", "mpt_values_linear: last value %.17g, expected %.17g", t[i], b);
			else VF_CHECK(fabs(t[i] - want) <= 8 * DBL_EPSILON * m + DBL_MIN, "model:values_linear:content", "mpt_values_linear(%ld, %g, %g): value %ld is %.17g, expected %.17g", points, a, b, k, t[i], want);
		}
	}
	vf_count("monitor:fill-slots", n);
	vf_xfree(t, n * sizeof(*t));
	vf_sample("%s(points=%ld, ld=%ld, %g, %g%s)", bound ? "mpt_values_bound" : "mpt_values_linear", points, ld, a, b, bound ? ", right" : "");
}

/* --------------------------------------------------- string / buffer iterators */
struct str_arg { const char *text, *sep; };
static MPT_INTERFACE(metatype) *make_string(void *p) { struct str_arg *a = p; return mpt_iterator_string(a->text, a->sep); }
static void case_string(vf_rng *r)
{
	struct str_arg a;
	char d[300], t[40];
	size_t l = 0;
	int n = vf_range(r, 0, 8);

	/*
	 * numeric lists: elements separated by one or several blanks, or by a comma with optional blanks
	 * behind it, optional leading blanks (the element conversion skips blanks in front of a number and
	 * ends the element behind it).  The list denotes its numerals in order.
	 */
	static const char *seps[] = { " ", " ", "  ", "   ", ",", ", ", ",  ", "\t" };
	static const char *lead[] = { "", "", " ", "  ", "\t " };
	expect x = { -1, 0, 0, 0, 0 };
	int trailing = vf_chance(r, 1, 8);
	d[0] = 0;
	if (n) {
		expect_alloc(&x, n);
		l += snprintf(d + l, sizeof(d) - l, "%s", lead[vf_below(r, 5)]);
	}
	int integers = vf_chance(r, 1, 2);
	for (int i = 0; i < n; i++) {
		double v = pick_num(r, 0);
		if (integers) {
			static const long long iv[] = { 0, 1, 7, 12, 127, 128, 255, 256, 300, 32767, 32768, 65535, 65536, 70000, -1, -5, -128, -129, -40000, 2147483647LL, 2147483648LL, 4294967295LL, 4294967296LL };
			snprintf(t, sizeof(t), "%lld", iv[vf_below(r, sizeof(iv) / sizeof(*iv))]);
		}
		else numtxt(t, sizeof(t), v, r);
		x.v[i] = strtod(t, 0);
		l += snprintf(d + l, sizeof(d) - l, "%s%s", i ? seps[vf_below(r, 8)] : "", t);
	}
	if (n) x.must_create = 1;
	if (n && trailing) {
		/* blanks behind the last element: whether they make a further (empty) element is not documented (see notes) */
		l += snprintf(d + l, sizeof(d) - l, " ");
		expect_free(&x); x.L = -1; x.must_create = 0;
		vf_count("string:trailing-blank", 1);
	}
	if (strstr(d, "  ") || strstr(d, ", ") || d[0] == ' ' || d[0] == '\t') vf_count("string:blank-runs", 1);
	a.text = (n || vf_chance(r, 1, 2)) ? d : 0;
	a.sep = vf_chance(r, 1, 2) ? 0 : " ,";
	vf_fp(d, strlen(d)); vf_fp_u64(40 + (a.text != 0));
	tail_not_claimed = n && trailing;
	if (run_source("mpt_iterator_string", KStr, a.text ? d : "(null)", make_string, &a, n ? &x : 0, r) && n >= 2) vf_nontrivial();
	tail_not_claimed = 0;
	expect_free(&x);
	vf_count("direct:string", 1);
	vf_sample("mpt_iterator_string(\"%s\")", d);
}
struct buf_arg { MPT_STRUCT(array) arr; int args; const char *words[10]; int nwords; int sep; };
static MPT_INTERFACE(metatype) *make_buffer(void *p)
{
	struct buf_arg *a = p;
	return a->args == 1 ? mpt_meta_arguments(&a->arr) : mpt_meta_buffer(&a->arr);
}
static MPT_INTERFACE(metatype) *make_message(void *p)
{
	struct buf_arg *a = p;
	MPT_STRUCT(message) msg = MPT_MESSAGE_INIT;
	struct iovec vec[10];
	char *blocks[10];
	MPT_INTERFACE(metatype) *mt;
	int i;
	/* words as message fragments, separated by `sep` */
	for (i = 0; i < a->nwords; i++) {
		size_t l = strlen(a->words[i]) + 1;
		blocks[i] = vf_xalloc(l);
		memcpy(blocks[i], a->words[i], l);
		blocks[i][l - 1] = (char) a->sep;
		if (!i) { msg.base = blocks[i]; msg.used = l; }
		else { vec[i - 1].iov_base = blocks[i]; vec[i - 1].iov_len = l; }
	}
	if (a->nwords > 1) { msg.cont = vec; msg.clen = a->nwords - 1; }
	mt = mpt_message_iterator(&msg, a->sep);
	for (i = 0; i < a->nwords; i++) vf_xfree(blocks[i], strlen(a->words[i]) + 1);
	return mt;
}
static void case_buffer(vf_rng *r)
{
	static const char *pool[] = { "a", "bc", "def", "1", "2.5", "x=1", "", "hello", "-", "word with space" };
	struct buf_arg a;
	expect x = { -1, 0, 0, 0, 0 };
	elem want[10];
	char d[300], data[200];
	size_t l = 0, dl = 0;
	int mode = (int) vf_below(r, 3), unterminated;

	memset(&a, 0, sizeof(a));
	a.nwords = vf_range(r, mode == 2 ? 1 : 0, 7);
	a.args = mode;
	a.sep = mode == 2 ? (vf_chance(r, 1, 2) ? 0 : ' ') : 0;
	unterminated = mode != 2 && a.nwords && vf_chance(r, 1, 5);
	l += snprintf(d, sizeof(d), "[");
	for (int i = 0; i < a.nwords; i++) {
		const char *w = pool[vf_below(r, mode == 2 ? 6 : 9)];
		a.words[i] = w;
		l += snprintf(d + l, sizeof(d) - l, "%s\"%s\"", i ? "," : "", w);
		memcpy(data + dl, w, strlen(w) + 1);
		dl += strlen(w) + 1;
	}
	if (unterminated && !*a.words[a.nwords - 1]) unterminated = 0;
	if (unterminated) dl--;
	l += snprintf(d + l, sizeof(d) - l, "]%s", unterminated ? " last unterminated" : "");
	vf_fp(data, dl); vf_fp_u64(50 + mode); vf_fp_u64(a.sep);
	if (mode != 2) {
		/* 'c' buffer holding the NUL separated words */
		MPT_STRUCT(buffer) *buf;
		vf_at("_mpt_buffer_alloc");
		if (!(buf = _mpt_buffer_alloc(dl, 0))) vf_inconclusive("_mpt_buffer_alloc(%zu) failed", dl);
		buf->_content_traits = mpt_type_traits('c');
		buf->_used = dl;
		memcpy(buf + 1, data, dl);
		a.arr._buf = buf;
	}
	(void) want; (void) x;
	if (run_source(mode == 0 ? "mpt_meta_buffer" : mode == 1 ? "mpt_meta_arguments" : "mpt_message_iterator", KBuf, d, mode == 2 ? make_message : make_buffer, &a, 0, r)) {
		if (a.nwords >= 2) vf_nontrivial();
		/* documented denotation: the words in order (mpt_meta_arguments: without the first) */
		long skip = mode == 1 ? 1 : 0, L = 0;
		int open;
		source s;
		memset(&s, 0, sizeof(s));
		snprintf(s.desc, sizeof(s.desc), "%s", d);
		MPT_INTERFACE(metatype) *again = mode == 2 ? make_message(&a) : make_buffer(&a);
		VF_CHECK(again != 0, "model:create:nondeterministic", "%s accepted before and refused now", d);
		src_bind(&s, again, KBuf, mode == 0 ? "mpt_meta_buffer" : mode == 1 ? "mpt_meta_arguments" : "mpt_message_iterator");
		L = ref_walk(&s, ref, &open);
		/* message iterator: how separators split the text is not documented, replay only */
		if (L >= 0 && mode != 2 && !(mode == 1 && a.nwords == 0)) {
			long wantL = a.nwords - skip;
			if (wantL < 0) wantL = 0;
			VF_CHECK(L == wantL, "model:closed-form:count", "%s: %s: yields %ld elements, buffer holds %ld", s.api, d, L, wantL);
			for (long i = 0; i < L; i++) {
				const char *w = a.words[i + skip];
				size_t wl = strlen(w);
				int last_unterm = unterminated && (i + skip == a.nwords - 1);
				uint64_t h = fnv(w, wl) ^ (last_unterm ? 0x55 : 0);
				VF_CHECK(ref[i].len == wl && ref[i].h == h, "model:closed-form:value", "%s: %s: element %ld is %s, buffer holds \"%s\"%s", s.api, d, i, elem_str(&ref[i]), w, last_unterm ? " (unterminated)" : "");
				vf_count("monitor:closed-form-values", 1);
			}
			vf_count("monitor:closed-form-count", 1);
		}
		src_drop(&s);
	}
	if (a.arr._buf) { vf_at("mpt_array_clone"); mpt_array_clone(&a.arr, 0); }
	vf_count("direct:buffer", 1);
	vf_sample("%s(%s%s)", mode == 0 ? "mpt_meta_buffer" : mode == 1 ? "mpt_meta_arguments" : "mpt_message_iterator", d, mode == 2 ? (a.sep ? ", sep ' '" : ", sep 0") : "");
}


/* ------------------------------------------------------------- file iterators */
struct file_arg { const char *path; int mode; _MPT_ARRAY_TYPE(double) arr; };
static MPT_INTERFACE(metatype) *make_file(void *p)
{
	struct file_arg *a = p;
	if (a->mode == 0) return mpt_iterator_filename(a->path);
	if (a->mode == 1) {
		int fd = open(a->path, O_RDONLY);
		MPT_INTERFACE(metatype) *mt;
		if (fd < 0) return 0;
		if (!(mt = mpt_iterator_file(fd))) close(fd);
		return mt;
	}
	{
		char desc[300];
		snprintf(desc, sizeof(desc), "file %s", a->path);
		return mpt_iterator_profile(&a->arr, desc);
	}
}
static void case_file(vf_rng *r)
{
	static const char *seps[] = { " ", "\n", "  ", "\t", " \n" };
	struct file_arg a = { 0, 0, MPT_ARRAY_INIT };
	char path[64], content[600], d[700], t[40];
	expect x = { -1, 0, 0, 0, 0 };
	int n = vf_range(r, 1, 12), trailing = vf_chance(r, 1, 6), fd;
	size_t l = 0;
	static const char *apis[] = { "mpt_iterator_filename", "mpt_iterator_file", "mpt_iterator_profile" };

	expect_alloc(&x, n);
	for (int i = 0; i < n; i++) {
		double v = pick_num(r, 0);
		numtxt(t, sizeof(t), v, r);
		x.v[i] = strtod(t, 0);
		l += snprintf(content + l, sizeof(content) - l, "%s%s", i ? seps[vf_below(r, 5)] : "", t);
	}
	x.must_create = 1;
	if (trailing) {
		/* white space behind the last numeral: advance() announces an element that cannot be read (finding in the notes) */
		l += snprintf(content + l, sizeof(content) - l, "\n");
		expect_free(&x); x.L = -1; x.must_create = 0;
	}
	/* one name per process (a violation leaves the process before the unlink below) */
	snprintf(path, sizeof(path), "/tmp/vf-c19-file-%ld", (long) getpid());
	if ((fd = open(path, O_WRONLY | O_CREAT | O_TRUNC, 0600)) < 0 || write(fd, content, l) != (ssize_t) l) vf_inconclusive("cannot write temporary file");
	close(fd);
	a.path = path;
	a.mode = (int) vf_below(r, 3);
	if (a.mode == 2) {
		double *grid = mpt_values_prepare(&a.arr, 3);
		if (!grid) vf_inconclusive("mpt_values_prepare failed");
	}
	snprintf(d, sizeof(d), "%s:", trailing ? "file with trailing newline" : "file");
	for (size_t i = 0, dl = strlen(d); i < l && dl + 2 < sizeof(d); i++) { d[dl++] = content[i] == '\n' ? '|' : content[i] == '\t' ? '_' : content[i]; d[dl] = 0; }
	vf_fp(content, l); vf_fp_u64(60 + a.mode);
	tail_not_claimed = trailing;
	if (run_source(apis[a.mode], KFile, d, make_file, &a, &x, r) && n >= 2 && !trailing) vf_nontrivial();
	tail_not_claimed = 0;
	if (a.mode == 2) mpt_array_clone(&a.arr, 0);
	unlink(path);
	expect_free(&x);
	vf_count("direct:file", 1);
	vf_sample("%s(%s)", apis[a.mode], d);
}

/* ------------------------------------------------------------------- entry */
static const struct { void (*fcn)(vf_rng *); unsigned weight; } kinds[] = {
	{ case_text_lin, 5 }, { case_text_fact, 5 }, { case_text_range, 4 }, { case_text_values, 4 }, { case_text_mutated, 5 },
	{ case_direct, 4 }, { case_from_iter, 2 }, { case_profile, 4 }, { case_fill, 2 }, { case_string, 2 }, { case_buffer, 3 }, { case_file, 3 }
};
#define NKINDS (sizeof(kinds) / sizeof(*kinds))

uint64_t vf_cases(void) { return vf_thorough ? 3000000 : 200000; }

void vf_case(uint64_t idx, vf_rng *r)
{
	unsigned total = 0, pick;
	(void) idx;
	for (size_t i = 0; i < NKINDS; i++) total += kinds[i].weight;
	pick = vf_below(r, total);
	for (size_t i = 0; i < NKINDS; i++) {
		if (pick < kinds[i].weight) { kinds[i].fcn(r); return; }
		pick -= kinds[i].weight;
	}
}
