/*
 * C06 (C++ leg): registry through mpt::type_traits::add / add_basic /
 * add_interface / add_metatype / get and the type_properties<T> templates of
 * types.h (ids obtained once per C++ type, cached, described by sizeof(T)).
 *
 * One history per process (batch=1).  Monitor: std::map id -> description;
 * ids unique and inside the range of their kind, lookups stable, sizes equal
 * sizeof of the C++ type, built-in ids of the template specialisations.
 */
#include <map>
#include <string>
#include <vector>
#include <cstring>
#include <sys/uio.h>

#include "types.h"
#include "array.h"
#include "meta.h"
#include "collection.h"
#include "values.h"
#include "layout.h"
#include "io.h"
#include "vf.h"

const char *vf_name = "c06_cxx";

struct desc {
	int kind;            /* 0 basic, 1 generic, 2 interface, 3 metatype */
	size_t size;
	std::string name;
	bool named;
	bool ops;            /* init/fini expected non-null */
	bool ops_unknown;    /* library type: operations not compared */
};
static std::map<int, desc> model;
static vf_rng *grng;
static int accepted, refused;

struct TA { char x[3]; };
struct TB { double d; int i; TB() : d(1), i(2) { } };
struct TC { char buf[1000]; };
struct TD { long double e; };
template <int N> struct TN { char b[N + 1]; };

static void check_id(const char *what, int id, int lo, int hi)
{
	VF_CHECK(id >= lo && id <= hi, "cxx:register:id-outside-range", "%s returned 0x%x, range 0x%x..0x%x", what, id, lo, hi);
	VF_CHECK(!model.count(id), "cxx:register:id-handed-out-twice", "%s returned 0x%x again", what, id);
}
static void lookup(int id)
{
	vf_at("type_traits::get");
	const mpt::type_traits *t = mpt::type_traits::get(id);
	vf_count("type_traits::get(id)", 1);
	auto it = model.find(id);
	if (it == model.end()) return;
	VF_CHECK(t, "cxx:get:registered-id-missing", "type_traits::get(0x%x) is NULL", id);
	VF_CHECK(t->size == it->second.size, "cxx:get:size", "type_traits::get(0x%x)->size = %zu, type has %zu", id, t->size, it->second.size);
	if (it->second.ops_unknown) { }
	else if (it->second.ops) VF_CHECK(t->init && t->fini, "cxx:get:operations-missing", "type_traits::get(0x%x) has no init/fini for a class type", id);
	else VF_CHECK(!t->init && !t->fini, "cxx:get:operations-changed", "type_traits::get(0x%x) has init/fini for a plain type", id);
	vf_count("monitor:traits-compared", 1);
	if (it->second.named) {
		vf_at("type_traits::get(name)");
		const mpt::named_traits *nt = mpt::type_traits::get(it->second.name.c_str());
		VF_CHECK(nt && (int) nt->type == id, "cxx:get:name-to-id", "type_traits::get('%s') -> 0x%x, expected 0x%x", it->second.name.c_str(), nt ? (int) nt->type : 0, id);
		VF_CHECK(nt->name && it->second.name == nt->name, "cxx:get:name-changed", "record of 0x%x is named '%s'", id, nt->name ? nt->name : "(null)");
		vf_count("monitor:name-to-id", 1);
	}
}
static void all_lookups()
{
	for (auto &e : model) lookup(e.first);
}

/* id of a C++ type through the template machinery */
template <typename T>
static void use_type(const char *tn, bool is_class, bool expect_room)
{
	static bool seen;   /* per C++ type */
	if (!seen) {
		seen = true;
		/* a non-registering query before the first registering one must not spoil the type */
		if (grng && vf_chance(grng, 1, 2)) {
			vf_at("type_properties::id(false)");
			int peek = mpt::type_properties<T>::id(false);
			VF_CHECK(peek < 0, "cxx:type_properties:peek-has-id", "type_properties<%s>::id(false) = 0x%x before any registration", tn, peek);
			vf_count("monitor:peek-before-first-registration", 1);
			int first = mpt::type_properties<T>::id(true);
			if (expect_room) VF_CHECK(first > 0, "cxx:type_properties:refused-after-peek", "type_properties<%s>::id(true) = %d after id(false), the generic range has room", tn, first);
		}
	}
	vf_at("type_properties::id");
	int first = mpt::type_properties<T>::id(true);
	vf_count("type_properties::id", 1);
	vf_log("type_properties<%s>::id(true) -> 0x%x", tn, first);
	vf_fp_u64(0x7000 + sizeof(T));
	if (first < 0) {
		refused++;
		if (expect_room) vf_count("observe:refused-below-capacity", 1);
		vf_count("refused:type_properties", 1);
		return;
	}
	if (!model.count(first) || model[first].name != std::string("T:") + tn) {
		check_id(tn, first, mpt::_TypeValueAdd, mpt::_TypeValueMax);
		desc d = { 1, sizeof(T), std::string("T:") + tn, false, is_class };
		model[first] = d;
		accepted++;
	}
	/* cached: same id again, also without permission to register */
	int again = mpt::type_properties<T>::id(true);
	int peek = mpt::type_properties<T>::id(false);
	VF_CHECK(again == first && peek == first, "cxx:type_properties:id-not-stable", "type_properties<%s>::id: 0x%x, then 0x%x / 0x%x", tn, first, again, peek);
	const mpt::type_traits *t = mpt::type_properties<T>::traits();
	VF_CHECK(t && t->size == sizeof(T), "cxx:type_properties:size", "type_properties<%s>::traits()->size = %zu, sizeof = %zu", tn, t ? t->size : 0, sizeof(T));
	const mpt::type_traits *g = mpt::type_traits::get(first);
	VF_CHECK(g && g->size == sizeof(T), "cxx:get:size", "type_traits::get(0x%x)->size = %zu, sizeof(%s) = %zu", first, g ? g->size : 0, tn, sizeof(T));
	vf_count("monitor:template-type-compared", 1);
}
template <typename T>
static void builtin_type(const char *tn, int id, size_t size)
{
	int got = mpt::type_properties<T>::id(true);
	VF_CHECK(got == id, "cxx:type_properties:builtin-id", "type_properties<%s>::id = 0x%x, expected 0x%x", tn, got, id);
	const mpt::type_traits *t = mpt::type_properties<T>::traits();
	VF_CHECK(t, "cxx:type_properties:builtin-missing", "type_properties<%s>::traits() is NULL (id 0x%x)", tn, id);
	VF_CHECK(t->size == size, "cxx:type_properties:builtin-size", "type_properties<%s>::traits()->size = %zu, C++ type has %zu", tn, t->size, size);
	vf_count("monitor:builtin-compared", 1);
}
static void builtins()
{
	builtin_type<int8_t>("int8_t", 'b', 1); builtin_type<uint8_t>("uint8_t", 'y', 1);
	builtin_type<int16_t>("int16_t", 'n', 2); builtin_type<uint16_t>("uint16_t", 'q', 2);
	builtin_type<int32_t>("int32_t", 'i', 4); builtin_type<uint32_t>("uint32_t", 'u', 4);
	builtin_type<int64_t>("int64_t", 'x', 8); builtin_type<uint64_t>("uint64_t", 't', 8);
	builtin_type<float>("float", 'f', sizeof(float)); builtin_type<double>("double", 'd', sizeof(double));
	builtin_type<long double>("long double", 'e', sizeof(long double));
	builtin_type<char>("char", 'c', 1); builtin_type<const char *>("const char *", 's', sizeof(char *));
	builtin_type<mpt::value>("value", mpt::TypeValue, sizeof(mpt::value));
	builtin_type<mpt::convertable *>("convertable *", mpt::TypeConvertablePtr, sizeof(void *));
	builtin_type<mpt::iterator *>("iterator *", mpt::TypeIteratorPtr, sizeof(void *));
	builtin_type<mpt::buffer *>("buffer *", mpt::TypeBufferPtr, sizeof(void *));
	builtin_type<mpt::array>("array", mpt::TypeArray, sizeof(mpt::array));
	/* vectors of built-in scalars use the vector ids and are iovec compatible */
	builtin_type<mpt::span<const double> >("span<const double>", 'D', sizeof(struct iovec));
	builtin_type<mpt::span<const uint8_t> >("span<const uint8_t>", 'Y', sizeof(struct iovec));
	builtin_type<mpt::span<const char> >("span<const char>", 'C', sizeof(struct iovec));
	VF_CHECK(sizeof(mpt::span<const double>) == sizeof(struct iovec), "cxx:span:not-iovec-sized", "sizeof(span) = %zu", sizeof(mpt::span<const double>));
}

static int op_add(vf_rng *r)
{
	static std::vector<mpt::type_traits *> keep;
	size_t size = 1 + vf_below(r, 5000);
	mpt::type_traits *t = new mpt::type_traits(size);
	keep.push_back(t);
	vf_at("type_traits::add");
	int id = mpt::type_traits::add(*t);
	vf_count("type_traits::add", 1);
	vf_fp_u64(0x100000 + size);
	vf_log("type_traits::add(size %zu) -> 0x%x", size, id);
	if (id < 0) { refused++; vf_count("refused:add", 1); return id; }
	check_id("type_traits::add", id, mpt::_TypeValueAdd, mpt::_TypeValueMax);
	desc d = { 1, size, "", false, false };
	model[id] = d;
	accepted++;
	lookup(id);
	return id;
}
static int op_basic(vf_rng *r)
{
	size_t size = 1 + vf_below(r, 300);
	vf_at("type_traits::add_basic");
	int id = mpt::type_traits::add_basic(size);
	vf_count("type_traits::add_basic", 1);
	vf_fp_u64(0x200000 + size);
	vf_log("type_traits::add_basic(%zu) -> 0x%x", size, id);
	if (id < 0) { refused++; vf_count("refused:add_basic", 1); return id; }
	check_id("type_traits::add_basic", id, mpt::_TypeDynamicBase, mpt::_TypeDynamicMax);
	desc d = { 0, size, "", false, false };
	model[id] = d;
	accepted++;
	lookup(id);
	return id;
}
static int op_named(vf_rng *r, bool meta)
{
	static const char *pool[] = { "", "cx", "cxa", "cxab", "cxabc", "cxabcd", "cx.type", "cx.type.long.name.0123456789", "logger", "metatype", "cxab" };
	const char *name = vf_chance(r, 1, 4) ? 0 : pool[vf_below(r, 11)];
	const char *api = meta ? "type_traits::add_metatype" : "type_traits::add_interface";
	bool dup = false;
	/* a name held by both kinds resolves to either: keep the two name spaces apart in this leg */
	if (name && ((meta && !strcmp(name, "logger")) || (!meta && !strcmp(name, "metatype")))) name = 0;
	std::string full = name ? std::string(name) : std::string();
	if (name && strlen(name) >= 4 && strcmp(name, "logger") && strcmp(name, "metatype")) full += meta ? ".m" : ".i";
	if (name) {
		for (auto &e : model) if (e.second.named && e.second.name == full) dup = true;
		if (full == "logger" || full == "metatype") dup = true;   /* built-in of the same kind */
	}
	char *blk = 0;
	if (name) { blk = static_cast<char *>(vf_xalloc(full.size() + 1)); memcpy(blk, full.c_str(), full.size() + 1); }
	vf_at(api);
	const mpt::named_traits *nt = meta ? mpt::type_traits::add_metatype(blk) : mpt::type_traits::add_interface(blk);
	vf_count(api, 1);
	vf_fp_u64((meta ? 0x400000 : 0x300000) + (name ? full.size() : 77));
	vf_log("%s(%s) -> %s 0x%x", api, name ? full.c_str() : "NULL", nt ? "record" : "NULL", nt ? (int) nt->type : 0);
	if (blk) { memset(blk, '#', full.size()); vf_xfree(blk, full.size() + 1); }
	if (name && full.size() < 4) {
		VF_CHECK(!nt, "cxx:register:accepted-short-name", "%s('%s') accepted", api, full.c_str());
		refused++; vf_count("refused:short-name", 1);
		return -1;
	}
	if (name && dup) {
		VF_CHECK(!nt, "cxx:register:accepted-duplicate-name", "%s('%s') accepted as 0x%x", api, full.c_str(), nt ? (int) nt->type : 0);
		refused++; vf_count("refused:duplicate-name", 1);
		return -1;
	}
	if (!nt) { refused++; vf_count(meta ? "refused:add_metatype" : "refused:add_interface", 1); return -1; }
	int id = (int) nt->type;
	if (meta) check_id(api, id, mpt::_TypeMetaPtrBase + 1, mpt::_TypeMetaPtrMax);
	else check_id(api, id, mpt::_TypeInterfaceAdd, mpt::_TypeInterfaceMax);
	VF_CHECK(name ? (nt->name && full == nt->name) : !nt->name, "cxx:register:record-name", "%s('%s') returned record named '%s'", api, name ? full.c_str() : "(null)", nt->name ? nt->name : "(null)");
	VF_CHECK(nt->traits.size == sizeof(void *), "cxx:register:record-size", "%s: record traits size %zu", api, nt->traits.size);
	desc d = { meta ? 3 : 2, sizeof(void *), full, name != 0, false };
	model[id] = d;
	accepted++;
	lookup(id);
	return id;
}

/* ------------------------------------------------------------------------
 * ids the C++ library registers for itself (lazily, cached in function
 * statics): metatype pointer types "generic", "basic", "mpt.layout",
 * "mpt.graph" (anonymous fallback when the name is taken), value<T> pointer
 * types (type_properties<config_item>::id is declared inline in config.h but
 * defined in libmpt++ only and cannot be used from outside).  One C++ type has one id: stable over repeated queries,
 * and only the first query adds an entry to the registry.
 */
struct libtype {
	const char *what;
	const char *wanted;   /* name the library asks for, 0: anonymous */
	int kind;             /* 1 generic, 2 interface, 3 metatype */
	size_t size;
	const char *site;     /* counter name: one per registration site */
	int id;               /* 0: not known yet */
	unsigned queries;
};
/* every lazily registering site of the C++ layer (see notes/C06.md for the list and how it was derived) */
static libtype libs[] = {
	{ "metatype::generic *",       "generic",    3, sizeof(void *), "site:metatype::generic::pointer_traits", 0, 0 },
	{ "metatype::basic *",         "basic",      3, sizeof(void *), "site:metatype::basic::pointer_traits", 0, 0 },
	{ "layout *",                  "mpt.layout", 3, sizeof(void *), "site:layout::pointer_traits", 0, 0 },
	{ "layout::graph *",           "mpt.graph",  3, sizeof(void *), "site:layout::graph::pointer_traits", 0, 0 },
	{ "metatype::value<double> *", 0,            3, sizeof(void *), "site:metatype::value<T>::pointer_traits", 0, 0 },
	{ "metatype::value<TB> *",     0,            3, sizeof(void *), "site:metatype::value<T>::pointer_traits", 0, 0 },
	{ "group *",                   "mpt.group",  2, sizeof(void *), "site:group::pointer_traits", 0, 0 },
	{ "io::interface *",           "mpt.io",     2, sizeof(void *), "site:io::interface::get_traits", 0, 0 },
	{ "point<float>",              0,            1, sizeof(mpt::point<float>), "site:type_properties<point<float>>::id", 0, 0 },
	{ "point<double>",             0,            1, sizeof(mpt::point<double>), "site:type_properties<point<double>>::id", 0, 0 }
};
#define NLIBS ((int) (sizeof(libs) / sizeof(*libs)))
static bool name_taken[NLIBS];

static int count_entries(int kind)
{
	int n = 0;
	if (kind == 3) {
		for (int id = mpt::_TypeMetaPtrBase; id <= mpt::_TypeMetaPtrMax; id++) if (mpt::mpt_metatype_traits(id)) n++;
	} else if (kind == 2) {
		for (int id = mpt::_TypeInterfaceBase; id <= mpt::_TypeInterfaceMax; id++) if (mpt::mpt_interface_traits(id)) n++;
	} else {
		for (int id = mpt::_TypeValueAdd; id <= mpt::_TypeValueMax; id++) if (mpt::type_traits::get(id)) n++;
	}
	return n;
}
static int id_of(const mpt::named_traits *nt) { return nt ? (int) nt->type : -1; }
/* one query of library type k through one of its access paths; returns the id (<= 0: none) */
static int lib_query(int k, int path)
{
	switch (k) {
	case 0:
		switch (path % 4) {
		case 0: return mpt::type_properties<mpt::metatype::generic *>::id(true);
		case 1: return id_of(mpt::metatype::generic::pointer_traits(true));
		case 2: {
			const mpt::type_traits *t = mpt::type_properties<mpt::metatype::generic *>::traits();
			if (t) VF_CHECK(t->size == sizeof(void *), "cxx:libtype:size", "type_properties<metatype::generic *>::traits()->size = %zu", t->size);
			return mpt::type_properties<mpt::metatype::generic *>::id(true);
		}
		default: {
			/* conversion of a generic metatype to a non-trivial type asks for the id internally */
			int32_t v = 42; int64_t out = 0;
			mpt::metatype::generic *g = mpt::metatype::generic::create('i', &v);
			if (!g) return mpt::type_properties<mpt::metatype::generic *>::id(true);
			int r = g->convert('x', &out);
			VF_CHECK(r >= 0 && out == 42, "cxx:libtype:conversion", "generic('i' 42)->convert('x') = %d, value %lld", r, (long long) out);
			/* id(false) only peeks (a site may keep a cache of its own): ask properly */
			int me = mpt::type_properties<mpt::metatype::generic *>::id(true);
			if (me > 0) {
				mpt::metatype::generic *self = 0;
				r = g->convert((mpt::type_t) me, &self);
				VF_CHECK(r >= 0 && self == g, "cxx:libtype:conversion", "generic metatype converted to its own pointer type 0x%x: return %d, %s", me, r, self == g ? "ok" : "other object");
				vf_count("monitor:conversion-through-library-id", 1);
			}
			g->unref();
			return me;
		}
		}
	case 1:
		switch (path % 3) {
		case 0: return mpt::type_properties<mpt::metatype::basic *>::id(true);
		case 1: return id_of(mpt::metatype::basic::pointer_traits(true));
		default: {
			mpt::metatype::basic *b = mpt::metatype::basic::create("text");
			int me = mpt::type_properties<mpt::metatype::basic *>::id(true);
			if (b && me > 0) {
				mpt::metatype::basic *self = 0;
				int r = b->convert((mpt::type_t) me, &self);
				VF_CHECK(r >= 0 && self == b, "cxx:libtype:conversion", "basic metatype converted to its own pointer type 0x%x: return %d", me, r);
				vf_count("monitor:conversion-through-library-id", 1);
			}
			if (b) b->unref();
			return me;
		}
		}
	case 2: return id_of(mpt::layout::pointer_traits(true));
	case 3: return id_of(mpt::layout::graph::pointer_traits(true));
	case 4:
		if (path & 1) return id_of(mpt::metatype::value<double>::pointer_traits(true));
		return mpt::type_properties<mpt::metatype::value<double> *>::id(true);
	case 5: return id_of(mpt::metatype::value<TB>::pointer_traits(true));
	case 6:
		switch (path % 4) {
		case 0: return mpt::type_properties<mpt::group *>::id(true);
		case 1: return id_of(mpt::group::pointer_traits(true));
		case 2: {
			const mpt::type_traits *t = mpt::type_properties<mpt::group *>::traits();
			if (t) VF_CHECK(t->size == sizeof(void *), "cxx:libtype:size", "type_properties<group *>::traits()->size = %zu", t->size);
			return mpt::type_properties<mpt::group *>::id(true);
		}
		default: {
			/* an item group hands itself out as group through that id */
			mpt::item_group *ig = new mpt::item_group;
			int me = mpt::type_properties<mpt::group *>::id(true);
			if (me > 0) {
				mpt::group *gp = 0;
				int r = ig->convert((mpt::type_t) me, &gp);
				VF_CHECK(r >= 0 && gp == static_cast<mpt::group *>(ig), "cxx:libtype:conversion", "item_group converted to group pointer type 0x%x: return %d, %s", me, r, gp ? "other object" : "no pointer");
				vf_count("monitor:conversion-through-library-id", 1);
			}
			ig->unref();
			return me;
		}
		}
	case 7:
		switch (path % 3) {
		case 0: return mpt::type_properties<mpt::io::interface *>::id(true);
		case 1: return id_of(mpt::io::interface::get_traits());
		default: {
			const mpt::type_traits *t = mpt::type_properties<mpt::io::interface *>::traits();
			if (t) VF_CHECK(t->size == sizeof(void *), "cxx:libtype:size", "type_properties<io::interface *>::traits()->size = %zu", t->size);
			return mpt::type_properties<mpt::io::interface *>::id(true);
		}
		}
	case 8:
		if (path & 1) {
			const mpt::type_traits *t = mpt::type_properties<mpt::point<float> >::traits();
			if (t) VF_CHECK(t->size == sizeof(mpt::point<float>), "cxx:libtype:size", "type_properties<point<float>>::traits()->size = %zu", t->size);
		}
		return mpt::type_properties<mpt::point<float> >::id(true);
	default:
		return mpt::type_properties<mpt::point<double> >::id(true);
	}
}
/* non-registering query of library type k: the id if it is known to that access path, else <= 0; -1000: site has none */
static int lib_peek(int k, int path)
{
	switch (k) {
	case 0: return (path & 1) ? id_of(mpt::metatype::generic::pointer_traits(false)) : mpt::type_properties<mpt::metatype::generic *>::id(false);
	case 1: return (path & 1) ? id_of(mpt::metatype::basic::pointer_traits(false)) : mpt::type_properties<mpt::metatype::basic *>::id(false);
	case 2: return id_of(mpt::layout::pointer_traits(false));
	case 3: return id_of(mpt::layout::graph::pointer_traits(false));
	case 4:
		switch (path % 3) {
		case 0: return mpt::type_properties<mpt::metatype::value<double> *>::id(false);
		case 1: return id_of(mpt::metatype::value<double>::pointer_traits(false));
		default: {
			/* a conversion of the holder asks for the id without registering */
			mpt::metatype *m = mpt::metatype::create<double>(1.5);
			float f = 0;
			int r = m->convert('f', &f);
			VF_CHECK(r >= 0 && f == 1.5f, "cxx:libtype:conversion", "metatype::value<double>(1.5)->convert('f') = %d, value %g", r, f);
			m->unref();
			return mpt::type_properties<mpt::metatype::value<double> *>::id(false);
		}
		}
	case 5: return (path & 1) ? id_of(mpt::metatype::value<TB>::pointer_traits(false)) : mpt::type_properties<mpt::metatype::value<TB> *>::id(false);
	case 6: return (path & 1) ? id_of(mpt::group::pointer_traits(false)) : mpt::type_properties<mpt::group *>::id(false);
	case 7: return mpt::type_properties<mpt::io::interface *>::id(false);
	default: return -1000;   /* point<T>: every call registers */
	}
}
/* entries a range can hold (interface ids 0x89..0x8f are never handed out) */
static bool has_room(int kind, int entries)
{
	return kind == 2 ? entries < 9 + 48 : entries < 1792;
}
static void op_lib(vf_rng *r, bool room)
{
	int k = (int) vf_below(r, NLIBS), path = (int) vf_below(r, 12);
	libtype &l = libs[k];
	int before[4], delta[4], other = 0;
	for (int c = 1; c <= 3; c++) before[c] = count_entries(c);
	if (vf_chance(r, 1, 3)) {
		vf_at(l.site + 5);
		int peek = lib_peek(k, path);
		if (peek != -1000) {
			for (int c = 1; c <= 3; c++) other += count_entries(c) - before[c];
			vf_log("library type %s peek path %d -> %d", l.what, path, peek);
			VF_CHECK(!other, "cxx:libtype:extra-registration", "non-registering query of %s (-> %d) added %d registry entries", l.what, peek, other);
			if (peek > 0) VF_CHECK(l.id && peek == l.id, "cxx:libtype:id-not-stable", "non-registering query of %s gives 0x%x, id known so far: 0x%x", l.what, peek, l.id);
			vf_count(l.id ? "monitor:peek-after-registration" : "monitor:peek-before-first-registration", 1);
			vf_fp_u64(0x580000 + (uint64_t) k * 16 + (uint64_t) path);
			other = 0;
		}
	}
	vf_at(l.site + 5);
	int id = lib_query(k, path);
	for (int c = 1; c <= 3; c++) { delta[c] = count_entries(c) - before[c]; if (c != l.kind) other += delta[c]; }
	vf_count("library-type-query", 1);
	vf_count(l.site, 1);
	vf_fp_u64(0x500000 + (uint64_t) k * 16 + (uint64_t) path);
	vf_log("library type %s path %d -> 0x%x (entries added: generic %d, interface %d, metatype %d)", l.what, path, id, delta[1], delta[2], delta[3]);
	l.queries++;
	if (id <= 0) {
		VF_CHECK(!l.id, "cxx:libtype:id-not-stable", "id of %s was 0x%x, query %u gives %d", l.what, l.id, l.queries, id);
		VF_CHECK(!delta[l.kind] && !other, "cxx:libtype:extra-registration", "query of %s that yields no id (%d) added registry entries: generic %d, interface %d, metatype %d", l.what, id, delta[1], delta[2], delta[3]);
		/* every site of this table falls back to an anonymous registration: with room in the range it has to get an id,
		 * whatever was asked before (a non-registering query must not spoil the type) */
		VF_CHECK(!has_room(l.kind, before[l.kind]), "cxx:libtype:refused-with-room",
		         "registering query %u of %s gives %d although its range holds only %d entries", l.queries, l.what, id, before[l.kind]);
		refused++;
		vf_count("refused:library-type", 1);
		if (room) vf_count("observe:refused-below-capacity", 1);
		return;
	}
	if (!l.id) {
		int lo = l.kind == 3 ? mpt::_TypeMetaPtrBase + 1 : l.kind == 2 ? (int) mpt::_TypeInterfaceAdd : (int) mpt::_TypeValueAdd;
		int hi = l.kind == 3 ? mpt::_TypeMetaPtrMax : l.kind == 2 ? (int) mpt::_TypeInterfaceMax : (int) mpt::_TypeValueMax;
		check_id(l.what, id, lo, hi);
		VF_CHECK(delta[l.kind] == 1 && !other, "cxx:libtype:extra-registration",
		         "first query of %s (id 0x%x) added registry entries: generic %d, interface %d, metatype %d; one C++ type stands for one id", l.what, id, delta[1], delta[2], delta[3]);
		l.id = id;
		bool named = l.wanted && !name_taken[k];
		desc d = { l.kind == 3 ? 3 : l.kind == 2 ? 2 : 1, l.size, named ? l.wanted : "", named, false, true };
		model[id] = d;
		accepted++;
		vf_count("monitor:library-type-first-query", 1);
		if (l.wanted && name_taken[k]) vf_count("monitor:library-type-name-was-taken", 1);
	} else {
		VF_CHECK(id == l.id, "cxx:libtype:id-not-stable", "id of %s was 0x%x, query %u (path %d) gives 0x%x", l.what, l.id, l.queries, path, id);
		VF_CHECK(!delta[l.kind] && !other, "cxx:libtype:extra-registration", "repeated query of %s (id 0x%x) added registry entries: generic %d, interface %d, metatype %d", l.what, id, delta[1], delta[2], delta[3]);
		vf_count("monitor:library-type-repeated-query", 1);
	}
	lookup(id);
}
/* the application registers the names the library wants for itself, first (same kind: the library's named registration is refused) */
static void take_names(vf_rng *r, bool all)
{
	for (int k = 0; k < NLIBS; k++) {
		if (!libs[k].wanted || !(all || vf_chance(r, 1, 2))) continue;
		bool meta = libs[k].kind == 3;
		vf_at(meta ? "type_traits::add_metatype" : "type_traits::add_interface");
		const mpt::named_traits *nt = meta ? mpt::type_traits::add_metatype(libs[k].wanted) : mpt::type_traits::add_interface(libs[k].wanted);
		vf_count(meta ? "type_traits::add_metatype" : "type_traits::add_interface", 1);
		vf_fp_u64(0x600000 + (uint64_t) k);
		if (!nt) { refused++; continue; }
		if (meta) check_id("type_traits::add_metatype", (int) nt->type, mpt::_TypeMetaPtrBase + 1, mpt::_TypeMetaPtrMax);
		else check_id("type_traits::add_interface", (int) nt->type, mpt::_TypeInterfaceAdd, mpt::_TypeInterfaceMax);
		desc d = { meta ? 3 : 2, sizeof(void *), libs[k].wanted, true, false, false };
		model[(int) nt->type] = d;
		name_taken[k] = true;
		accepted++;
		vf_count("library-name-taken-first", 1);
	}
}

uint64_t vf_cases(void) { return vf_thorough ? 4000 : 400; }

void vf_case(uint64_t idx, vf_rng *r)
{
	static int ran;
	if (ran++) vf_inconclusive("c06_cxx needs batch=1 (one case per process)");
	model.clear();
	accepted = refused = 0;
	grng = r;
	vf_fp_u64(idx);
	int mode = (int) (idx % 8);   /* 5: fill the generic range before the templates ask for ids; 6, 7: library types */
	int nops = vf_range(r, 20, 200);
	bool filled = false, metafull = false;
	if (mode == 0) builtins();
	if (mode == 5) {
		int pre = (int) vf_below(r, 4), n = 0;
		if (pre > 0) use_type<TA>("TA", true, true);
		if (pre > 1) use_type<TA *>("TA *", false, true);
		while (op_add(r) >= 0) n++;
		vf_max("capacity:generic", (uint64_t) n + (pre > 0) + (pre > 1));
		filled = true;
		all_lookups();
		vf_count("exhausted:generic", 1);
	}
	if (mode >= 6) {
		/* mode 6: every wanted name is taken before the library's first query, 7: PRNG subset */
		take_names(r, mode == 6);
		/* a range filled by the application first: the library gets no id there, and must not invent one */
		if (idx % 32 >= 30) {
			while (mpt::type_traits::add_metatype(0)) { }
			metafull = true;
			vf_count("exhausted:metatype", 1);
		}
		if (idx % 32 == 14 || idx % 32 == 31) {
			while (mpt::type_traits::add_interface(0)) { }
			metafull = true;
			vf_count("exhausted:interface", 1);
		}
		if (idx % 32 == 22) {
			while (op_add(r) >= 0) { }
			metafull = filled = true;
			vf_count("exhausted:generic", 1);
		}
		for (int i = 0; i < 24; i++) op_lib(r, !metafull);
	}
	for (int i = 0; i < nops; i++) {
		if (mode >= 6 && vf_chance(r, 1, 2)) { op_lib(r, !metafull); continue; }
		switch (vf_below(r, 16)) {
		case 0: op_add(r); break;
		case 1: op_basic(r); break;
		case 2: op_named(r, false); break;
		case 3: op_named(r, true); break;
		case 4: use_type<TA>("TA", true, !filled); break;
		case 5: use_type<TB>("TB", true, !filled); break;
		case 6: use_type<TC>("TC", true, !filled); break;
		case 7: use_type<TD>("TD", true, !filled); break;
		case 8: use_type<TA *>("TA *", false, !filled); break;
		case 9: use_type<TB *>("TB *", false, !filled); break;
		case 10: use_type<mpt::span<TA> >("span<TA>", false, !filled); break;
		case 11: use_type<mpt::span<const TB> >("span<const TB>", false, !filled); break;
		case 12: use_type<TN<7> >("TN<7>", true, !filled); use_type<TN<8> >("TN<8>", true, !filled); break;
		case 13: builtins(); break;
		default:
			if (!model.empty()) {
				auto it = model.begin();
				std::advance(it, vf_below(r, (uint32_t) model.size()));
				lookup(it->first);
			}
			lookup((int) vf_below(r, 0x1100));
		}
	}
	builtins();
	all_lookups();
	if (accepted >= 3 && (refused >= 1 || mode == 0)) vf_nontrivial();
	if (idx % 7 == 0) vf_sample("C++ history mode %d: %d ops, %d ids registered (templates, add, add_basic, add_interface, add_metatype), %d refused; all ids looked up at the end", mode, nops, accepted, refused);
}
