/*
 * C12 leg (e): the requester side of the reply protocol, mpt_stream_sync.
 *
 * A stream (COBS, read/write buffered) on one end of a blocking socketpair is
 * the requester, used the way mpt++/io_stream.cpp uses it: for every request a
 * reply id is reserved in a wait table (mpt_command_reserve) and bound to a
 * handler, the request [id][payload] is pushed and flushed.  The harness is
 * also the peer on the other end: it reads the request frames and answers
 * ALL outstanding requests, in or out of order, with [id | 0x80][body], the
 * body naming the request it answers.  Then mpt_stream_sync(srm, idlen, &wait,
 * -1) is called once: with every reply already in the socket it has to hand
 * each reply to the handler waiting for that id, exactly once, and return.
 * Several rounds per case on the same stream and wait table (ids get reused).
 *
 * Bounded progress: a CPU-time alarm (the call spins) or a wall-clock alarm
 * (the call blocks although every reply was delivered to the socket) ends the
 * case as a violation.
 */
#include <stdlib.h>
#include <unistd.h>
#include <fcntl.h>
#include <errno.h>
#include <signal.h>
#include <poll.h>
#include <inttypes.h>
#include <sys/time.h>
#include <sys/uio.h>
#include <sys/socket.h>

#include "array.h"
#include "message.h"
#include "convert.h"
#include "event.h"
#include "queue.h"
#include "connection.h"
#include "stream.h"
#include "vf.h"

const char *vf_name = "c12_sync";

#define MAXREQ 96
struct request {
	int serial;
	uintptr_t id;
	uint32_t nonce;
	int answered;      /* peer has sent the reply */
	int delivered;     /* handler invocations with a message */
	int finalised;     /* handler invocations without message */
	int wrong;
	int fail;          /* handler answers the reply with an error */
};
static struct request reqs[MAXREQ];
static int nreq;
static size_t idlen;
static const char *cur = "";
static char hx1[200], hx2[200];

/* ------------------------------------------------------------ COBS (peer) */
static size_t cobs_encode(const uint8_t *src, size_t len, uint8_t *dst)
{
	size_t o = 1, code_at = 0;
	uint8_t code = 1;
	for (size_t i = 0; i < len; i++) {
		if (src[i]) { dst[o++] = src[i]; code++; }
		if (!src[i] || code == 0xff) { dst[code_at] = code; code = 1; code_at = o++; }
	}
	dst[code_at] = code;
	dst[o++] = 0;
	return o;
}
static long cobs_decode(const uint8_t *src, size_t len, uint8_t *dst)
{
	size_t o = 0, i = 0;
	while (i < len) {
		uint8_t code = src[i++];
		if (!code) return -1;
		for (uint8_t k = 1; k < code; k++) { if (i >= len) return -1; dst[o++] = src[i++]; }
		if (code < 0xff && i < len) dst[o++] = 0;
	}
	return (long) o;
}

/* ------------------------------------------------------------ reply handler */
static int whnd(void *arg, const MPT_STRUCT(message) *msg)
{
	struct request *q = arg;
	uint8_t body[64];
	MPT_STRUCT(message) m;
	size_t n;
	vf_count("callback:reply-handler", 1);
	VF_CHECK(q >= reqs && q < reqs + nreq, "model:sync:foreign-argument", "%s: reply handler called with foreign argument %p", cur, arg);
	if (!msg) { q->finalised++; return 0; }
	m = *msg;
	n = mpt_message_read(&m, sizeof(body), body);
	q->delivered++;
	vf_log("   reply handler of request #%d (id %#" PRIxPTR "): %s", q->serial, q->id, vf_hex(hx1, sizeof(hx1), body, n));
	vf_count("monitor:reply-body-compared", 1);
	{
		uint8_t want[6] = { 0xB0, (uint8_t) q->serial, (uint8_t) (q->nonce >> 24), (uint8_t) (q->nonce >> 16), (uint8_t) (q->nonce >> 8), (uint8_t) q->nonce };
		VF_CHECK(n == sizeof(want) && !memcmp(body, want, n), "model:sync:wrong-reply",
		         "%s: handler waiting for request #%d (id %#" PRIxPTR ") was handed reply body %s, the reply to this request is %s (stale or foreign reply)",
		         cur, q->serial, q->id, vf_hex(hx1, sizeof(hx1), body, n), vf_hex(hx2, sizeof(hx2), want, sizeof(want)));
	}
	VF_CHECK(q->answered, "model:sync:reply-before-answer", "%s: handler of request #%d invoked although the peer has not answered it", cur, q->serial);
	VF_CHECK(q->delivered == 1, "model:sync:reply-delivered-twice", "%s: handler of request #%d invoked %d times", cur, q->serial, q->delivered);
	if (q->fail) { vf_count("callback:reply-handler-error", 1); return MPT_ERROR(BadValue); }
	return 0;
}

/* ------------------------------------------------------------------ alarms */
static void on_alarm(int sig)
{
	if (sig == SIGVTALRM)
		vf_fail("model:sync:no-progress", "%s: mpt_stream_sync used 2 s of CPU time with every reply already delivered to the socket (spinning)", cur);
	vf_fail("model:sync:blocked", "%s: mpt_stream_sync still blocked after 60 s although every reply was delivered to the socket", cur);
}
static void guard(int on)
{
	struct itimerval v, r;
	memset(&v, 0, sizeof(v)); memset(&r, 0, sizeof(r));
	if (on) { v.it_value.tv_sec = 2; r.it_value.tv_sec = 60; }
	setitimer(ITIMER_VIRTUAL, &v, 0);
	setitimer(ITIMER_REAL, &r, 0);
}

/* -------------------------------------------------------------------- peer */
static uint8_t rxbuf[16384];
static size_t rxlen;
/* read request frames; returns number of complete frames taken, ids checked */
static int peer_take_requests(int fd, struct request **out, int max)
{
	int n = 0;
	for (;;) {
		ssize_t r = read(fd, rxbuf + rxlen, sizeof(rxbuf) - rxlen);
		if (r <= 0) break;
		rxlen += (size_t) r;
	}
	while (n < max) {
		uint8_t *z = memchr(rxbuf, 0, rxlen), dec[256];
		size_t flen;
		long dl;
		uint64_t id = 0;
		struct request *q = 0;
		if (!z) break;
		flen = (size_t) (z - rxbuf);
		dl = cobs_decode(rxbuf, flen, dec);
		VF_CHECK(dl >= (long) idlen + 1, "model:sync:request-frame", "peer received request frame %s (decoded length %ld)", vf_hex(hx1, sizeof(hx1), rxbuf, flen), dl);
		VF_CHECK(!(dec[0] & 0x80), "model:sync:request-marked-as-reply", "request frame %s carries the reply bit", vf_hex(hx1, sizeof(hx1), dec, (size_t) dl));
		for (size_t i = 0; i < idlen; i++) id = (id << 8) | dec[i];
		VF_CHECK(dec[idlen] < nreq, "model:sync:request-frame", "request frame %s: payload does not name a request", vf_hex(hx1, sizeof(hx1), dec, (size_t) dl));
		q = &reqs[dec[idlen]];
		vf_count("monitor:request-id-compared", 1);
		VF_CHECK(id == q->id, "model:sync:request-id", "request #%d was sent with id %#" PRIx64 " but its reserved id is %#" PRIxPTR, q->serial, id, q->id);
		out[n++] = q;
		flen++;
		memmove(rxbuf, rxbuf + flen, rxlen - flen);
		rxlen -= flen;
	}
	return n;
}
static void peer_answer(int fd, struct request *q)
{
	uint8_t frame[32], enc[48];
	size_t fl = 0, el;
	uint64_t id = q->id;
	for (size_t i = 0; i < idlen; i++) frame[i] = (uint8_t) (id >> (8 * (idlen - 1 - i)));
	frame[0] |= 0x80;
	fl = idlen;
	frame[fl++] = 0xB0; frame[fl++] = (uint8_t) q->serial;
	frame[fl++] = (uint8_t) (q->nonce >> 24); frame[fl++] = (uint8_t) (q->nonce >> 16); frame[fl++] = (uint8_t) (q->nonce >> 8); frame[fl++] = (uint8_t) q->nonce;
	el = cobs_encode(frame, fl, enc);
	for (size_t o = 0; o < el; ) {
		ssize_t w = write(fd, enc + o, el - o);
		if (w <= 0) vf_inconclusive("peer write: %s", strerror(errno));
		o += (size_t) w;
	}
	q->answered = 1;
	vf_log("   peer: reply for request #%d (id %#" PRIxPTR ")%s", q->serial, q->id, q->delivered ? " [repeated]" : "");
	vf_count("peer:replies-sent", 1);
}

/* every still waiting request keeps its own table entry (id, handler, argument); answered ones have none */
static int slot_of(const MPT_STRUCT(array) *wait, const struct request *q)
{
	if (wait->_buf) {
		MPT_STRUCT(command) *c = (void *) (wait->_buf + 1);
		size_t cnt = wait->_buf->_used / sizeof(*c);
		for (size_t i = 0; i < cnt; i++) if (c[i].cmd && c[i].arg == q) return (int) i;
	}
	return -1;
}
static void check_wait(const MPT_STRUCT(array) *wait, const char *when)
{
	int live = 0;
	for (int j = 0; j < nreq; j++) {
		struct request *q = &reqs[j];
		int pos = slot_of(wait, q);
		if (q->delivered) {
			VF_CHECK(pos < 0, "model:sync:handler-still-registered", "%s: request #%d got its reply but its handler is still registered (slot %d)", when, q->serial, pos);
			continue;
		}
		live++;
		vf_count("monitor:waiting-entry-compared", 1);
		VF_CHECK(pos >= 0, "model:sync:waiting-entry-lost", "%s: request #%d (id %#" PRIxPTR ") is not answered yet but has no entry in the wait table", when, q->serial, q->id);
		{
			MPT_STRUCT(command) *c = ((MPT_STRUCT(command) *) (wait->_buf + 1)) + pos, *f;
			VF_CHECK(c->id == q->id && c->cmd == (int (*)(void *, void *)) whnd, "model:sync:waiting-entry-changed",
			         "%s: the entry of waiting request #%d now carries id %#" PRIxPTR ", the request was sent with id %#" PRIxPTR " (a reply to it can no longer reach it)",
			         when, q->serial, c->id, q->id);
			f = mpt_command_get(wait, q->id);
			VF_CHECK(f == c, "model:sync:waiting-entry-changed", "%s: id %#" PRIxPTR " of waiting request #%d resolves to another entry", when, q->id, q->serial);
		}
	}
	if (wait->_buf) {
		MPT_STRUCT(command) *c = (void *) (wait->_buf + 1);
		size_t cnt = wait->_buf->_used / sizeof(*c), act = 0;
		for (size_t i = 0; i < cnt; i++) act += c[i].cmd != 0;
		VF_CHECK((int) act == live, "model:sync:handler-still-registered", "%s: %zu active entries in the wait table, %d requests are waiting", when, act, live);
	}
}

void vf_case(uint64_t idx, vf_rng *r)
{
	static const size_t idlens[] = { 1, 2, 2, 3, 4, 8 };
	MPT_STRUCT(stream) srm = MPT_STREAM_INIT;
	MPT_STRUCT(array) wait = MPT_ARRAY_INIT;
	MPT_STRUCT(socket) sock;
	int sv[2], rounds = vf_range(r, 1, 6), maxround = 0, reused = 0, outoforder = 0, partial = 0, errors = 0, moved_any = 0, dups = 0;
	char desc[500];
	size_t dl;
	struct sigaction sa;

	(void) idx;
	nreq = 0; rxlen = 0;
	idlen = idlens[vf_below(r, sizeof(idlens) / sizeof(*idlens))];
	memset(&sa, 0, sizeof(sa));
	sa.sa_handler = on_alarm;
	sigaction(SIGVTALRM, &sa, 0);
	sigaction(SIGALRM, &sa, 0);
	if (socketpair(AF_UNIX, SOCK_STREAM, 0, sv) < 0) vf_inconclusive("socketpair: %s", strerror(errno));
	fcntl(sv[1], F_SETFL, fcntl(sv[1], F_GETFL) | O_NONBLOCK);   /* peer end only */
	sock._id = sv[0];
	srm._rd._dec = mpt_message_decoder(MPT_ENUM(EncodingCobs));
	srm._wd._enc = mpt_message_encoder(MPT_ENUM(EncodingCobs));
	vf_at("mpt_stream_dopen");
	if (!srm._rd._dec || !srm._wd._enc || mpt_stream_dopen(&srm, &sock, MPT_STREAMFLAG(RdWr) | MPT_STREAMFLAG(Buffer)) < 0)
		vf_inconclusive("unable to set up the stream: %s", strerror(errno));
	vf_fp_u64(idlen);
	dl = (size_t) snprintf(desc, sizeof(desc), "idlen=%zu:", idlen);

	for (int rd = 0; rd <= rounds && nreq < MAXREQ - 8; rd++) {
		int last = rd == rounds;      /* final round: everything still pending is answered */
		int n = last ? 0 : vf_range(r, 1, 6), first = nreq, got, ret = 0, np = 0, na = 0, all;
		struct request *seen[8], *pend[MAXREQ], *ans[MAXREQ];
		int before[MAXREQ];
		cur = "send";
		for (int k = 0; k < n; k++) {
			struct request *q = &reqs[nreq];
			MPT_STRUCT(command) *c;
			uint8_t hdr[16], payload[12];
			size_t pl = 1 + vf_below(r, 10);
			memset(q, 0, sizeof(*q));
			q->serial = nreq;
			q->nonce = (uint32_t) vf_u64(r) | 1u;
			vf_at("mpt_command_reserve");
			vf_count("mpt_command_reserve", 1);
			c = mpt_command_reserve(&wait, idlen);
			VF_CHECK(c != 0, "model:sync:reserve-refused", "mpt_command_reserve(width %zu) refused with %d requests outstanding", idlen, k);
			q->id = c->id;
			for (int j = 0; j < nreq; j++) {
				if (reqs[j].id != q->id) continue;
				VF_CHECK(reqs[j].delivered, "model:reserve:duplicate-id", "id %#" PRIxPTR " reserved for request #%d while request #%d still waits under it", q->id, q->serial, j);
				reused = 1;
			}
			c->cmd = (int (*)(void *, void *)) whnd;
			c->arg = q;
			nreq++;
			vf_at("mpt_message_id2buf");
			VF_CHECK(mpt_message_id2buf(q->id, hdr, idlen) >= 0, "model:id2buf:refused-fitting", "reserved id %#" PRIxPTR " does not fit width %zu", q->id, idlen);
			payload[0] = (uint8_t) q->serial;
			vf_bytes(r, payload + 1, pl - 1);
			vf_at("mpt_stream_push");
			vf_count("mpt_stream_push", 1);
			if (mpt_stream_push(&srm, idlen, hdr) < (ssize_t) idlen || mpt_stream_push(&srm, pl, payload) < (ssize_t) pl || mpt_stream_push(&srm, 0, 0) < 0)
				vf_inconclusive("unable to push request %d", q->serial);
			vf_fp_u64(q->id); vf_fp(payload, pl);
			vf_log("request #%d id %#" PRIxPTR " payload %zu bytes", q->serial, q->id, pl);
		}
		check_wait(&wait, "after registering");
		vf_at("mpt_stream_flush");
		for (int t = 0; t < 8 && mpt_stream_flush(&srm) > 0; t++) { }
		got = peer_take_requests(sv[1], seen, n);
		if (got != n) vf_inconclusive("peer received %d of %d requests", got, n);
		(void) first;
		/* pending requests in registration order; the peer answers all of them or a part */
		for (int j = 0; j < nreq; j++) if (!reqs[j].delivered) pend[np++] = &reqs[j];
		if (!np) continue;
		all = last || vf_chance(r, 2, 5);
		if (all) { for (int k = 0; k < np; k++) ans[na++] = pend[k]; }
		else if (vf_chance(r, 1, 2)) {
			/* the oldest ones first: holes in front of the entries that keep waiting */
			int k = (np + 1) / 2 + (int) vf_below(r, (uint32_t) (np - (np + 1) / 2) + 1);
			if (k >= np) k = np - 1;
			for (int j = 0; j < k; j++) ans[na++] = pend[j];
		} else {
			for (int k = 0; k < np; k++) if (vf_chance(r, 1, 2)) ans[na++] = pend[k];
		}
		if (na < np) { partial = 1; vf_count("round:partial-answers", 1); }
		if (na > 1 && vf_chance(r, 1, 2)) {
			for (int k = na - 1; k > 0; k--) { int j = (int) vf_below(r, (uint32_t) k + 1); struct request *t = ans[k]; ans[k] = ans[j]; ans[j] = t; }
			outoforder = 1;
		}
		/* one of the replies is refused by its handler */
		if (na && !last && vf_chance(r, 1, 2)) { struct request *f = vf_chance(r, 1, 2) ? ans[na - 1] : ans[vf_below(r, (uint32_t) na)]; f->fail = 1; errors++; vf_count("round:handler-error-planned", 1); }
		/* repeated reply for an id that was answered before and is not in use now */
		/* (only in front of real answers of this round: it is consumed before any id is reserved again) */
		if (na && vf_chance(r, 1, 4)) {
			for (int j = 0; j < nreq; j++) {
				int inuse = 0;
				if (!reqs[j].delivered) continue;
				for (int k = 0; k < np; k++) if (pend[k]->id == reqs[j].id) inuse = 1;
				if (inuse) continue;
				peer_answer(sv[1], &reqs[j]);
				vf_count("peer:repeated-replies", 1);
				vf_fp_u64(0xd00 + (uint64_t) j);
				dups++;
				break;
			}
		}
		for (int k = 0; k < na; k++) { peer_answer(sv[1], ans[k]); vf_fp_u64((uint64_t) ans[k]->serial); }
		if (np > maxround) maxround = np;
		for (int k = 0; k < np; k++) before[k] = slot_of(&wait, pend[k]);

		/* sync until every reply that was sent has been handed over */
		for (int call = 0; call < na + 3; call++) {
			int missing = 0, to = (na == np) ? -1 : 0;
			for (int k = 0; k < na; k++) missing += ans[k]->delivered == 0;
			if (!missing) break;
			cur = "mpt_stream_sync";
			vf_at("mpt_stream_sync");
			vf_count("mpt_stream_sync", 1);
			vf_count(to < 0 ? "mpt_stream_sync(blocking)" : "mpt_stream_sync(timeout 0)", 1);
			if (np >= 2) vf_count("sync:two-or-more-pending", 1);
			guard(1);
			ret = mpt_stream_sync(&srm, idlen, &wait, to);
			guard(0);
			vf_log("stream_sync(%d pending, %d answered, timeout %d) = %d", np, na, to, ret);
			check_wait(&wait, "after mpt_stream_sync");
			/* did the final compaction move a waiting entry? */
			for (int k = 0; k < np; k++) {
				int now;
				if (pend[k]->delivered) continue;
				now = slot_of(&wait, pend[k]);
				if (before[k] >= 0 && now >= 0 && now < before[k]) { moved_any = 1; vf_count("sync:waiting-entry-moved-by-compaction", 1); }
				before[k] = now;
			}
		}
		for (int k = 0; k < na; k++) {
			vf_count("monitor:reply-delivery-accounted", 1);
			VF_CHECK(ans[k]->delivered == 1, "model:sync:reply-not-delivered",
			         "request #%d (id %#" PRIxPTR "): the peer's reply is in the stream but after %d mpt_stream_sync calls its handler was invoked %d times",
			         ans[k]->serial, ans[k]->id, na + 3, ans[k]->delivered);
		}
		for (int k = 0; k < np; k++) if (!pend[k]->answered) VF_CHECK(!pend[k]->delivered, "model:sync:reply-before-answer", "request #%d got a reply the peer never sent", pend[k]->serial);
		if (na == np && !errors) VF_CHECK(ret >= 0, "model:sync:error", "mpt_stream_sync returned %d with all replies delivered", ret);
		if (dl + 24 < sizeof(desc)) dl += (size_t) snprintf(desc + dl, sizeof(desc) - dl, " round(%d new,%d/%d answered)=%d", n, na, np, ret);
	}
	for (int j = 0; j < nreq; j++) VF_CHECK(reqs[j].delivered == 1, "model:sync:reply-not-delivered", "request #%d: %d deliveries at the end", j, reqs[j].delivered);
	cur = "close";
	vf_at("mpt_stream_close");
	mpt_stream_close(&srm);
	close(sv[1]);
	mpt_command_clear(&wait);
	mpt_array_clone(&wait, 0);
	if (reused) vf_count("history:reply-id-reused", 1);
	if (outoforder) vf_count("history:answered-out-of-order", 1);
	if (partial) vf_count("history:with-partial-round", 1);
	if (errors) vf_count("history:with-handler-error", 1);
	if (moved_any) vf_count("history:compaction-moved-waiting-entry", 1);
	if (dups) vf_count("history:with-repeated-reply", 1);
	if (maxround >= 2) vf_nontrivial();
	vf_sample("%s  => %d requests%s%s%s%s", desc, nreq, outoforder ? ", out of order" : "", reused ? ", ids reused" : "", errors ? ", handler errors" : "", moved_any ? ", compaction moved waiting entries" : "");
}

uint64_t vf_cases(void) { return vf_thorough ? 200000 : 20000; }
