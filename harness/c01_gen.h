/*
 * Message / split generators shared by the C01 and C03 harnesses.
 * Everything is a function of the vf_rng handed in.
 */
#ifndef C01_GEN_H
#define C01_GEN_H

#include "vf.h"
#include "c01_refcodec.h"

static const uint8_t gen_alpha[11] = { 0x00, 0x01, 0x02, 0x1F, 0x20, 0xDE, 0xDF, 0xE0, 0xE1, 0xFE, 0xFF };

static uint8_t gen_nonzero(vf_rng *r, int style)
{
	uint8_t v;
	switch (style) {
	case 0: return (uint8_t) (1 + vf_below(r, 255));
	case 1: return gen_alpha[1 + vf_below(r, 10)];
	default:
		v = (uint8_t) (vf_chance(r, 1, 2) ? 0xD8 + vf_below(r, 0x28) : 1 + vf_below(r, 0x28));
		return v ? v : 1;
	}
}
static size_t gen_runlen(vf_rng *r)
{
	static const uint16_t edge[] = { 0, 1, 2, 3, 29, 30, 31, 32, 33, 220, 221, 222, 223, 224, 225, 252, 253, 254, 255, 256, 257, 444, 445, 508, 509 };
	switch (vf_below(r, 4)) {
	case 0: return edge[vf_below(r, sizeof(edge) / sizeof(*edge))];
	case 1: return vf_below(r, 8);
	case 2: return vf_below(r, 40);
	default: return vf_below(r, 300);
	}
}
/* length of the trailing non-zero run of m[0..n) */
static size_t gen_tail_run(const uint8_t *m, size_t n)
{
	size_t t = 0;
	while (t < n && m[n - 1 - t]) t++;
	return t;
}
/*
 * structured message: alternating non-zero / zero runs with lengths around
 * the block limits, final byte chosen relative to the open block's code.
 */
static size_t gen_message(vf_rng *r, int fmt, uint8_t *m, size_t max)
{
	size_t n = 0, target;
	int style = (int) vf_below(r, 3);

	switch (vf_below(r, 6)) {
	case 0: target = vf_below(r, 12); break;
	case 1: target = vf_below(r, 70); break;
	case 2: target = 200 + vf_below(r, 80); break;
	case 3: target = 430 + vf_below(r, 100); break;
	default: target = vf_below(r, (uint32_t) max + 1);
	}
	if (target > max) target = max;
	if (fmt == RC_CMD) {
		for (n = 0; n < target; n++) m[n] = gen_nonzero(r, style);
		return n;
	}
	while (n < target) {
		size_t k = gen_runlen(r);
		if (vf_chance(r, 1, 5)) style = (int) vf_below(r, 3);
		while (k-- && n < target) m[n++] = gen_nonzero(r, style);
		if (n >= target) break;
		k = vf_chance(r, 1, 2) ? 1 : (vf_chance(r, 1, 2) ? 2 : 1 + vf_below(r, 6));
		while (k-- && n < target) m[n++] = 0;
	}
	/* final byte relative to the code of the open block */
	if (n && m[n - 1] && vf_chance(r, 2, 3)) {
		unsigned M = rc_maxcode(fmt);
		size_t t = gen_tail_run(m, n) % (M - 1);
		unsigned code = (unsigned) (t ? t : M - 1) + 1;
		static const int d[] = { -1, 0, 1, 2 };
		unsigned v;
		switch (vf_below(r, 3)) {
		case 0: v = code + d[vf_below(r, 4)]; break;
		case 1: v = gen_alpha[1 + vf_below(r, 10)]; break;
		default: v = 0xDC + vf_below(r, 8);
		}
		v &= 0xFF;
		m[n - 1] = (uint8_t) (v ? v : 1);
	}
	return n;
}
/* enumerated pattern for "every length" cases */
static void gen_pattern(vf_rng *r, int fmt, int pattern, uint8_t *m, size_t n)
{
	size_t i, k;
	switch (fmt == RC_CMD ? pattern % 2 : pattern % 6) {
	case 0:   /* non-zero ramp */
		for (i = 0; i < n; i++) m[i] = (uint8_t) (i % 255 + 1);
		break;
	case 1:   /* constant high value: tail-inline candidates */
		k = gen_nonzero(r, 2);
		for (i = 0; i < n; i++) m[i] = (uint8_t) k;
		break;
	case 2:   /* all non-zero, message ends in one zero */
		for (i = 0; i < n; i++) m[i] = gen_nonzero(r, 0);
		if (n) m[n - 1] = 0;
		break;
	case 3:   /* ends in a zero pair, another pair somewhere inside */
		for (i = 0; i < n; i++) m[i] = gen_nonzero(r, 1);
		if (n > 1) { m[n - 1] = m[n - 2] = 0; }
		if (n > 6) { k = vf_below(r, (uint32_t) n - 3); m[k] = m[k + 1] = 0; }
		break;
	case 4:   /* zero (pair) every k bytes */
		k = 1 + vf_below(r, 40);
		for (i = 0; i < n; i++) m[i] = (i % (k + 2) >= k) ? 0 : gen_nonzero(r, 0);
		break;
	default:  /* zeros only / sparse data */
		for (i = 0; i < n; i++) m[i] = vf_chance(r, 1, 8) ? gen_nonzero(r, 1) : 0;
	}
}

/*
 * split of n bytes into push pieces: fills cut[] with end offsets
 * (ascending, last = n), returns the number of pieces (0 for n == 0).
 */
#define GEN_MAXPIECES 1200
static size_t gen_split(vf_rng *r, const uint8_t *m, size_t n, int kind, size_t *cut)
{
	static const uint16_t edge[] = { 1, 30, 31, 32, 221, 222, 223, 224, 253, 254, 255, 256 };
	size_t np = 0, pos = 0, i;
	if (!n) return 0;
	switch (kind) {
	case 0:   /* one push */
		break;
	case 1:   /* single bytes */
		if (n <= GEN_MAXPIECES) { for (i = 1; i < n; i++) cut[np++] = i; }
		break;
	case 2: { /* two pieces, cut at a block edge / inside a zero pair / anywhere */
		size_t c = 0;
		switch (vf_below(r, 3)) {
		case 0: c = edge[vf_below(r, sizeof(edge) / sizeof(*edge))]; break;
		case 1:
			for (i = vf_below(r, (uint32_t) n); i + 1 < n; i++) if (!m[i] && !m[i + 1]) { c = i + 1; break; }
			break;
		default: c = vf_below(r, (uint32_t) n);
		}
		if (c && c < n) cut[np++] = c;
		break; }
	default:  /* PRNG composition, small and large pieces */
		while (np + 2 < GEN_MAXPIECES) {
			size_t k = vf_chance(r, 1, 2) ? 1 + vf_below(r, 4) : 1 + vf_below(r, 300);
			pos += k;
			if (pos >= n) break;
			cut[np++] = pos;
		}
	}
	cut[np++] = n;
	return np;
}

#endif /* C01_GEN_H */
