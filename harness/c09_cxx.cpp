/*
 * C09 (C++ leg): the written tree must come back on every pass of a
 * long-lived mpt::config_parser.
 *
 * One case = (format string, name flag sets, PRNG tree, rendering mode) from
 * the generator and renderers of the C leg (c09_tree.c).  The text is written
 * to a file in the work directory and read the way mpt::layout does it with
 * its parser member: set_format(), open(file), read(node), then 1..3 further
 * passes, each after reset() (rewind/reopen of the same file) or after a new
 * open() of the file, into a fresh node or into the node of the pass before.
 * Every pass has to return >= 0 and yield exactly the written tree (the
 * comparison is c09_compare() of the C leg: nesting, order, names, values,
 * parent/prev links; top-level parent is the node handed to read()).
 * Before 2/5 of the reads one or two set_format() calls with an unknown style
 * character (delimiters, comment and escape lists of another format) are made:
 * they must return false and change nothing - the read that follows has to
 * give the same tree.  In 1/3 of the cases the parser object then gets another
 * format (accepted set_format) and a new tree rendered in that style.
 * open() of unreadable targets, switches between two renderings, and the file
 * saved again with another tree between reads (rewritten in place, new file
 * renamed over the name, unlinked and created again): reset() + read() must
 * give what is in the file now.
 */
#include <cstdio>
#include <cstdlib>
#include <cstring>
#include <unistd.h>
#include <string>
#include <dirent.h>

#include "node.h"
#include "config.h"
#include "parse.h"
#include "layout.h"

#include "c09_tree.h"
#include "vf.h"

const char *vf_name = "c09_cxx";

/* name flags are protected members without setter */
class P : public mpt::config_parser
{
public:
	void flags(uint16_t s, uint16_t o)
	{
		_d.name.sect = s;
		_d.name.opt = o;
	}
};

static char fname[64], fname2[64], fmissing[64], ftmp[64];

/* open descriptors of the process */
static size_t count_fds(void)
{
	size_t n = 0;
	DIR *d = opendir("/proc/self/fd");
	if (!d) return 0;
	while (readdir(d)) n++;
	closedir(d);
	return n;
}

uint64_t vf_cases(void) { return vf_thorough ? 400000 : 30000; }

/* description with an unknown style character and delimiters / lists of another format, exact-size block */
static char *refused_format(vf_rng *r, const format *active, size_t *size)
{
	static const char unknown[] = "?q-X0+~";
	static const char *const tails[] = { "", "!", "%&", "!%&$", "; '", "% `\"", ";", "!# `'\"" };
	const format *o;
	char buf[40];
	size_t n;
	char *d;
	do { o = &c09_formats[vf_below(r, (uint32_t) c09_nformats)]; } while (o == active || !o->str);
	n = strlen(o->str) < 6 ? strlen(o->str) : 6;
	memcpy(buf, o->str, n);
	buf[n] = 0;
	buf[1] = unknown[vf_below(r, sizeof(unknown) - 1)];
	if (n == 6) strcat(buf, tails[vf_below(r, sizeof(tails) / sizeof(*tails))]);
	if (vf_chance(r, 1, 6)) buf[2] = buf[0];
	*size = strlen(buf) + 1;
	d = static_cast<char *>(vf_xalloc(*size));
	memcpy(d, buf, *size);
	return d;
}

/* mpt::layout::reset() goes through the same config_parser::reset(): the file saved again must be what load() sees */
static void layout_reset_check(vf_rng *r)
{
	static const char *const types[] = { "graph", "text", "world", "line", "axis" };
	std::string text[2], want[2];
	mpt::layout lay;
	FILE *fp;
	int method = 1 + (int) vf_below(r, 3);

	for (int v = 0; v < 2; v++) {
		int n = vf_range(r, 1, 4);
		for (int i = 0; i < n; i++) {
			char name[32];
			const char *t = types[vf_below(r, 5)];
			snprintf(name, sizeof(name), "%c%c%u_%d", t[0], 'a' + v, (unsigned) vf_below(r, 1000), i);
			text[v] += t; text[v] += ' '; text[v] += name; text[v] += " {\n    title = X;\n}\n";
			if (i) want[v] += ' ';
			want[v] += name;
		}
	}
	if (!(fp = fopen(fname, "wb")) || fwrite(text[0].data(), 1, text[0].size(), fp) != text[0].size() || fclose(fp)) vf_inconclusive("cannot write %s", fname);
	vf_at("layout::open");
	VF_CHECK(lay.open(fname), "model:layout-reset:open-failed", "layout::open(%s) failed", fname);
	for (int v = 0; v < 2; v++) {
		std::string got;
		bool ok;
		if (v) {
			if (method == 2) {
				if (!(fp = fopen(ftmp, "wb")) || fwrite(text[1].data(), 1, text[1].size(), fp) != text[1].size() || fclose(fp) || rename(ftmp, fname)) vf_inconclusive("cannot replace %s", fname);
			} else {
				if (method == 3 && unlink(fname)) vf_inconclusive("cannot unlink %s", fname);
				if (!(fp = fopen(fname, "wb")) || fwrite(text[1].data(), 1, text[1].size(), fp) != text[1].size() || fclose(fp)) vf_inconclusive("cannot write %s", fname);
			}
			vf_at("layout::reset");
			vf_count("layout::reset", 1);
			VF_CHECK(lay.reset(), "model:layout-reset:reset-failed", "layout::reset() failed after the file was saved again (method %d)", method);
		}
		vf_at("layout::load");
		ok = lay.load(0);
		VF_CHECK(ok, "model:layout-reset:load-failed", "layout::load() %s returned false; file: %s", v ? "after reset()" : "of the first file", text[v].c_str());
		for (const auto &it : lay.items()) {
			if (!got.empty()) got += ' ';
			got += it.name() ? it.name() : "";
		}
		VF_CHECK(got == want[v], v ? "model:layout-reset:stale-items" : "model:layout-reset:items",
		         "layout %s holds items [%s], the file has [%s] (file %s)", v ? "after reset() + load()" : "after load()", got.c_str(), want[v].c_str(),
		         method == 1 ? "rewritten in place" : method == 2 ? "replaced by rename" : "unlinked and created again");
	}
	vf_count(method == 2 ? "monitor:layout-reset-after-rename-replace" : "monitor:layout-reset-after-rewrite", 1);
}

void vf_case(uint64_t idx, vf_rng *r)
{
	static const struct { unsigned sect, opt; } flagsets[] = {
		{ 0x0e, 0x02 },            /* config_parser defaults, left untouched */
		{ 0xff, 0xff },            /* MPT_PARSER_INIT */
		{ 0x10, 0x01 },            /* "Ef"   parse_online */
		{ 0x10, 0x0f },            /* "Esnw" parse_layout */
		{ 0x10, 0x06 },            /* "Esc"  parse_config */
		{ 0x00, 0x07 },            /* "ns"   mpt_node_parse default */
	};
	size_t fds_before = count_fds();
	{
	P p;
	unsigned sect, opt;
	char fl[16];
	int keep_defaults = 0;
	int rounds = vf_chance(r, 1, 3) ? 2 : 1;     /* second round: accepted change of the format, text in the new style */
	const format *f = &c09_formats[idx % c09_nformats];

	if (vf_chance(r, 2, 3)) {
		uint32_t k = vf_below(r, sizeof(flagsets) / sizeof(*flagsets));
		sect = flagsets[k].sect; opt = flagsets[k].opt;
		keep_defaults = !k;
	} else {
		sect = 0x3f & (unsigned) vf_u64(r); opt = 0x3f & (unsigned) vf_u64(r);
	}
	if (sect == 0xff) strcpy(fl, "(all)"); else c09_flags_string(fl, sect, opt);
	if (!keep_defaults) p.flags((uint16_t) sect, (uint16_t) opt);
	else vf_count("flags:config_parser-defaults", 1);
	if (!fname[0]) {
		snprintf(fname, sizeof(fname), "c09cxx-%ld.conf", (long) getpid());
		snprintf(fname2, sizeof(fname2), "c09cxx-%ld-b.conf", (long) getpid());
		snprintf(fmissing, sizeof(fmissing), "c09cxx-%ld-missing.conf", (long) getpid());
		snprintf(ftmp, sizeof(ftmp), "c09cxx-%ld.tmp", (long) getpid());
	}

	for (int round = 0; round < rounds; round++) {
		tnode *root = c09_t_new(1);
		gen g;
		render ro, ro2;
		const bytes *cur;               /* text of the file the parser has open */
		vf_rng deco;
		char desc[220];
		int passes, mode;
		FILE *fp;
		bool ok;

		if (round) {
			const format *o;
			do { o = &c09_formats[vf_below(r, (uint32_t) c09_nformats)]; } while (o == f);
			f = o;
		}
		memset(&g, 0, sizeof(g));
		g.f = f;
		g.sect = sect; g.opt = opt;
		g.maxdepth = vf_range(r, 0, 5);
		c09_gen_children(r, &g, root, 0);
		mode = round ? (int) vf_below(r, 3) : (int) ((idx / c09_nformats) % 3);
		passes = vf_range(r, 2, 4);

		snprintf(desc, sizeof(desc), "%s%s fmt=%s%s%s flags=%s%s %s text, tree: %zu nodes (%zu sections, depth %zu)", round ? "(after format change) " : "",
		         c09_style_name[f->style], f->str ? "\"" : "", f->str ? f->str : "NULL", f->str ? "\"" : "", fl, keep_defaults ? " (parser defaults)" : "",
		         mode == Canonical ? "canonical" : mode == Compact ? "compact" : "noisy", g.nodes, g.sections, g.depth);
		vf_fp_u64((uint64_t) (f - c09_formats) | ((uint64_t) round << 8));
		vf_fp_u64(((uint64_t) g.sect << 16) | g.opt | ((uint64_t) mode << 40) | ((uint64_t) passes << 44));
		c09_t_fp(root);

		deco = *r;
		memset(&ro, 0, sizeof(ro));
		ro.f = f; ro.mode = mode; ro.r = &deco;
		c09_render_doc(&ro, root);

		/* the same tree in another rendering: file to switch to */
		memset(&ro2, 0, sizeof(ro2));
		ro2.f = f; ro2.mode = (mode + 1 + (int) vf_below(r, 2)) % 3; ro2.r = &deco;
		c09_render_doc(&ro2, root);

		/* files in the work directory of the harness */
		if (!(fp = fopen(fname, "wb")) || fwrite(ro.out.d, 1, ro.out.n, fp) != ro.out.n || fclose(fp)) {
			vf_inconclusive("cannot write %s", fname);
		}
		if (!(fp = fopen(fname2, "wb")) || fwrite(ro2.out.d, 1, ro2.out.n, fp) != ro2.out.n || fclose(fp)) {
			vf_inconclusive("cannot write %s", fname2);
		}
		if (vf_logging) {
			vf_log("%s, %zu bytes in %s:", desc, ro.out.n, fname);
			fwrite(ro.out.d, 1, ro.out.n > 4000 ? 4000 : ro.out.n, stderr);
			fprintf(stderr, "\n----\n");
		}
		{
			mpt::node kept;
			char *fmtblock = 0;
			size_t fmtsize = 0;

			if (f->str) {
				fmtsize = strlen(f->str) + 1;
				fmtblock = static_cast<char *>(vf_xalloc(fmtsize));
				memcpy(fmtblock, f->str, fmtsize);
			}
			vf_at("config_parser::set_format");
			vf_count("config_parser::set_format", 1);
			ok = p.set_format(fmtblock);
			VF_CHECK(ok, "model:cxx:set_format-refused", "%s: set_format refused a format of a known family", desc);
			if (round) vf_count("state:format-changed-on-used-parser", 1);

			vf_at("parser::open");
			vf_count("parser::open", 1);
			ok = p.open(fname);
			VF_CHECK(ok, "model:cxx:open-failed", "%s: open(%s) failed", desc, fname);
			cur = &ro.out;

			for (int pass = 0; pass < passes; pass++) {
				const char *phase = round ? "cxx-new-format" : "cxx-read";
				int reuse_node = pass && vf_chance(r, 1, 3);
				int ret, how = 0;       /* 0 first read, 1 after reset, 2 after open */
				int refused = 0;
				char refdesc[48] = "";
				cmp c;

				int refused_open = 0, must_reopen = 0;
				int replaced = 0;       /* 1 rewritten in place, 2 new file renamed over the name, 3 unlinked and created again */
				char opendesc[64] = "";

				/* the file is saved again with other content while the parser has it open */
				if (pass && vf_chance(r, 1, 3)) {
					static const char *const how_name[] = { "", "rewritten in place", "replaced by rename", "unlinked and created again" };
					const char *name = (cur == &ro2.out) ? fname2 : fname, *oname = (cur == &ro2.out) ? fname : fname2;
					const bytes *otext;
					gen g2;
					c09_t_free(root);
					root = c09_t_new(1);
					memset(&g2, 0, sizeof(g2));
					g2.f = f; g2.sect = sect; g2.opt = opt;
					g2.maxdepth = vf_range(r, 0, 4);
					g2.huge = 1;            /* no further 64k values: keeps the step cheap */
					c09_gen_children(r, &g2, root, 0);
					c09_t_fp(root);
					free(ro.out.d); free(ro2.out.d);
					deco = *r;
					memset(&ro, 0, sizeof(ro));
					ro.f = f; ro.mode = (int) vf_below(r, 3); ro.r = &deco;
					c09_render_doc(&ro, root);
					memset(&ro2, 0, sizeof(ro2));
					ro2.f = f; ro2.mode = (ro.mode + 1 + (int) vf_below(r, 2)) % 3; ro2.r = &deco;
					c09_render_doc(&ro2, root);
					otext = (cur == &ro2.out) ? &ro.out : &ro2.out;

					replaced = 1 + (int) vf_below(r, 3);
					if (replaced == 2) {
						if (!(fp = fopen(ftmp, "wb")) || fwrite(cur->d, 1, cur->n, fp) != cur->n || fclose(fp) || rename(ftmp, name)) {
							vf_inconclusive("cannot replace %s by rename", name);
						}
					} else {
						if (replaced == 3 && unlink(name)) vf_inconclusive("cannot unlink %s", name);
						if (!(fp = fopen(name, "wb")) || fwrite(cur->d, 1, cur->n, fp) != cur->n || fclose(fp)) {
							vf_inconclusive("cannot write %s", name);
						}
					}
					if (!(fp = fopen(oname, "wb")) || fwrite(otext->d, 1, otext->n, fp) != otext->n || fclose(fp)) {
						vf_inconclusive("cannot write %s", oname);
					}
					snprintf(desc, sizeof(desc), "%s fmt=%s%s%s flags=%s, file %s with a new tree of %zu nodes", c09_style_name[f->style],
					         f->str ? "\"" : "", f->str ? f->str : "NULL", f->str ? "\"" : "", fl, how_name[replaced], g2.nodes);
					vf_count(replaced == 1 ? "replace:in-place" : replaced == 2 ? "replace:rename" : "replace:unlink-recreate", 1);
					if (vf_logging) {
						vf_log("%s, %zu bytes:", desc, cur->n);
						fwrite(cur->d, 1, cur->n > 4000 ? 4000 : cur->n, stderr);
						fprintf(stderr, "\n----\n");
					}
				}

				/* open() of something that cannot be opened: false, and nothing changes */
				if (vf_chance(r, 1, 3)) {
					static const char *const bad[] = { 0, "", ".", "no-such-dir/file.conf", "/" };
					uint32_t k = vf_below(r, 5);
					const char *name = k ? bad[k] : fmissing;
					snprintf(opendesc, sizeof(opendesc), " after open(\"%s\")", name);
					vf_at("parser::open");
					vf_count("parser::open", 1);
					ok = p.open(name);
					if (ok) {
						/* a directory can be opened for reading: the parser has switched to it */
						vf_count("open:unreadable-target-accepted", 1);
						must_reopen = 1;
					} else {
						vf_count("open:refused", 1);
						refused_open = 1;
					}
				}
				else if (pass && vf_chance(r, 1, 10)) {
					/* close, to be opened again */
					vf_at("parser::open");
					ok = p.open(0);
					VF_CHECK(ok, "model:cxx:close-failed", "%s: pass %d: open(0) failed", desc, pass + 1);
					vf_count("open:closed", 1);
					must_reopen = 1;
				}
				if (pass || must_reopen) {
					if (must_reopen || (!replaced && vf_chance(r, 1, 4))) {
						int other = vf_chance(r, 1, 2);
						phase = "cxx-reopen";
						how = 2;
						vf_at("parser::open");
						vf_count("parser::open", 1);
						ok = p.open(other ? fname2 : fname);
						VF_CHECK(ok, "model:cxx:open-failed", "%s: pass %d: open(%s)%s failed", desc, pass + 1, other ? fname2 : fname, opendesc);
						cur = other ? &ro2.out : &ro.out;
						if (other) vf_count("open:switched-to-other-file", 1);
					} else {
						phase = "cxx-reset";
						how = 1;
						vf_at("config_parser::reset");
						vf_count("config_parser::reset", 1);
						ok = p.reset();
						VF_CHECK(ok, "model:cxx:reset-failed", "%s: pass %d: reset()%s failed", desc, pass + 1, opendesc);
					}
				}
				if (refused_open) phase = "cxx-after-refused-open";
				if (replaced) phase = how == 1 ? "cxx-reset-after-replace" : "cxx-reopen-after-replace";
				/* a refused format must leave the parser as it is */
				if (vf_chance(r, 2, 5)) {
					for (int k = vf_range(r, 1, 2); k > 0; k--) {
						size_t size;
						char *bad = refused_format(r, f, &size);
						snprintf(refdesc, sizeof(refdesc), "%s", bad);
						vf_at("config_parser::set_format");
						vf_count("config_parser::set_format", 1);
						ok = p.set_format(bad);
						VF_CHECK(!ok, "model:cxx:set_format-unknown-style-accepted", "%s: set_format(\"%s\") returned true for an unknown style character", desc, bad);
						vf_xfree(bad, size);
					}
					refused = 1;
					if (!refused_open && !replaced) phase = "cxx-after-refused-format";
				}
				memset(&c, 0, sizeof(c));
				c.phase = phase;
				c.style = c09_style_name[f->style];
				c.fstyle = f->style;
				c.desc = desc;
				c.text = cur;
				{
					mpt::node fresh;
					mpt::node &to = reuse_node ? kept : fresh;
					vf_fp_u64(((uint64_t) how << 1) | (uint64_t) reuse_node | ((uint64_t) refused << 4) | ((uint64_t) refused_open << 5) | ((uint64_t) (cur == &ro2.out) << 6));
					vf_log("pass %d (%s, %s node%s%s)", pass + 1, phase, reuse_node ? "used" : "fresh", refused ? ", after refused set_format " : "", refdesc);
					vf_at("parser::read");
					vf_count("parser::read", 1);
					ret = p.read(to, 0);
					vf_log(" = %d line=%zu", ret, p.line());
					if (ret < 0) {
						vf_fail(c09_mkkey(&c, "rejected"), "%s: pass %d of %d%s%s: read() returned %d at line %zu; text: %s",
						        desc, pass + 1, passes, refused ? " after refused set_format " : "", refdesc, ret, p.line(), c09_excerpt(cur));
					}
					if (root->nchild && !to.children) {
						vf_fail(c09_mkkey(&c, "empty-result"), "%s: pass %d of %d: read() returned %d (success) but the node has no children, %zu expected; text: %s",
						        desc, pass + 1, passes, ret, root->nchild, c09_excerpt(cur));
					}
					c09_compare(&c, root, &to, to.children);
					vf_count("monitor:names-compared", c.names);
					vf_count("monitor:values-compared", c.values);
					vf_count("monitor:links-compared", c.links);
					vf_count(!how ? "monitor:trees-equal:first-read" : how == 1 ? "monitor:trees-equal:after-reset" : "monitor:trees-equal:after-reopen", 1);
					if (refused) vf_count("monitor:trees-equal:read-after-refused-set_format", 1);
					if (refused_open) vf_count("monitor:trees-equal:read-after-refused-open", 1);
					if (refused_open && how == 1) vf_count("monitor:trees-equal:reset+read-after-refused-open", 1);
					if (cur == &ro2.out) vf_count("monitor:trees-equal:other-file", 1);
					if (replaced && how == 1) {
						vf_count(replaced == 1 ? "monitor:trees-equal:reset-after-rewrite-in-place" : replaced == 2 ? "monitor:trees-equal:reset-after-rename-replace"
						         : "monitor:trees-equal:reset-after-unlink-recreate", 1);
					}
					else if (replaced) vf_count("monitor:trees-equal:reopen-after-replace", 1);
					if (round) vf_count("monitor:trees-equal:after-format-change", 1);
					if (reuse_node) vf_count("state:read-into-used-node", 1);
				}
			}
			if (fmtblock) vf_xfree(fmtblock, fmtsize);
		}
		vf_count(f->style == StylePrefix ? "style:prefix" : f->style == StyleEnclosed ? "style:enclosed" : "style:separated", 1);
		vf_count(mode == Canonical ? "text:canonical" : mode == Compact ? "text:compact" : "text:noisy", 1);
		vf_count("tree:nodes", g.nodes);
		if (g.depth >= 3) vf_count("tree:depth>=3", 1);
		if (g.val250 || g.val255) vf_count("tree:with-value-250..260", 1);
		if (g.huge) vf_count("tree:with-value-65530..65540", 1);
		if (root->nchild && !root->child[root->nchild - 1]->section) vf_count("tree:last-top-level-element-is-option", 1);
		if (g.nodes >= 3 && (g.sections || f->style == StyleSeparated)) vf_nontrivial();
		if (idx < 64 && !round) vf_sample("%s, %d passes | text: %s", desc, passes, c09_excerpt(&ro.out));
		free(ro.out.d);
		free(ro2.out.d);
		c09_t_free(root);
	}
	if (vf_chance(r, 1, 6)) layout_reset_check(r);
	unlink(fname);
	unlink(fname2);
	}
	/* the parser object is gone: every stream it opened must be closed */
	{
		size_t fds_after = count_fds();
		VF_CHECK(fds_after == fds_before, "model:cxx:descriptor-leak", "%zu open descriptors before the case, %zu after the parser object was destroyed",
		         fds_before, fds_after);
		vf_count("monitor:descriptor-count-compared", 1);
	}
}
