/*
 * C07 (value leg): scalar value -> scalar value conversion is exact or refused.
 *
 * case = (API, source type S, target T, block): the block's source values are
 * each converted twice, with a destination (sentinel-filled exact-size heap
 * block, source in an exact-size block too) and with a NULL destination.
 *   API 0: mpt_data_convert_{int,uint}{8,16,32,64} / _float32/64 / _exflt
 *   API 1: function returned by mpt_data_converter(S)
 *   API 2: mpt_value_convert
 *   API 3: mpt_iterator_consume on a harness iterator holding the value
 * 8/16-bit sources are enumerated completely, wider and floating sources run a
 * fixed list of boundary values plus PRNG values.
 *
 * Oracle: integer/char targets compared exactly in __int128; floating targets
 * must hold the round-to-nearest image of the source (computed by a cast from
 * the exact long double value and cross-checked against both neighbours); a
 * finite source that ends as inf/NaN, or any other value, is a violation.
 * Refusal is always acceptable.  Query and performing call must agree.
 */
#include <stdlib.h>
#include <math.h>
#include <float.h>
#include <limits.h>
#include <sys/uio.h>

#include "types.h"
#include "convert.h"

#include "vf.h"
#include "c07_oracle.h"

const char *vf_name = "c07_value";

typedef int (*conv_fn)(const void *, MPT_TYPE(type), void *);

static const char SRC[] = "cbynqiuxtfde";          /* 12 source types */
#define NSRC 12
static const char TGT[] = "cbynqiuxtlfde";         /* 13 scalar targets */
#define NSCAL 13
enum { TOwnVec = NSCAL, TOtherVec, TGenVec, TJunk, NTGT };
#define NAPI 4
static const char *apiname[NAPI] = { "mpt_data_convert_*", "mpt_data_converter", "mpt_value_convert", "mpt_iterator_consume" };
static const char *apikey[NAPI] = { "data_convert", "data_converter", "value_convert", "iterator_consume" };

/* ------------------------------------------------------- API under test -- */
static conv_fn direct(int s, const char **name)
{
	switch (s) {
	case 'c': case 'b': *name = "mpt_data_convert_int8"; return (conv_fn) mpt_data_convert_int8;
	case 'y': *name = "mpt_data_convert_uint8"; return (conv_fn) mpt_data_convert_uint8;
	case 'n': *name = "mpt_data_convert_int16"; return (conv_fn) mpt_data_convert_int16;
	case 'q': *name = "mpt_data_convert_uint16"; return (conv_fn) mpt_data_convert_uint16;
	case 'i': *name = "mpt_data_convert_int32"; return (conv_fn) mpt_data_convert_int32;
	case 'u': *name = "mpt_data_convert_uint32"; return (conv_fn) mpt_data_convert_uint32;
	case 'x': *name = "mpt_data_convert_int64"; return (conv_fn) mpt_data_convert_int64;
	case 't': *name = "mpt_data_convert_uint64"; return (conv_fn) mpt_data_convert_uint64;
	case 'f': *name = "mpt_data_convert_float32"; return (conv_fn) mpt_data_convert_float32;
	case 'd': *name = "mpt_data_convert_float64"; return (conv_fn) mpt_data_convert_float64;
	default:  *name = "mpt_data_convert_exflt"; return (conv_fn) mpt_data_convert_exflt;
	}
}
struct hiter {
	MPT_INTERFACE(iterator) it;
	MPT_STRUCT(value) val;
	int advanced;
};
static const MPT_STRUCT(value) *hit_value(MPT_INTERFACE(iterator) *it) { return &((struct hiter *) it)->val; }
static int hit_advance(MPT_INTERFACE(iterator) *it) { ((struct hiter *) it)->advanced++; return 0; }
static int hit_reset(MPT_INTERFACE(iterator) *it) { (void) it; return 0; }
static const MPT_INTERFACE_VPTR(iterator) hit_vptr = { hit_value, hit_advance, hit_reset };

static conv_fn cur_fn;
static int call_api(int api, int s, const void *from, MPT_TYPE(type) t, void *dest)
{
	switch (api) {
	case 0: case 1:
		return cur_fn(from, t, dest);
	case 2: {
		MPT_STRUCT(value) v = MPT_VALUE_INIT(s, from);
		return mpt_value_convert(&v, t, dest);
	}
	default: {
		struct hiter h;
		h.it._vptr = &hit_vptr;
		h.val._addr = from; h.val._type = s;
		h.advanced = 0;
		return mpt_iterator_consume(&h.it, t, dest);
	}
	}
}

/* ------------------------------------------------------------ monitoring -- */
static struct {
	uint64_t calls, accepted, refused, compared, refused_unrepresentable, refused_representable,
	         float_checked, query_agree, vector_ok, junk_refused, refusal_wrote, code_differs, null_source;
} cnt;
static c07_stats jst;
static char keybuf[96];
static const char *mkkey(int api, const char *what)
{
	snprintf(keybuf, sizeof(keybuf), "model:%s:%s", apikey[api], what);
	return keybuf;
}
#define SENT 0xA5

/*
 * one evaluation: source value (raw bytes at exact-size block `from`), target
 * type code tcode of class tclass, destination block of dsize bytes.
 */
static void evaluate(int api, int s, const void *from, int tclass, MPT_TYPE(type) tcode, uint8_t *dest, size_t dsize, const char *fname)
{
	/* a NULL source address is the library's "zero / default of that type" (every converter reads it as 0) */
	static const uint8_t zeros[16];
	num v = rd(s, from ? from : zeros);
	int rp, rq, wrote = 0;
	size_t k;
	char ctx[200];

	memset(dest, SENT, dsize);
	vf_at(fname);
	rp = call_api(api, s, from, tcode, dest);
	rq = call_api(api, s, from, tcode, 0);
	cnt.calls += 2;
	for (k = 0; k < dsize; k++) if (dest[k] != SENT) { wrote = 1; break; }
	if (vf_logging) {
		vf_log("%s src %c=%s target 0x%zx -> perform %d, query %d%s", fname, s, numstr(nbuf1, v), (size_t) tcode, rp, rq, wrote ? " (destination written)" : "");
	}
	snprintf(ctx, sizeof(ctx), "%s: source %c %s%s, target '%c' (0x%zx)", fname, s, numstr(nbuf1, v), from ? "" : " (NULL address)",
	         (tcode >= 0x20 && tcode < 0x7f) ? (int) tcode : '?', (size_t) tcode);
	if (!from) cnt.null_source++;

	if (rp >= 0) cnt.accepted++; else { cnt.refused++; if (wrote) cnt.refusal_wrote++; }

	if (tclass < NSCAL) {
		int t = TGT[tclass];
		/* verdict of query and of performing call */
		VF_CHECK((rp >= 0) == (rq >= 0), mkkey(api, "query-differs"), "%s: with destination %d, without destination %d", ctx, rp, rq);
		cnt.query_agree++;
		if (rp != rq) cnt.code_differs++;
		c07_judge(apikey[api], ctx, v, t, dest, rp, &jst);
		return;
	}
	if (tclass == TJunk) {
		VF_CHECK(rp < 0 && rq < 0, mkkey(api, "accepted-unknown-target"), "%s: target is not a type (mpt_type_traits() == NULL), perform %d query %d", ctx, rp, rq);
		cnt.junk_refused++;
		return;
	}
	if (tclass == TOtherVec) {
		VF_CHECK(rp < 0, mkkey(api, "vector-of-other-type"), "%s: accepted (%d) as vector of another element type", ctx, rp);
		cnt.junk_refused++;
		return;
	}
	if (tclass == TOwnVec && rp >= 0 && from) {
		struct iovec vec;
		memcpy(&vec, dest, sizeof(vec));
		VF_CHECK(vec.iov_base == from && vec.iov_len == tsize(s), mkkey(api, "vector-not-over-source"),
		         "%s: accepted (%d), iovec {%p, %zu}, source at %p size %zu", ctx, rp, vec.iov_base, vec.iov_len, from, tsize(s));
		cnt.vector_ok++;
	}
}

/* -------------------------------------------------------- source values -- */
#define MAXVALS 12000
static uint8_t vals[MAXVALS][16];
static int nvals;

static void push_int(int s, i128 c)
{
	i128 lo, hi;
	if (nvals >= MAXVALS) return;
	irange(s, &lo, &hi);
	if (c < lo || c > hi) return;
	memset(vals[nvals], 0, 16);
	switch (tsize(s)) {
	case 1: { int8_t v = (int8_t) c; memcpy(vals[nvals], &v, 1); break; }
	case 2: { int16_t v = (int16_t) c; memcpy(vals[nvals], &v, 2); break; }
	case 4: { int32_t v = (int32_t) c; memcpy(vals[nvals], &v, 4); break; }
	default: { uint64_t v = (uint64_t) c; memcpy(vals[nvals], &v, 8); break; }
	}
	nvals++;
}
static void push_flt(int s, long double c)
{
	if (nvals >= MAXVALS) return;
	memset(vals[nvals], 0, 16);
	switch (s) {
	case 'f': { float v = (float) c; memcpy(vals[nvals], &v, sizeof(v)); break; }
	case 'd': { double v = (double) c; memcpy(vals[nvals], &v, sizeof(v)); break; }
	default: memcpy(vals[nvals], &c, sizeof(c));
	}
	nvals++;
}
static void push_flt_around(int s, long double c)
{
	long double r = fround(s, c);
	push_flt(s, r);
	if (isinf(r) || isnan(r)) return;
	push_flt(s, fnext(s, r, 0));
	push_flt(s, fnext(s, r, 1));
	push_flt(s, r + 0.5L);
	push_flt(s, r - 0.5L);
	push_flt(s, r + 0.25L);
}
static void boundary_candidates(void (*emit)(int, i128), int s)
{
	static const int w[] = { 8, 16, 32, 64 };
	int k, d;
	for (k = 0; k < 4; k++) {
		i128 smin = -((i128) 1 << (w[k] - 1)), smax = ((i128) 1 << (w[k] - 1)) - 1, umax = ((i128) 1 << w[k]) - 1;
		for (d = -2; d <= 2; d++) { emit(s, smin + d); emit(s, smax + d); emit(s, umax + d); }
	}
	for (d = -3; d <= 3; d++) emit(s, d);
	for (k = 1; k <= 64; k++) {
		for (d = -1; d <= 1; d++) { emit(s, ((i128) 1 << k) + d); emit(s, -(((i128) 1 << k) + d)); }
	}
	for (d = -2; d <= 2; d++) {
		emit(s, ((i128) 1 << 24) + d); emit(s, -(((i128) 1 << 24) + d));
		emit(s, ((i128) 1 << 53) + d); emit(s, -(((i128) 1 << 53) + d));
		emit(s, ((i128) 1 << 25) + d); emit(s, ((i128) 1 << 54) + d);
	}
	/* printable / non-printable border for 'c' */
	for (d = 0x1e; d <= 0x22; d++) emit(s, d);
	for (d = 0x7c; d <= 0x82; d++) emit(s, d);
	{
		i128 p = 1;
		for (k = 0; k < 20; k++) { emit(s, p); emit(s, -p); emit(s, p - 1); p *= 10; }
	}
}
static void emit_flt(int s, i128 c) { push_flt_around(s, (long double) c); }

static void special_floats(int s)
{
	static const long double fr[] = { 0.1L, 0.5L, 1.5L, 2.5L, -0.75L, 127.5L, -128.5L, 255.5L, 1e10L + 0.5L, 1e-10L, 3.14159265358979323846L };
	size_t k;
	push_flt(s, 0.0L); push_flt(s, -0.0L);
	push_flt(s, INFINITY); push_flt(s, -INFINITY); push_flt(s, NAN); push_flt(s, -NAN);
	for (k = 0; k < sizeof(fr) / sizeof(*fr); k++) { push_flt(s, fr[k]); push_flt(s, -fr[k]); }
	/* limits of every floating type that fit the source type */
	push_flt_around(s, FLT_MAX); push_flt_around(s, -FLT_MAX);
	push_flt_around(s, FLT_MIN); push_flt_around(s, FLT_TRUE_MIN); push_flt_around(s, -FLT_TRUE_MIN);
	push_flt(s, FLT_TRUE_MIN / 2); push_flt(s, FLT_TRUE_MIN * 0.75L); push_flt(s, FLT_TRUE_MIN / 4);
	if (s == 'f') return;
	/* half an ulp above FLT_MAX: first value that rounds to infinity */
	push_flt_around(s, (long double) FLT_MAX + ldexpl(1.0L, 103));
	push_flt_around(s, -((long double) FLT_MAX + ldexpl(1.0L, 103)));
	push_flt_around(s, ldexpl(1.0L, 128));
	push_flt_around(s, 1e39L); push_flt_around(s, 1e300L); push_flt_around(s, -1e300L);
	push_flt_around(s, DBL_MAX); push_flt_around(s, -DBL_MAX);
	push_flt_around(s, DBL_MIN); push_flt_around(s, DBL_TRUE_MIN); push_flt_around(s, -DBL_TRUE_MIN);
	push_flt(s, ldexpl(1.0L, -150)); push_flt(s, ldexpl(3.0L, -151));
	if (s == 'd') return;
	push_flt_around(s, (long double) DBL_MAX + ldexpl(1.0L, 970));
	push_flt_around(s, -((long double) DBL_MAX + ldexpl(1.0L, 970)));
	push_flt_around(s, ldexpl(1.0L, 1024));
	push_flt_around(s, 1e309L); push_flt_around(s, 1e4000L); push_flt_around(s, -1e4000L);
	push_flt_around(s, LDBL_MAX); push_flt_around(s, -LDBL_MAX);
	push_flt_around(s, LDBL_MIN); push_flt(s, LDBL_TRUE_MIN); push_flt(s, ldexpl(1.0L, -1075)); push_flt(s, ldexpl(3.0L, -1076));
	push_flt(s, DBL_TRUE_MIN / 2.0L); push_flt(s, ldexpl(1.0L, -1080));
}
static void random_values(int s, vf_rng *r, int n)
{
	while (n-- > 0 && nvals < MAXVALS) {
		uint64_t u = vf_u64(r);
		if (!is_float(s)) {
			i128 lo, hi, c;
			irange(s, &lo, &hi);
			u >>= vf_below(r, 64);
			c = (i128) u;
			if (lo < 0 && vf_chance(r, 1, 2)) c = -c;
			if (c < lo || c > hi) {
				unsigned __int128 span = (unsigned __int128) (hi - lo) + 1;
				c = (span > UINT64_MAX) ? (i128) (int64_t) u : (i128) (u % (uint64_t) span) + lo;
			}
			push_int(s, c);
			continue;
		}
		switch (vf_below(r, 4)) {
		case 0: {   /* integral value of random magnitude */
			long double c = (long double) (u >> vf_below(r, 64));
			if (vf_chance(r, 1, 4)) c += 0.5L;
			push_flt(s, vf_chance(r, 1, 2) ? -c : c);
			break; }
		case 1: {   /* random mantissa, exponent over the whole range of the source type */
			int emax = s == 'f' ? 150 : s == 'd' ? 1080 : 16450;
			long double c = ldexpl((long double) (u | 1), vf_range(r, -emax - 63, emax - 63));
			push_flt(s, vf_chance(r, 1, 2) ? -c : c);
			break; }
		case 2:     /* random bit pattern (float/double: every pattern is a value) */
			if (s == 'f') { uint32_t b = (uint32_t) u; float f; memcpy(&f, &b, 4); push_flt(s, f); }
			else if (s == 'd') { double d; memcpy(&d, &u, 8); push_flt(s, d); }
			else push_flt(s, ldexpl((long double) u, vf_range(r, -16445 - 63, 16383 - 63)));
			break;
		default: {  /* close to the range limits of the narrower types */
			long double b = vf_chance(r, 1, 2) ? (long double) FLT_MAX : (long double) DBL_MAX;
			long double c = b * (1.0L + ((long double) (int) vf_range(r, -40, 40)) * ldexpl(1.0L, -26 - (int) vf_below(r, 30)));
			push_flt(s, vf_chance(r, 1, 2) ? -c : c);
		}
		}
	}
}

/* ----------------------------------------------------------------- cases -- */
static int n_wide_blocks(void) { return vf_thorough ? 160 : 16; }
static int n_random(void) { return vf_thorough ? 4000 : 1000; }
/* blocks per source type */
static int blocks_of(int s)
{
	switch (tsize(s)) {
	case 1: return 1;
	case 2: return 16;
	default: return n_wide_blocks();
	}
}
static uint64_t cases_per_pair(void)
{
	uint64_t n = 0;
	int i;
	for (i = 0; i < NSRC; i++) n += (uint64_t) blocks_of(SRC[i]);
	return n;
}
#define NDEG 2
uint64_t vf_cases(void) { return (uint64_t) NAPI * NTGT * cases_per_pair() + NDEG; }

/*
 * degenerate but admissible struct value states: strings (empty, NULL pointer,
 * no address) and vectors (empty iovec, no address) as sources of every
 * target.  They denote no number: only "query and performing call agree, no
 * fault, an accepted text/vector target is empty" is asserted.
 */
static void case_degenerate(int api)
{
	static const char *empty = "";
	static const char *nullstr = 0;
	static const struct iovec noiov = { 0, 0 };
	struct { MPT_TYPE(type) type; const void *addr; const char *what; } src[64];
	MPT_TYPE(type) tgt[40];
	int ns = 0, nt = 0, i, j;
	uint64_t agreed = 0, accepted = 0, number_from_empty = 0;

	src[ns].type = 's'; src[ns].addr = &empty; src[ns++].what = "string \"\"";
	src[ns].type = 's'; src[ns].addr = &nullstr; src[ns++].what = "string NULL";
	src[ns].type = 's'; src[ns].addr = 0; src[ns++].what = "string without address";
	for (i = 0; i < NSRC; i++) {
		src[ns].type = MPT_type_toVector(SRC[i]); src[ns].addr = &noiov; src[ns++].what = "empty vector";
		src[ns].type = MPT_type_toVector(SRC[i]); src[ns].addr = 0; src[ns++].what = "vector without address";
	}
	src[ns].type = MPT_ENUM(TypeVector); src[ns].addr = &noiov; src[ns++].what = "empty generic vector";
	src[ns].type = MPT_ENUM(TypeVector); src[ns].addr = 0; src[ns++].what = "generic vector without address";
	for (i = 0; i < NSCAL; i++) tgt[nt++] = (MPT_TYPE(type)) TGT[i];
	if (api == 2) {
		tgt[nt++] = 's'; tgt[nt++] = MPT_ENUM(TypeVector); tgt[nt++] = MPT_type_toVector('c'); tgt[nt++] = MPT_type_toVector('d');
		tgt[nt++] = 0;   /* stands for: the source's own type */
	}
	vf_fp_u64(0xde9 + (uint64_t) api);
	for (i = 0; i < ns; i++) {
		for (j = 0; j < nt; j++) {
			MPT_TYPE(type) t = tgt[j] ? tgt[j] : src[i].type;
			size_t ds = tsize((int) t) ? tsize((int) t) : (t == 's' ? sizeof(char *) : sizeof(struct iovec));
			uint8_t *dest = vf_xalloc(ds);
			int rp, rq;
			memset(dest, SENT, ds);
			vf_at(apiname[api]);
			rp = call_api(api, (int) src[i].type, src[i].addr, t, dest);
			rq = call_api(api, (int) src[i].type, src[i].addr, t, 0);
			if (vf_logging) vf_log("%s: %s (type 0x%zx) -> target 0x%zx: perform %d, query %d", apiname[api], src[i].what, (size_t) src[i].type, (size_t) t, rp, rq);
			VF_CHECK((rp >= 0) == (rq >= 0), mkkey(api, "query-differs"), "%s: %s (type 0x%zx) to target 0x%zx: with destination %d, without destination %d",
			         apiname[api], src[i].what, (size_t) src[i].type, (size_t) t, rp, rq);
			agreed++;
			if (rp >= 0) {
				accepted++;
				if (tsize((int) t)) number_from_empty++;
				else if (t == 's') {
					const char *p;
					memcpy(&p, dest, sizeof(p));
					VF_CHECK(!p || !*p, mkkey(api, "empty-source-not-empty"), "%s: %s converted to 's' gives a non-empty text", apiname[api], src[i].what);
				}
				else {
					struct iovec v;
					memcpy(&v, dest, sizeof(v));
					VF_CHECK(!v.iov_len, mkkey(api, "empty-source-not-empty"), "%s: %s converted to vector 0x%zx gives %zu bytes", apiname[api], src[i].what, (size_t) t, v.iov_len);
				}
			}
			vf_xfree(dest, ds);
		}
	}
	vf_count("monitor:degenerate-source-query-compared", agreed);
	vf_count("eval:degenerate-source-accepted", accepted);
	vf_count("observe:number-from-empty-source", number_from_empty);
	vf_count(apiname[api], 2 * agreed);
	vf_nontrivial();
	vf_sample("%s: %d degenerate sources (empty/NULL strings, empty vectors, values without address) x %d targets, query vs perform", apiname[api], ns, nt);
}

static const MPT_TYPE(type) junk_types[] = { 'h', 0, 'a', 'z', 'g', 'j', 'm', 'o', 'p', 'r', 'v', 'w', 0x7f, 0x3f, 0x1f, 0x2, 0xc0, 0x7ff, 0x1000, (MPT_TYPE(type)) -1 };
#define NJUNK ((int) (sizeof(junk_types) / sizeof(*junk_types)))

void vf_case(uint64_t idx, vf_rng *r)
{
	uint64_t per = cases_per_pair(), rest;
	int api;
	if (idx >= (uint64_t) NAPI * NTGT * per) { case_degenerate(2 + (int) (idx - (uint64_t) NAPI * NTGT * per)); return; }
	api = (int) (idx / (NTGT * per));
	int tclass, si, s, block, i;
	MPT_TYPE(type) tcode;
	size_t dsize;
	const char *fname = 0;
	uint8_t *dest, *from;

	rest = idx % (NTGT * per);
	tclass = (int) (rest / per);
	rest %= per;
	for (si = 0; si < NSRC; si++) {
		uint64_t b = (uint64_t) blocks_of(SRC[si]);
		if (rest < b) break;
		rest -= b;
	}
	s = SRC[si];
	block = (int) rest;

	/* target type code and destination size */
	if (tclass < NSCAL) { tcode = (MPT_TYPE(type)) TGT[tclass]; dsize = tsize(TGT[tclass]); }
	else if (tclass == TOwnVec) { tcode = MPT_type_toVector(s); dsize = sizeof(struct iovec); }
	else if (tclass == TOtherVec) { int o = SRC[(si + 1 + block % (NSRC - 1)) % NSRC]; if ((o == 'c' && s == 'b') || (o == 'b' && s == 'c')) o = 'x'; tcode = MPT_type_toVector(o); dsize = sizeof(struct iovec); }
	else if (tclass == TGenVec) { tcode = MPT_ENUM(TypeVector); dsize = sizeof(struct iovec); }
	else {
		tcode = junk_types[(block + si) % NJUNK];
		dsize = 32;
		/* type 0 asks mpt_iterator_consume to skip the value: not a conversion */
		if (api == 3 && !tcode) tcode = 'h';
		vf_at("mpt_type_traits");
		for (i = 0; i < NJUNK; i++) {
			if (junk_types[i] && mpt_type_traits(junk_types[i])) vf_inconclusive("type code 0x%zx used as unknown target is a registered type", (size_t) junk_types[i]);
		}
	}

	/* source values */
	nvals = 0;
	if (tsize(s) == 1) {
		for (i = 0; i < 256; i++) { memset(vals[nvals], 0, 16); vals[nvals++][0] = (uint8_t) i; }
	} else if (tsize(s) == 2) {
		for (i = 0; i < 4096; i++) { uint16_t v = (uint16_t) (block * 4096 + i); memset(vals[nvals], 0, 16); memcpy(vals[nvals++], &v, 2); }
	} else if (!is_float(s)) {
		boundary_candidates(push_int, s);
		random_values(s, r, n_random());
	} else {
		boundary_candidates(emit_flt, s);
		special_floats(s);
		random_values(s, r, n_random());
	}

	/* function under test */
	cur_fn = direct(s, &fname);
	if (api == 1) {
		conv_fn d = cur_fn;
		vf_at("mpt_data_converter");
		cur_fn = (conv_fn) mpt_data_converter(s);
		vf_count("mpt_data_converter", 1);
		if (!cur_fn) { vf_count("observe:no-converter-for-scalar", 1); return; }
		if (cur_fn != d) vf_count("observe:dispatcher-picks-other-function", 1);
		fname = "mpt_data_converter";
	} else if (api >= 2) fname = apiname[api];

	memset(&cnt, 0, sizeof(cnt));
	memset(&jst, 0, sizeof(jst));
	dest = vf_xalloc(dsize);
	from = vf_xalloc(tsize(s));
	{
		uint64_t h = 0xcbf29ce484222325ULL;
		for (i = 0; i < nvals; i++) {
			memcpy(from, vals[i], tsize(s));
			if (tclass == TJunk) {
				/* every unknown target code meets every source type */
				tcode = junk_types[(block + i) % NJUNK];
				if (api == 3 && !tcode) tcode = 'h';
			}
			evaluate(api, s, from, tclass, tcode, dest, dsize, fname);
			/* the same conversion from a value without data address: must behave like an explicit zero */
			if (i % 97 == 0) {
				if (tclass == TJunk) { tcode = junk_types[(block + i + 1) % NJUNK]; if (api == 3 && !tcode) tcode = 'h'; }
				evaluate(api, s, 0, tclass, tcode, dest, dsize, fname);
			}
			h = (h ^ vals[i][0] ^ ((uint64_t) vals[i][7] << 8)) * 0x100000001b3ULL;
		}
		vf_fp_u64(((uint64_t) api << 40) ^ ((uint64_t) tclass << 32) ^ ((uint64_t) s << 16) ^ (uint64_t) block);
		vf_fp_u64(h);
	}
	vf_xfree(dest, dsize);
	vf_xfree(from, tsize(s));

	/* evidence */
	vf_count(api == 1 ? "mpt_data_converter:calls-through" : fname, cnt.calls);
	vf_count("eval:conversions", (uint64_t) nvals);
	vf_count("eval:accepted", cnt.accepted);
	vf_count("eval:refused", cnt.refused);
	vf_count("monitor:target-value-compared", jst.compared);
	vf_count("monitor:float-nearest-checked", jst.float_checked);
	vf_count("monitor:query-verdict-compared", cnt.query_agree);
	vf_count("monitor:refused-not-representable", jst.refused_unrepresentable);
	vf_count("observe:refused-although-representable", jst.refused_representable);
	vf_count("monitor:vector-over-source", cnt.vector_ok);
	vf_count("eval:null-address-source", cnt.null_source);
	vf_count("monitor:unknown-target-refused", cnt.junk_refused);
	vf_count("observe:refusal-wrote-destination", cnt.refusal_wrote);
	vf_count("observe:query-code-differs", cnt.code_differs);
	if (tsize(s) <= 2) vf_count("exhaustive:blocks", 1);
	if (jst.compared || jst.refused_unrepresentable) vf_nontrivial();
	if (idx % 61 == 3) vf_sample("%s source '%c' target 0x%zx block %d: %d values (%s), accepted %llu (all compared with the oracle), refused %llu (%llu not representable)",
	          fname, s, (size_t) tcode, block, nvals, tsize(s) <= 2 ? "exhaustive range" : "boundary list + PRNG",
	          (unsigned long long) cnt.accepted, (unsigned long long) cnt.refused, (unsigned long long) jst.refused_unrepresentable);
}
