/*
 * C01: message framing round-trip for every codec (C leg).
 *
 * Encoder drivers (real code paths):
 *   raw   - the encoder function itself, output block of exact size granted by
 *           a capacity schedule; MissingBuffer (and a call that consumes
 *           nothing) is answered by a larger block with the same leading bytes
 *   array - mpt_array_push() on an encode_array
 * A case encodes 1..4 messages one after the other into the same buffer
 * (optionally removing finished bytes from the front in between, as a
 * transport does), each message handed over in pieces.
 *
 * Monitors: frame shape (zero free + exactly one final delimiter), reference
 * decoder on the frame == message, real decoder == message (c03_driver.h: one
 * shot and segmented / fragmented / with peeks; all C03 memory monitors are
 * active there), encoder state sanity, finished bytes never modified later,
 * command framing refuses messages containing a zero.
 */
#include <stdlib.h>
#include <sys/uio.h>

#include "array.h"
#include "convert.h"

#include "vf.h"
#include "c01_refcodec.h"
#include "c01_gen.h"
#include "c03_driver.h"

const char *vf_name = "c01_codec";

typedef ssize_t (*enc_fn_t)(MPT_STRUCT(encode_state) *, const struct iovec *, const struct iovec *);
static enc_fn_t const enc_fn[RC_NFMT] = {
	mpt_encode_cobs, mpt_encode_cobs_r, mpt_encode_cobs_zpe, mpt_encode_cobs_zpe_r, mpt_encode_string
};
static const char *const enc_api[RC_NFMT] = {
	"mpt_encode_cobs", "mpt_encode_cobs_r", "mpt_encode_cobs_zpe", "mpt_encode_cobs_zpe_r", "mpt_encode_string"
};
static const char *const cnt_frames[RC_NFMT] = {
	"frames:cobs", "frames:cobs_r", "frames:cobs_zpe", "frames:cobs_zpe_r", "frames:command"
};

#define MAXMSG 1100
#define MAXMSGS 8

static char kbuf[160], hx1[700], hx2[700];
static const char *ekey(int fmt, const char *drv, const char *what)
{
	snprintf(kbuf, sizeof(kbuf), "model:%s:%s:%s", enc_api[fmt] + 4, drv, what);
	return kbuf;
}

/* ------------------------------------------------------------ raw driver */
enum { CapPlus1, CapPlusK, CapEnough, CapDouble, CapModes };
static const char *const capname[CapModes] = { "+1", "+k", "enough", "double" };

typedef struct {
	int fmt;
	MPT_STRUCT(encode_state) st;
	uint8_t *out;        /* exact-size block */
	size_t cap;
	int null_start;      /* first call gets { NULL, 0 } */
	int mode, k;
	size_t cap0;
	size_t loops, loopmax;
} raw_enc;

static void raw_grow(raw_enc *e, size_t hint)
{
	size_t used = e->st.done + e->st.scratch;
	size_t ncap = e->cap + 1;
	uint8_t *n;
	switch (e->mode) {
	case CapPlusK: ncap = e->cap + e->k; break;
	case CapEnough: ncap = used + hint; break;
	case CapDouble: ncap = e->cap * 2; break;
	}
	if (ncap <= e->cap) ncap = e->cap + 1;
	n = vf_xalloc(ncap);
	memset(n, 0xEE, ncap);
	if (e->out) {
		memcpy(n, e->out, e->cap);
		vf_xfree(e->out, e->cap);
	}
	e->out = n;
	e->cap = ncap;
	vf_count("raw:grow", 1);
}
/* one encoder call + invariants; returns the library's result */
static ssize_t raw_call(raw_enc *e, const uint8_t *ptr, size_t len, int term)
{
	static uint8_t snap[4 * MAXMSG * MAXMSGS];
	struct iovec to, from;
	MPT_STRUCT(encode_state) sb = e->st;
	uint8_t *src = 0;
	ssize_t r;

	if (++e->loops > e->loopmax) {
		vf_fail(ekey(e->fmt, "raw", "no-progress"), "%zu encoder calls without finishing (cap=%zu done=%zu scratch=%zu)", e->loops, e->cap, e->st.done, e->st.scratch);
	}
	if (sb.done <= sizeof(snap) && sb.done <= e->cap) memcpy(snap, e->out, sb.done);
	to.iov_base = e->out;
	to.iov_len = e->cap;
	if (!term) {
		/* source piece in its own exact block */
		src = vf_xalloc(len);
		memcpy(src, ptr, len);
		from.iov_base = src;
		from.iov_len = len;
	}
	vf_at(enc_api[e->fmt]);
	vf_count(enc_api[e->fmt], 1);
	r = enc_fn[e->fmt](&e->st, &to, term ? 0 : &from);
	if (vf_logging) {
		vf_log("%s raw %s(len=%zu) cap=%zu -> %zd  state done=%zu scratch=%zu -> done=%zu scratch=%zu", rc_name[e->fmt],
		       term ? "terminate" : "push", len, e->cap, r, sb.done, sb.scratch, e->st.done, e->st.scratch);
	}
	if (src) {
		VF_CHECK(!memcmp(src, ptr, len), ekey(e->fmt, "raw", "source-modified"), "encoder changed its input data");
		vf_xfree(src, len);
	}
	VF_CHECK(e->st.done + e->st.scratch <= e->cap, ekey(e->fmt, "raw", "state-exceeds-output"),
	         "after %s(len=%zu) = %zd: done=%zu scratch=%zu but output has %zu bytes (before: done=%zu scratch=%zu)",
	         term ? "terminate" : "push", len, r, e->st.done, e->st.scratch, e->cap, sb.done, sb.scratch);
	if (sb.done <= sizeof(snap) && sb.done <= e->cap && memcmp(snap, e->out, sb.done)) {
		size_t i = 0;
		while (snap[i] == e->out[i]) i++;
		vf_fail(ekey(e->fmt, "raw", "finished-bytes-modified"), "%s(len=%zu) = %zd changed byte %zu of the %zu finished bytes (%02x -> %02x)",
		        term ? "terminate" : "push", len, r, i, sb.done, snap[i], e->out[i]);
	}
	if (r >= 0) {
		VF_CHECK(e->st.done >= sb.done, ekey(e->fmt, "raw", "finished-size-shrinks"), "done %zu -> %zu", sb.done, e->st.done);
		if (!term) VF_CHECK((size_t) r <= len, ekey(e->fmt, "raw", "consumed-more-than-given"), "push(len=%zu) returned %zd", len, r);
	}
	vf_count("monitor:encoder-call-invariants", 1);
	return r;
}
static void raw_init(raw_enc *e, int fmt, vf_rng *r, size_t total)
{
	static const MPT_STRUCT(encode_state) init = MPT_ENCODE_INIT;
	memset(e, 0, sizeof(*e));
	e->fmt = fmt;
	e->st = init;
	e->mode = (int) vf_below(r, CapModes);
	e->k = 2 + (int) vf_below(r, vf_chance(r, 1, 2) ? 6 : 300);
	e->cap = vf_below(r, 9);
	if (vf_chance(r, 1, 6)) e->cap = 250 + vf_below(r, 10);
	e->null_start = !vf_chance(r, 3, 4);
	if (e->null_start) e->cap = 0;
	else { e->out = vf_xalloc(e->cap); memset(e->out, 0xEE, e->cap); }
	e->loopmax = 8 * (total + 8) + 64;
	e->cap0 = e->cap;
}
/* returns 0, or the (negative) refusal of the encoder */
static ssize_t raw_push(raw_enc *e, const uint8_t *ptr, size_t len)
{
	while (len) {
		ssize_t r = raw_call(e, ptr, len, 0);
		if (r == MPT_ERROR(MissingBuffer)) { vf_count("raw:missing-buffer-on-push", 1); raw_grow(e, len + len / 200 + 3); continue; }
		if (r < 0) return r;
		if (!r) {
			/* nothing consumed and no request for space: only more space can help */
			vf_count("raw:zero-progress-return", 1);
			raw_grow(e, len + len / 200 + 3);
			continue;
		}
		if ((size_t) r < len) vf_count("raw:short-return", 1);
		ptr += r; len -= r;
	}
	return 0;
}
static ssize_t raw_term(raw_enc *e)
{
	while (1) {
		ssize_t r = raw_call(e, 0, 0, 1);
		if (r == MPT_ERROR(MissingBuffer)) { vf_count("raw:missing-buffer-on-terminate", 1); raw_grow(e, 3); continue; }
		return r;
	}
}

/* ---------------------------------------------------------- array driver */
typedef struct {
	int fmt;
	MPT_STRUCT(encode_array) arr;
} arr_enc;

/* start of the finished data: released bytes (state.done reduced by a transport) stay in front */
static const uint8_t *arr_base(const arr_enc *a, size_t *used)
{
	const MPT_STRUCT(buffer) *b = a->arr._d._buf;
	if (!b) { *used = 0; return 0; }
	*used = b->_used;
	return (const uint8_t *) (b + 1);
}
/*
 * the array's encoder is a counting wrapper around the real one: what the
 * encoder consumed during one mpt_array_push() is known exactly
 */
static enc_fn_t wrap_real;
static size_t wrap_data_calls, wrap_progress_calls, wrap_consumed;
static ssize_t enc_wrap(MPT_STRUCT(encode_state) *st, const struct iovec *to, const struct iovec *from)
{
	ssize_t r = wrap_real(st, to, from);
	if (to && from) {
		wrap_data_calls++;
		if (r > 0) { wrap_progress_calls++; wrap_consumed += (size_t) r; }
	}
	return r;
}
static void arr_init(arr_enc *a, int fmt)
{
	static const MPT_STRUCT(encode_array) ainit = MPT_ENCODE_ARRAY_INIT;
	a->fmt = fmt;
	a->arr = ainit;
	wrap_real = enc_fn[fmt];
	a->arr._enc = enc_wrap;
}
/*
 * hand one piece over the way a caller does that honours the returned
 * "consumed size": advance by it until everything is taken.
 * Returns 0, or the refusal (negative return; -2000: no progress).
 */
static int arr_push_all(arr_enc *a, const uint8_t *ptr, size_t l)
{
	const int fmt = a->fmt;
	int rounds = 0;
	while (l) {
		uint8_t *src = vf_xalloc(l);
		ssize_t rr;
		memcpy(src, ptr, l);
		wrap_data_calls = wrap_progress_calls = wrap_consumed = 0;
		vf_at("mpt_array_push");
		vf_count("mpt_array_push", 1);
		rr = mpt_array_push(&a->arr, l, src);
		if (vf_logging) vf_log("%s array push(len=%zu) -> %zd  (%zu encoder calls, %zu with progress, %zu bytes consumed) done=%zu scratch=%zu", rc_name[fmt], l, rr,
		                       wrap_data_calls, wrap_progress_calls, wrap_consumed, a->arr._state.done, a->arr._state.scratch);
		VF_CHECK(!memcmp(src, ptr, l), ekey(fmt, "array", "source-modified"), "mpt_array_push changed its input data");
		vf_xfree(src, l);
		if (a->arr._d._buf && a->arr._d._buf->_used == a->arr._d._buf->_size) vf_count("state:array-buffer-exactly-full", 1);
		if (wrap_progress_calls >= 3) vf_count("state:push-with-3+-progressing-encoder-calls", 1);
		else if (wrap_progress_calls == 2) vf_count("state:push-with-2-progressing-encoder-calls", 1);
		if (rr < 0) return (int) rr;
		/* the returned size is what callers advance by: it must be what the encoder took */
		VF_CHECK((size_t) rr == wrap_consumed && (size_t) rr <= l, ekey(fmt, "array", "return-differs-from-consumed"),
		         "mpt_array_push(len=%zu) returned %zd but its encoder calls consumed %zu bytes (%zu calls, %zu with progress); done=%zu scratch=%zu used=%zu",
		         l, rr, wrap_consumed, wrap_data_calls, wrap_progress_calls, a->arr._state.done, a->arr._state.scratch,
		         a->arr._d._buf ? a->arr._d._buf->_used : 0);
		vf_count("monitor:push-return-vs-consumed", 1);
		if (!rr) return -2000;
		if ((size_t) rr < l) { vf_count("array:short-return", 1); if (++rounds > 64) return -2000; }
		ptr += rr; l -= (size_t) rr;
	}
	return 0;
}

/* ------------------------------------------------------------- decoding */
static void sched_pick(dd_sched *sc, int fmt, vf_rng *r, int variant)
{
	static const int slacks[] = { 0, 0, 1, 2, 3, 8, 15, 16, 17, 40 };
	static const int mbks[] = { 1, 1, 2, 3, 8, 64 };
	memset(sc, 0, sizeof(*sc));
	sc->fmt = fmt;
	sc->slack = slacks[vf_below(r, 10)];
	if (fmt == RC_CMD && sc->slack < 2 && vf_chance(r, 3, 4)) sc->slack = 2;
	sc->mbk = mbks[vf_below(r, 6)];
	switch (variant) {
	case 0:  /* the plain caller of examples/core/coding.c */
		sc->deliver = DD_ONESHOT; sc->frag = 0;
		if (fmt != RC_CMD) sc->slack = 0; else sc->slack = 2;
		sc->mbk = 8;
		break;
	case 1:
		sc->deliver = DD_BYTEWISE; sc->frag = 0;
		break;
	default:
		sc->deliver = (int) vf_below(r, 3);
		sc->frag = vf_chance(r, 2, 3);
		sc->peeks = vf_chance(r, 1, 2);
		sc->again = vf_chance(r, 1, 2);
	}
}
static void decode_check(int fmt, const char *drv, const uint8_t *frames, size_t flen, unsigned nmsg, vf_rng *r, int nvariants)
{
	dd_sched sc;
	dd_result res;
	for (int v = 0; v < nvariants; v++) {
		sched_pick(&sc, fmt, r, v);
		if (flen > 600 && sc.deliver == DD_BYTEWISE && !vf_thorough && v > 1) sc.deliver = DD_CUTS;
		/* byte-wise delivery costs O(n^2) region copies: long multi-frame streams get PRNG cuts instead */
		if (flen > (vf_thorough ? 3000 : 1200) && sc.deliver == DD_BYTEWISE) sc.deliver = DD_CUTS;
		dd_run(&sc, frames, flen, r, 1, &res);
		VF_CHECK(res.messages == nmsg && !res.errors && !res.unclaimed, ekey(fmt, drv, "decoded-message-count"),
		         "%u frames decoded to %u messages, %u errors, %u unclaimed (last return %d); frames=%s", nmsg, res.messages, res.errors, res.unclaimed,
		         res.last_ret, vf_hex(hx1, sizeof(hx1), frames, flen));
		vf_count(v == 0 ? "decode:oneshot" : v == 1 ? "decode:bytewise" : "decode:prng-schedule", 1);
		if (res.missing_buffer) vf_count("decode:runs-with-missing-buffer", 1);
	}
}

/* frame checks common to both drivers */
static void frame_check(int fmt, const char *drv, const uint8_t *f, size_t flen, const uint8_t *msg, size_t mlen)
{
	static uint8_t dec[2 * (MAXMSG + 300) + 8];
	size_t dl = 0;
	int v;
	VF_CHECK(rc_frame_shape_ok(f, flen), ekey(fmt, drv, "frame-shape"),
	         "frame of %zu bytes for a %zu byte message is not <zero-free bytes> 00: frame=%s msg=%s", flen, mlen,
	         vf_hex(hx1, sizeof(hx1), f, flen), vf_hex(hx2, sizeof(hx2), msg, mlen));
	VF_CHECK(flen <= 2 * (MAXMSG + 300), ekey(fmt, drv, "frame-shape"), "frame of %zu bytes for %zu byte message", flen, mlen);
	v = rc_decode(fmt, f, flen - 1, dec, &dl);
	if (fmt == RC_CMD) {
		VF_CHECK(v == RC_OK && dl == mlen + 2 && !memcmp(dec + 2, msg, mlen), ekey(fmt, drv, "frame-differs-from-message"),
		         "command frame %s for message %s", vf_hex(hx1, sizeof(hx1), f, flen), vf_hex(hx2, sizeof(hx2), msg, mlen));
	} else {
		VF_CHECK(v == RC_OK && dl == mlen && !memcmp(dec, msg, mlen), ekey(fmt, drv, "reference-decode-differs"),
		         "reference decoder: verdict %d, %zu bytes %s; message %zu bytes %s; frame %zu bytes %s", v, dl, vf_hex(hx1, 220, dec, dl),
		         mlen, vf_hex(hx2, 220, msg, mlen), flen, vf_hex(hx1 + 230, 400, f, flen));
	}
	vf_count("monitor:frame-shape+reference-decode", 1);
	vf_count(cnt_frames[fmt], 1);
	if (rc_seen.inline_tail) vf_count("state:frame-with-inlined-tail", 1);
	if (rc_seen.pairs) vf_count("state:frame-with-zero-pair-code", 1);
	if (rc_seen.full_blocks) vf_count("state:frame-with-full-block", 1);
	if (rc_seen.blocks > 2) vf_count("state:frame-with-3+-blocks", 1);
}

/* ------------------------------------------------------------------ case */
typedef struct {
	int fmt, driver;           /* driver 0 raw, 1 array */
	unsigned nmsg;
	uint8_t msg[MAXMSGS][MAXMSG];
	size_t mlen[MAXMSGS];
	int split[MAXMSGS];
	int nvariants;
	unsigned release;          /* array driver: chance (of 4) to release finished bytes after a message */
} ccase;

static void nontrivial_note(const ccase *c, size_t framebytes)
{
	/* rule: at least one message has a zero or spans more than one code block, or is pushed in > 1 piece */
	for (unsigned i = 0; i < c->nmsg; i++) {
		if (c->mlen[i] && (memchr(c->msg[i], 0, c->mlen[i]) || c->mlen[i] >= 222 || c->split[i])) { vf_nontrivial(); break; }
	}
	(void) framebytes;
}

static void run_case(ccase *c, vf_rng *r)
{
	static uint8_t frames[MAXMSGS * (MAXMSG + 40)];
	static size_t cut[GEN_MAXPIECES];
	size_t flen = 0, total = 0;
	const int fmt = c->fmt;
	const char *drv = c->driver ? "array" : "raw";
	raw_enc e;
	arr_enc a;
	size_t removed = 0;       /* finished bytes taken from the front so far (raw) */
	unsigned i;

	for (i = 0; i < c->nmsg; i++) total += c->mlen[i];
	vf_fp_u64(((uint64_t) fmt << 8) | (uint64_t) c->driver | ((uint64_t) c->nmsg << 16));
	if (c->driver == 0) raw_init(&e, fmt, r, total + 300 * c->nmsg);
	else arr_init(&a, fmt);
	for (i = 0; i < c->nmsg; i++) {
		const uint8_t *m = c->msg[i];
		size_t n = c->mlen[i], np, p, pos = 0, fstart, fend;
		int haszero = n && memchr(m, 0, n);
		int refused = 0;

		vf_fp(m, n);
		vf_fp_u64(c->split[i]);
		np = gen_split(r, m, n, c->split[i], cut);
		if (vf_logging) vf_log("message %u: %zu bytes, %zu pieces, %s: %s", i, n, np, drv, vf_hex(hx1, sizeof(hx1), m, n));
		if (c->driver == 0) {
			fstart = e.st.done;
			VF_CHECK(!e.st.scratch, ekey(fmt, drv, "open-block-after-terminate"), "scratch=%zu at message start", e.st.scratch);
			for (p = 0; p < np && !refused; p++) {
				ssize_t rr = raw_push(&e, m + pos, cut[p] - pos);
				if (rr < 0) { refused = (int) rr; break; }
				pos = cut[p];
			}
			if (!refused) {
				ssize_t rr = raw_term(&e);
				if (rr < 0) refused = (int) rr;
				else VF_CHECK(rr == 0, ekey(fmt, drv, "terminate-return"), "terminate returned %zd", rr);
			}
			if (fmt == RC_CMD && haszero) {
				VF_CHECK(refused, ekey(fmt, drv, "zero-byte-accepted"), "command text containing a zero byte was encoded: %s", vf_hex(hx1, sizeof(hx1), m, n));
				vf_count("monitor:command-zero-refused", 1);
				/* encoder state after a refusal is not specified: start over */
				vf_xfree(e.out, e.cap);
				raw_init(&e, fmt, r, total + 300 * c->nmsg);
				removed = 0; flen = 0;
				c->mlen[i] = (size_t) -1;
				continue;
			}
			VF_CHECK(!refused, ekey(fmt, drv, "admissible-message-refused"), "encoder returned %d for message %u (%zu bytes, piece %zu of %zu) %s; cap=%zu done=%zu scratch=%zu",
			         refused, i, n, p, np, vf_hex(hx1, sizeof(hx1), m, n), e.cap, e.st.done, e.st.scratch);
			fend = e.st.done;
			VF_CHECK(!e.st.scratch && fend > fstart && fend <= e.cap, ekey(fmt, drv, "state-after-terminate"),
			         "message %u (%zu bytes): done %zu -> %zu scratch=%zu cap=%zu", i, n, fstart, fend, e.st.scratch, e.cap);
			frame_check(fmt, drv, e.out + fstart, fend - fstart, m, n);
			memcpy(frames + flen, e.out + fstart, fend - fstart);
			flen += fend - fstart;
			/* all finished bytes so far must be the frames produced so far */
			VF_CHECK(removed + e.st.done == flen && !memcmp(e.out, frames + removed, e.st.done), ekey(fmt, drv, "finished-bytes-differ-from-frames"),
			         "after message %u: %zu finished bytes in the buffer + %zu removed, %zu frame bytes produced; buffer=%s frames=%s",
			         i, e.st.done, removed, flen, vf_hex(hx1, sizeof(hx1), e.out, e.st.done), vf_hex(hx2, sizeof(hx2), frames + removed, flen - removed));
			/* transport takes k <= done bytes from the front */
			if (vf_chance(r, 1, 3) && e.st.done) {
				size_t k = vf_chance(r, 1, 2) ? e.st.done : 1 + vf_below(r, (uint32_t) e.st.done);
				memmove(e.out, e.out + k, e.cap - k);
				e.st.done -= k;
				removed += k;
				vf_count("raw:front-removed", 1);
			}
		} else {
			size_t used;
			const uint8_t *base;
			fstart = a.arr._state.done;
			for (p = 0; p < np && !refused; p++) {
				refused = arr_push_all(&a, m + pos, cut[p] - pos);
				if (refused) break;
				pos = cut[p];
			}
			if (!refused) {
				ssize_t rr;
				vf_at("mpt_array_push");
				vf_count("mpt_array_push", 1);
				rr = mpt_array_push(&a.arr, 0, 0);
				if (vf_logging) vf_log("%s array terminate -> %zd  done=%zu scratch=%zu", rc_name[fmt], rr, a.arr._state.done, a.arr._state.scratch);
				if (rr < 0) refused = (int) rr;
			}
			if (fmt == RC_CMD && haszero) {
				VF_CHECK(refused, ekey(fmt, drv, "zero-byte-accepted"), "command text containing a zero byte was encoded: %s", vf_hex(hx1, sizeof(hx1), m, n));
				vf_count("monitor:command-zero-refused", 1);
				mpt_encode_array_fini(&a.arr);
				arr_init(&a, fmt);
				removed = 0; flen = 0;
				c->mlen[i] = (size_t) -1;
				continue;
			}
			VF_CHECK(!refused, ekey(fmt, drv, "admissible-message-refused"), "mpt_array_push returned %d (-2000: no progress) for message %u (%zu bytes, piece %zu of %zu) %s; done=%zu scratch=%zu",
			         refused, i, n, p, np, vf_hex(hx1, sizeof(hx1), m, n), a.arr._state.done, a.arr._state.scratch);
			fend = a.arr._state.done;
			base = arr_base(&a, &used);
			VF_CHECK(base && !a.arr._state.scratch && fend > fstart && fend <= used, ekey(fmt, drv, "state-after-terminate"),
			         "message %u (%zu bytes): done %zu -> %zu scratch=%zu used=%zu", i, n, fstart, fend, a.arr._state.scratch, used);
			base += used - fend;      /* finished data sits at the end of the used part */
			frame_check(fmt, drv, base + fstart, fend - fstart, m, n);
			memcpy(frames + flen, base + fstart, fend - fstart);
			flen += fend - fstart;
			VF_CHECK(removed + fend == flen && !memcmp(base, frames + removed, fend), ekey(fmt, drv, "finished-bytes-differ-from-frames"),
			         "after message %u: %zu finished bytes in the array + %zu released, %zu frame bytes produced; array=%s frames=%s",
			         i, fend, removed, flen, vf_hex(hx1, sizeof(hx1), base, fend), vf_hex(hx2, sizeof(hx2), frames + removed, flen - removed));
			/* transport releases k <= done finished bytes (what encode_array::shift(k) does): they stay in front of the buffer */
			if (vf_chance(r, c->release, 4)) {
				size_t k = vf_chance(r, 3, 4) ? fend : 1 + vf_below(r, (uint32_t) fend);
				a.arr._state.done -= k;
				removed += k;
				vf_count("array:front-released", 1);
				if (used - a.arr._state.done >= 256) vf_count("state:array-256+-released-bytes-in-front", 1);
			}
		}
	}
	/* decode the frame sequence */
	{
		unsigned cnt = 0;
		/* frames[] holds the frames of all messages since the last refusal */
		for (i = 0; i < c->nmsg; i++) {
			if (c->mlen[i] == (size_t) -1) { cnt = 0; continue; }
			cnt++;
		}
		if (cnt) decode_check(fmt, drv, frames, flen, cnt, r, c->nvariants);
	}
	size_t cap0 = 0; int capmode = 0, nullstart = 0;
	if (c->driver == 0) { cap0 = e.cap0; capmode = e.mode; nullstart = e.null_start; vf_xfree(e.out, e.cap); }
	else mpt_encode_array_fini(&a.arr);
	nontrivial_note(c, flen);
	{
		unsigned first = 0;
		while (first + 1 < c->nmsg && (c->mlen[first] == (size_t) -1 || c->mlen[first] < 3)) first++;
		size_t ml = c->mlen[first] == (size_t) -1 ? 0 : c->mlen[first];
		if (ml > 2 && (c->split[first] || memchr(c->msg[first], 0, ml))) {
			if (c->driver == 0) {
				vf_sample("%s via raw encoder (capacity start %zu%s, growth %s): %u message(s); message %u = %zu bytes %s pushed with split kind %d; %zu frame bytes decoded one-shot, byte-wise and by PRNG schedule",
				          rc_name[fmt], cap0, nullstart ? " NULL block" : "", capname[capmode], c->nmsg, first, ml, vf_hex(hx1, 100, c->msg[first], ml), c->split[first], flen);
			} else {
				vf_sample("%s via mpt_array_push: %u message(s); message %u = %zu bytes %s pushed with split kind %d; %zu frame bytes decoded one-shot, byte-wise and by PRNG schedule",
				          rc_name[fmt], c->nmsg, first, ml, vf_hex(hx1, 100, c->msg[first], ml), c->split[first], flen);
			}
		}
	}
}

/* ------------------------------------------------- very long single pieces */
#define BIGMAX 70001
static void run_big(vf_rng *r)
{
	static uint8_t msg[BIGMAX + 8], frame[BIGMAX + BIGMAX / 200 + 16], dec[2 * (BIGMAX + BIGMAX / 200 + 16) + 8];
	static const size_t lens[] = { 40000, 70001, 33000, 36000, 65536 };
	int fmt = (int) vf_below(r, RC_NFMT);
	size_t n = vf_chance(r, 1, 2) ? lens[vf_below(r, 5)] : 30000 + vf_below(r, BIGMAX - 30000 + 1);
	size_t i, np, pos = 0, cut[3], used, fstart, fend, dl = 0, flen;
	const uint8_t *base;
	arr_enc a;
	int refused = 0, v, pre;
	ssize_t rr;

	/* content: mostly zero free (code byte overhead is what makes the array grow repeatedly) */
	switch (vf_below(r, 3)) {
	case 0: for (i = 0; i < n; i++) msg[i] = (uint8_t) (i % 255 + 1); break;
	case 1: for (i = 0; i < n; i++) msg[i] = (uint8_t) (1 + (i * 7 + 3) % 250); break;
	default: vf_bytes(r, msg, n); for (i = 0; i < n; i++) if (!msg[i]) msg[i] = 0x11;
	}
	if (fmt != RC_CMD && vf_chance(r, 1, 2)) {
		size_t nz = 1 + vf_below(r, 40);
		while (nz--) { size_t at = vf_below(r, (uint32_t) n - 1); msg[at] = 0; if (vf_chance(r, 1, 3)) msg[at + 1] = 0; }
	}
	np = 1 + (vf_chance(r, 2, 3) ? 0 : vf_below(r, 3));
	for (i = 0; i + 1 < np; i++) cut[i] = (n / np) * (i + 1) + vf_below(r, 100);
	cut[np - 1] = n;
	vf_fp_u64(0xB16000 + fmt); vf_fp(msg, n); vf_fp_u64(np);
	vf_nontrivial();
	arr_init(&a, fmt);
	/* sometimes a few small frames first, taken and released */
	pre = vf_chance(r, 1, 3) ? 1 + (int) vf_below(r, 5) : 0;
	for (int k = 0; k < pre; k++) {
		uint8_t small[120];
		size_t sl = 40 + vf_below(r, 80);
		for (i = 0; i < sl; i++) small[i] = (uint8_t) (1 + vf_below(r, 255));
		refused = arr_push_all(&a, small, sl);
		if (!refused) { vf_at("mpt_array_push"); rr = mpt_array_push(&a.arr, 0, 0); if (rr < 0) refused = (int) rr; }
		VF_CHECK(!refused, ekey(fmt, "array", "admissible-message-refused"), "small message %d (%zu bytes) before the long one: %d", k, sl, refused);
		a.arr._state.done = 0;   /* transport took everything */
		vf_count("array:front-released", 1);
	}
	fstart = a.arr._state.done;
	if (vf_logging) vf_log("long message: %zu bytes in %zu pieces, %s, %d released frames in front", n, np, rc_name[fmt], pre);
	for (i = 0; i < np && !refused; i++) {
		refused = arr_push_all(&a, msg + pos, cut[i] - pos);
		pos = cut[i];
	}
	if (!refused) {
		vf_at("mpt_array_push");
		vf_count("mpt_array_push", 1);
		rr = mpt_array_push(&a.arr, 0, 0);
		if (rr < 0) refused = (int) rr;
	}
	VF_CHECK(!refused, ekey(fmt, "array", "admissible-message-refused"), "mpt_array_push returned %d for a %zu byte message in %zu pieces", refused, n, np);
	fend = a.arr._state.done;
	base = arr_base(&a, &used);
	VF_CHECK(base && !a.arr._state.scratch && fend > fstart && fend <= used, ekey(fmt, "array", "state-after-terminate"),
	         "%zu byte message: done %zu -> %zu scratch=%zu used=%zu", n, fstart, fend, a.arr._state.scratch, used);
	base += used - fend;
	flen = fend - fstart;
	VF_CHECK(flen <= sizeof(frame), ekey(fmt, "array", "frame-shape"), "frame of %zu bytes for a %zu byte message", flen, n);
	memcpy(frame, base + fstart, flen);
	mpt_encode_array_fini(&a.arr);
	VF_CHECK(rc_frame_shape_ok(frame, flen), ekey(fmt, "array", "frame-shape"), "frame of %zu bytes for a %zu byte message is not <zero-free bytes> 00 (starts %s)", flen, n, vf_hex(hx1, 200, frame, flen));
	v = rc_decode(fmt, frame, flen - 1, dec, &dl);
	{
		size_t hdr = (fmt == RC_CMD) ? 2 : 0;
		VF_CHECK(v == RC_OK && dl == n + hdr && !memcmp(dec + hdr, msg, n), ekey(fmt, "array", "reference-decode-differs"),
		         "long message: reference decoder verdict %d, %zu bytes; message %zu bytes in %zu pieces; frame %zu bytes (starts %s)", v, dl, n, np, flen, vf_hex(hx1, 200, frame, flen));
	}
	vf_count("monitor:frame-shape+reference-decode", 1);
	vf_count(cnt_frames[fmt], 1);
	/* library decoder, plain caller of examples/core/coding.c on a linear exact-size buffer */
	{
		static const MPT_STRUCT(decode_state) dinit = MPT_DECODE_INIT;
		MPT_STRUCT(decode_state) st = dinit;
		size_t slack = (fmt == RC_CMD) ? 2 : vf_below(r, 3), bl = slack + flen, hdr = (fmt == RC_CMD) ? 2 : 0;
		uint8_t *buf = vf_xalloc(bl);
		struct iovec vec;
		int ret, guard = 0;
		memset(buf, 0xA5, slack);
		memcpy(buf + slack, frame, flen);
		st.curr = slack;
		while (1) {
			vec.iov_base = buf; vec.iov_len = bl;
			vf_at(dd_api[fmt]);
			vf_count(dd_api[fmt], 1);
			ret = dd_fn[fmt](&st, &vec, 1);
			if (ret != MPT_ERROR(MissingBuffer)) break;
			VF_CHECK(++guard < 3000 && st.curr <= bl, ekey(fmt, "array", "decode-no-progress"), "decoder keeps asking for buffer on the long frame");
			{
				uint8_t *nb = vf_xalloc(bl + 64);
				memcpy(nb, buf, st.curr);
				memset(nb + st.curr, 0xEE, 64);
				memcpy(nb + st.curr + 64, buf + st.curr, bl - st.curr);
				vf_xfree(buf, bl);
				buf = nb; bl += 64; st.curr += 64; slack += 64;
			}
		}
		VF_CHECK(ret == 1 && st.data.msg >= 0 && (size_t) st.data.msg == n + hdr && st.data.pos + n + hdr <= bl
		         && !memcmp(buf + st.data.pos + hdr, msg, n) && st.curr == slack + flen, ekey(fmt, "array", "decoded-long-message-differs"),
		         "%s on the %zu byte frame of a %zu byte message: return %d, msg=%zd pos=%zu curr=%zu (frame ends at %zu)", dd_api[fmt], flen, n, ret,
		         st.data.msg, st.data.pos, st.curr, slack + flen);
		vf_xfree(buf, bl);
		vf_count("monitor:long-message-decode-compare", 1);
	}
	vf_count("cases:long-single-pieces", 1);
	vf_sample("%s via mpt_array_push (advance by returned size): one %zu byte message in %zu piece(s) after %d released small frames -> frame of %zu bytes, decoded by reference and library", rc_name[fmt], n, np, pre, flen);
}

/* -------------------------------------------------------------- case space */
static size_t len_max(void) { return vf_thorough ? 770 : 520; }
static unsigned len_variants(void) { return vf_thorough ? 48 : 12; }
static uint64_t n_enum(void) { return (uint64_t) RC_NFMT * (len_max() + 1) * len_variants(); }
static uint64_t n_rand(void) { return vf_thorough ? 2000000 : 60000; }
static uint64_t n_hist(void) { return vf_thorough ? 400000 : 24000; }
static uint64_t n_big(void) { return vf_thorough ? 4000 : 240; }

uint64_t vf_cases(void) { return n_enum() + n_rand() + n_hist() + n_big(); }

static void fill_message(vf_rng *r, int fmt, uint8_t *m, size_t *len, size_t lo, size_t hi)
{
	size_t n = 0;
	for (int t = 0; t < 4 && n < lo; t++) n = gen_message(r, fmt, m, hi);
	if (n < lo) {
		n = lo + vf_below(r, (uint32_t) (hi - lo) + 1);
		gen_pattern(r, fmt, (int) vf_below(r, 6), m, n);
	}
	*len = n;
}

void vf_case(uint64_t idx, vf_rng *r)
{
	static ccase c;
	memset(c.mlen, 0, sizeof(c.mlen));
	c.release = 0;
	if (idx >= n_enum() + n_rand() + n_hist()) { run_big(r); return; }
	if (idx >= n_enum() + n_rand()) {
		/* producer/consumer history on one encode array: several frames taken and released
		 * (bytes stay in front of the buffer), then a message that is large against the
		 * space reserved up front */
		c.fmt = (int) vf_below(r, RC_NFMT);
		c.driver = 1;
		c.nmsg = 3 + vf_below(r, MAXMSGS - 2);
		c.release = 4;
		for (unsigned i = 0; i + 1 < c.nmsg; i++) {
			c.split[i] = vf_chance(r, 3, 4) ? 0 : (int) vf_below(r, 4);
			fill_message(r, c.fmt, c.msg[i], &c.mlen[i], 40, 200);
		}
		c.split[c.nmsg - 1] = vf_chance(r, 1, 2) ? 0 : (vf_chance(r, 1, 2) ? 2 : 3);
		fill_message(r, c.fmt, c.msg[c.nmsg - 1], &c.mlen[c.nmsg - 1], 150, MAXMSG - 50);
		c.nvariants = 2;
		vf_count("cases:release-history", 1);
		run_case(&c, r);
		return;
	}
	if (idx < n_enum()) {
		/* every length x framing, variants cycle driver / pattern / split */
		unsigned v = (unsigned) (idx / ((uint64_t) RC_NFMT * (len_max() + 1)));
		c.fmt = (int) (idx % RC_NFMT);
		c.mlen[0] = (size_t) ((idx / RC_NFMT) % (len_max() + 1));
		c.driver = v & 1;
		c.nmsg = 1;
		c.split[0] = (int) ((v / 2) % 4);
		gen_pattern(r, c.fmt, (int) (v / 2), c.msg[0], c.mlen[0]);
		c.nvariants = 3;
		vf_count("cases:every-length", 1);
	} else {
		c.fmt = (int) vf_below(r, RC_NFMT);
		c.driver = (int) vf_below(r, 2);
		c.nmsg = vf_chance(r, 1, 2) ? 1 : 1 + vf_below(r, MAXMSGS);
		c.release = 2;
		for (unsigned i = 0; i < c.nmsg; i++) {
			size_t max = c.nmsg > 1 ? 300 : MAXMSG - 100;
			c.split[i] = (int) vf_below(r, 4);
			if (vf_chance(r, 1, 12)) { c.mlen[i] = 0; continue; }
			if (vf_chance(r, 1, 5)) {
				c.mlen[i] = vf_below(r, (uint32_t) max);
				vf_bytes(r, c.msg[i], c.mlen[i]);
				if (c.fmt == RC_CMD && !vf_chance(r, 1, 4)) for (size_t k = 0; k < c.mlen[i]; k++) if (!c.msg[i][k]) c.msg[i][k] = 1;
			} else {
				c.mlen[i] = gen_message(r, c.fmt, c.msg[i], max);
				/* command framing: sometimes an inadmissible message */
				if (c.fmt == RC_CMD && c.mlen[i] && vf_chance(r, 1, 10)) c.msg[i][vf_below(r, (uint32_t) c.mlen[i])] = 0;
			}
		}
		c.nvariants = 3;
		vf_count("cases:prng", 1);
	}
	run_case(&c, r);
}
