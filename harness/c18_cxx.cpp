/*
 * C18 (C++ leg; built with -fno-sanitize=vptr, see props/C18.py): mpt::linepart::array (apply / set / length_user / length_raw)
 * and mpt::polyline over a harness transform whose part() is
 * mpt_linepart_linear with a range per dimension.
 *
 * One dimension: the array filled by apply() is checked with the partition
 * oracle of c18_oracle.c.  Two dimensions (apply on an array that already
 * holds parts): a point counts as in range when it is in range in both
 * dimensions; totals, coverage and interior points are checked, the end
 * points of a drawn portion and the fractions are not (a segment cut by one
 * dimension and trimmed by the other has both ends outside; the property does
 * not define the combination).
 */
#include <vector>
#include <string>
#include <cmath>
#include <cstring>
#include <sys/uio.h>

#include "values.h"
#include "layout.h"
#include "vf.h"
#include "c18_oracle.h"

const char *vf_name = "c18_cxx";

/* objects built by the C part of the library have no C++ RTTI: see c18_ubsan_supp.h */
extern "C" const char *__ubsan_default_options(void)
{
	return "suppressions=/verif/harness/c18_ubsan_supp.h";
}

class RT : public mpt::transform
{
public:
	RT(int d) : dims(d) { use[0] = use[1] = use[2] = false; }
	int dimensions() const override { return dims; }
	mpt::linepart part(unsigned dim, const double *from, int len) const override
	{
		mpt::linepart p;
		vf_count("transform::part", 1);
		mpt_linepart_linear(&p, from, len, (dim < 3 && use[dim]) ? &r[dim] : 0);
		return p;
	}
	bool apply(unsigned dim, const mpt::linepart &pt, mpt::point<double> *dest, const double *from) const override
	{
		vf_count("transform::apply", 1);
		for (unsigned i = 0; i < pt.usr; i++) {
			if (dim == 0) dest[i].x = from[i];
			else if (dim == 1) dest[i].y = from[i];
		}
		return true;
	}
	mpt::point<double> zero() const override { return mpt::point<double>(-77, -78); }
	void set(int dim, double min, double max) { r[dim].min = min; r[dim].max = max; use[dim] = true; }
	int dims;
	struct mpt::range r[3];
	bool use[3];
};

static std::vector<c18_part> to_parts(mpt::linepart::array &a)
{
	std::vector<c18_part> v;
	long n = a.length();
	const mpt::linepart *lp = a.begin();
	for (long i = 0; i < n; i++) {
		c18_part p = { lp[i].raw, lp[i].usr, lp[i]._cut, lp[i]._trim };
		v.push_back(p);
	}
	return v;
}
static double gen_value(vf_rng *r, double min, double max, double prev)
{
	double w = max - min;
	switch (vf_below(r, 12)) {
	case 0: return min;
	case 1: return max;
	case 2: return std::nextafter(min, -INFINITY);
	case 3: return std::nextafter(max, INFINITY);
	case 4: case 5: return prev;
	case 6: return min - w * vf_unit(r) * std::pow(10., vf_range(r, -6, 4));
	case 7: return max + w * vf_unit(r) * std::pow(10., vf_range(r, -6, 4));
	case 8: return min - w * vf_unit(r);
	case 9: return max + w * vf_unit(r);
	default: return min + w * vf_unit(r);
	}
}
/* data biased to longer visible stretches */
static void gen_data(vf_rng *r, double *v, size_t n, double min, double max, unsigned vis)
{
	double prev = min;
	for (size_t i = 0; i < n; i++) {
		if (vf_below(r, 16) < vis) prev = min + (max - min) * vf_unit(r);
		else prev = gen_value(r, min, max, prev);
		v[i] = prev;
	}
}

/* ---------------------------------------------------------- one dimension */
static void case_apply1(vf_rng *r)
{
	static const double ranges[][2] = { { 0, 1 }, { -5, -2 }, { 1e-300, 3e-300 }, { -1e9, 1e12 }, { 2.5, 2.5 } };
	const double *rg = ranges[vf_below(r, 5)];
	size_t n = vf_chance(r, 1, 40) ? 65000 + vf_below(r, 70000) : 1 + vf_below(r, 60);
	double *v = static_cast<double *>(vf_xalloc(n * sizeof(*v)));
	bool norange = vf_chance(r, 1, 10);
	RT tr(1);
	char desc[500];
	size_t l = 0;

	gen_data(r, v, n, rg[0], rg[1], n > 1000 ? 15 : vf_below(r, 12));
	if (!norange) tr.set(0, rg[0], rg[1]);
	vf_fp(v, n * sizeof(*v)); vf_fp(rg, 2 * sizeof(*rg)); vf_fp_u64(norange);
	l += snprintf(desc, sizeof(desc), "array::apply 1 dim, range %s[%g,%g] n=%zu:", norange ? "unused " : "", rg[0], rg[1], n);
	for (size_t i = 0; i < n && l + 30 < sizeof(desc); i++) l += snprintf(desc + l, sizeof(desc) - l, " %.17g", v[i]);
	vf_log("%s", desc);
	if (!norange && c18_crossings(v, n, rg)) vf_nontrivial();

	mpt::linepart::array a;
	vf_at("linepart::array::apply");
	bool ok = a.apply(tr, 0, mpt::span<const double>(v, n));
	vf_count("linepart::array::apply", 1);
	VF_CHECK(ok, "cxx:apply:refused", "apply(dim 0, %zu values) on an empty array refused", n);
	std::vector<c18_part> p = to_parts(a);
	c18_check_parts("array", v, n, norange ? 0 : rg, p.data(), p.size(), 0, C18_COMPLETE);
	long lr = a.length_raw(), lu = a.length_user(), su = 0;
	for (auto &e : p) su += e.usr;
	vf_count("linepart::array::length_raw", 1);
	VF_CHECK(lr == (long) n, "cxx:length_raw:total", "length_raw() = %ld after apply of %zu values", lr, n);
	VF_CHECK(lu == su, "cxx:length_user:total", "length_user() = %ld, parts sum to %ld", lu, su);

	/* refused applications leave the array alone */
	vf_at("linepart::array::apply");
	VF_CHECK(!a.apply(tr, 1, mpt::span<const double>(v, n)), "cxx:apply:accepted-bad-dimension", "apply(dim 1) accepted by a 1-dim transform");
	VF_CHECK(!a.apply(tr, -1, mpt::span<const double>(v, n)), "cxx:apply:accepted-bad-dimension", "apply(dim -1) accepted");
	VF_CHECK(!a.apply(tr, 0, mpt::span<const double>(v, 0)), "cxx:apply:accepted-empty", "apply of 0 values accepted");
	VF_CHECK(a.length_raw() == (long) n && a.length() == (long) p.size(), "cxx:apply:refused-modified", "refused apply changed the parts");

	/* set(-1): redistribute existing total */
	vf_at("linepart::array::set");
	ok = a.set(-1);
	vf_count("linepart::array::set", 1);
	VF_CHECK(ok, "cxx:set:refused", "set(-1) refused");
	VF_CHECK(a.length_raw() == (long) n, "cxx:set:total", "set(-1) on parts covering %zu values gives %ld", n, a.length_raw());
	VF_CHECK(a.length_user() == (long) n, "cxx:set:user-total", "set(-1): %ld of %zu values drawn", a.length_user(), n);
	vf_xfree(v, n * sizeof(*v));
	vf_sample("%s", desc);
}
/* ------------------------------------------------------------------- set */
static void case_set(uint64_t idx, vf_rng *r)
{
	static const long lens[] = { 0, 1, 2, 65532, 65533, 65534, 65535, 65536, 131065, 131066, 131067, 196599, 1000000 };
	long len = idx < 13 ? lens[idx] : (long) vf_below(r, 400000);
	mpt::linepart::array a;
	vf_fp_u64(0x5e7); vf_fp_u64(len);
	if (len > 65533) vf_nontrivial();
	vf_log("array::set(%ld)", len);
	if (vf_chance(r, 1, 2)) a.set(1 + vf_below(r, 200000));
	vf_at("linepart::array::set");
	bool ok = a.set(len);
	vf_count("linepart::array::set", 1);
	VF_CHECK(ok, "cxx:set:refused", "set(%ld) refused", len);
	VF_CHECK(a.length_raw() == len, "cxx:set:total", "set(%ld) gives raw total %ld", len, a.length_raw());
	VF_CHECK(a.length_user() == len, "cxx:set:user-total", "set(%ld) gives user total %ld", len, a.length_user());
	for (auto &p : a.elements()) {
		VF_CHECK(p.raw && p.raw == p.usr && !p._cut && !p._trim, "cxx:set:part", "set(%ld) made part {%u,%u,%u,%u}", len, p.raw, p.usr, p._cut, p._trim);
	}
	vf_sample("array::set(%ld) -> %ld parts", len, a.length());
}
/* --------------------------------------------------------- two dimensions */
static void case_apply2(vf_rng *r)
{
	size_t n = vf_chance(r, 1, 60) ? 65000 + vf_below(r, 70000) : 1 + vf_below(r, 40);
	double *x = static_cast<double *>(vf_xalloc(n * sizeof(*x))), *y = static_cast<double *>(vf_xalloc(n * sizeof(*y)));
	static const double rg[2] = { 0, 1 };
	RT tr(2);
	bool preset = vf_chance(r, 1, 2);
	char desc[700];
	size_t l = 0;

	gen_data(r, x, n, 0, 1, n > 1000 ? 15 : 8 + vf_below(r, 7));
	gen_data(r, y, n, 0, 1, n > 1000 ? 15 : 8 + vf_below(r, 7));
	tr.set(0, 0, 1); tr.set(1, 0, 1);
	vf_fp(x, n * sizeof(*x)); vf_fp(y, n * sizeof(*y)); vf_fp_u64(preset);
	l += snprintf(desc, sizeof(desc), "array::apply 2 dims%s, ranges [0,1] n=%zu:", preset ? " after set(n)" : "", n);
	for (size_t i = 0; i < n && l + 60 < sizeof(desc); i++) l += snprintf(desc + l, sizeof(desc) - l, " (%.17g,%.17g)", x[i], y[i]);
	vf_log("%s", desc);

	mpt::linepart::array a;
	if (preset) a.set(n);
	vf_at("linepart::array::apply");
	bool ok = a.apply(tr, 0, mpt::span<const double>(x, n));
	VF_CHECK(ok, "cxx:apply:refused", "apply(dim 0) refused");
	if (vf_logging) for (auto &p : a.elements()) vf_log("  after x: {raw=%u usr=%u cut=%u trim=%u}", p.raw, p.usr, p._cut, p._trim);
	if (preset) {
		/* parts of set() describe everything as drawn: result is the split of x */
		std::vector<c18_part> p = to_parts(a);
		c18_check_parts("array-preset", x, n, rg, p.data(), p.size(), 0, 0);
	}
	ok = a.apply(tr, 1, mpt::span<const double>(y, n));
	vf_count("linepart::array::apply", 2);
	VF_CHECK(ok, "cxx:apply:refused", "apply(dim 1) refused");
	if (vf_logging) for (auto &p : a.elements()) vf_log("  after y: {raw=%u usr=%u cut=%u trim=%u}", p.raw, p.usr, p._cut, p._trim);

	/* combined visibility as one data set: 0.5 inside, -1 outside */
	std::vector<double> u(n);
	bool cross = false;
	for (size_t i = 0; i < n; i++) {
		bool in = x[i] >= 0 && x[i] <= 1 && y[i] >= 0 && y[i] <= 1;
		u[i] = in ? 0.5 : -1;
		if (i && u[i] != u[i - 1]) cross = true;
	}
	if (cross) vf_nontrivial();
	std::vector<c18_part> p = to_parts(a);
	c18_check_parts("array2d", u.data(), n, rg, p.data(), p.size(), 0, C18_ENDS_FREE);
	VF_CHECK(a.length_raw() == (long) n, "cxx:length_raw:total", "length_raw() = %ld after 2 applies of %zu values", a.length_raw(), n);
	vf_count("monitor:two-dimension-lists", 1);
	vf_xfree(x, n * sizeof(*x)); vf_xfree(y, n * sizeof(*y));
	vf_sample("%s", desc);
}


/* -------------------------------------------------------------- polyline */
static void case_polyline(vf_rng *r)
{
	static const double rg[2] = { 0, 1 };
	size_t n = vf_chance(r, 1, 40) ? 65000 + vf_below(r, 70000) : 1 + vf_below(r, 50);
	double *v = static_cast<double *>(vf_xalloc(n * sizeof(*v)));
	RT tr(1);
	char desc[500];
	size_t l = 0;

	gen_data(r, v, n, 0, 1, n > 1000 ? 15 : vf_below(r, 14));
	tr.set(0, 0, 1);
	vf_fp_u64(0x9017); vf_fp(v, n * sizeof(*v));
	l += snprintf(desc, sizeof(desc), "polyline::set 1 dim, range [0,1] n=%zu:", n);
	for (size_t i = 0; i < n && l + 30 < sizeof(desc); i++) l += snprintf(desc + l, sizeof(desc) - l, " %.17g", v[i]);
	vf_log("%s", desc);
	if (c18_crossings(v, n, rg)) vf_nontrivial();

	mpt::value_store st;
	double *stored = st.set(mpt::span<const double>(v, n));
	if (!stored) vf_inconclusive("value_store::set refused %zu doubles", n);
	mpt::polyline pl;
	vf_at("polyline::set");
	bool ok = pl.set(tr, mpt::span<const mpt::value_store>(&st, 1));
	vf_count("polyline::set", 1);

	mpt::span<const mpt::linepart> lp = pl.parts();
	std::vector<c18_part> p;
	long su = 0;
	for (auto &e : lp) { c18_part c = { e.raw, e.usr, e._cut, e._trim }; p.push_back(c); su += e.usr; }
	if (vf_logging) for (auto &e : p) vf_log("  part {raw=%u usr=%u cut=%u trim=%u}", e.raw, e.usr, e.cut, e.trim);
	c18_check_parts("polyline", v, n, rg, p.data(), p.size(), 0, n <= 65533 ? C18_COMPLETE : 0);
	VF_CHECK(ok == (su > 0), "cxx:polyline:result", "set() returned %d with %ld drawn points", ok, su);
	mpt::span<const mpt::polyline::point> pts = pl.points();
	VF_CHECK((long) pts.size() == su, "cxx:polyline:point-count", "%ld points for parts drawing %ld", (long) pts.size(), su);
	/* drawn point i of part k is raw value o_k + i (the harness transform copies the value to x) */
	size_t o = 0, uo = 0;
	for (auto &e : p) {
		for (size_t i = 0; i < e.usr; i++) {
			const mpt::polyline::point &q = pts.begin()[uo + i];
			if (memcmp(&q.x, &v[o + i], sizeof(double)) || q.y != -78) {
				vf_fail("cxx:polyline:point-value", "drawn point %zu of part at raw offset %zu is (%.17g,%.17g), expected (%.17g,-78)", i, o, q.x, q.y, v[o + i]);
			}
			vf_count("monitor:polyline-points", 1);
		}
		o += e.raw; uo += e.usr;
	}
	/* iteration over parts */
	size_t k = 0;
	const mpt::polyline::point *base = pts.begin();
	uo = 0;
	for (mpt::polyline::iterator it = pl.begin(), end = pl.end(); k <= p.size() && it != end; ++it, ++k) {
		if (k == p.size()) break;
		mpt::polyline::part pt = *it;
		size_t vis = p[k].usr - (p[k].cut ? 1 : 0) - (p[k].trim ? 1 : 0);
		VF_CHECK(pt.line().size() == (long) p[k].usr && (!p[k].usr || pt.line().begin() == base + uo), "cxx:polyline:iterator-line", "part %zu: line() has %ld points at offset %ld, expected %u at %zu", k, (long) pt.line().size(), (long) (pt.line().begin() - base), p[k].usr, uo);
		if (p[k].usr >= 2) VF_CHECK(pt.points().size() == (long) vis, "cxx:polyline:iterator-points", "part %zu {usr=%u cut=%u trim=%u}: points() has %ld", k, p[k].usr, p[k].cut, p[k].trim, (long) pt.points().size());
		uo += p[k].usr;
	}
	vf_count("monitor:polyline-parts-iterated", k);
	vf_xfree(v, n * sizeof(*v));
	vf_sample("%s", desc);
}

/* ---------------------------------- two and three limited dimensions in turn */
/*
 * The sequence polyline::set() uses: set(n) (or an empty array), then apply()
 * for dimension 0, 1 (, 2).  Besides coverage and totals the cut/trim of every
 * resulting part has to be the place where the line enters/leaves the
 * visible box (c18_check_parts_nd).
 */
static void run_nd(const char *pfx, int dims, size_t n, double * const *v, const double (*rg)[2], bool preset)
{
	RT tr(dims);
	mpt::linepart::array a;
	for (int d = 0; d < dims; d++) tr.set(d, rg[d][0], rg[d][1]);
	if (preset) {
		vf_at("linepart::array::set");
		VF_CHECK(a.set(n), "cxx:set:refused", "set(%zu) refused", n);
	}
	for (int d = 0; d < dims; d++) {
		vf_at("linepart::array::apply");
		bool ok = a.apply(tr, d, mpt::span<const double>(v[d], n));
		vf_count("linepart::array::apply", 1);
		VF_CHECK(ok, "cxx:apply:refused", "apply(dim %d of %d, %zu values) refused", d, dims, n);
		if (vf_logging) for (auto &p : a.elements()) vf_log("  %s after dim %d: {raw=%u usr=%u cut=%u trim=%u}", preset ? "preset" : "direct", d, p.raw, p.usr, p._cut, p._trim);
	}
	std::vector<c18_part> p = to_parts(a);
	c18_check_parts_nd(pfx, v, dims, n, rg, p.data(), p.size());
	VF_CHECK(a.length_raw() == (long) n, "cxx:length_raw:total", "length_raw() = %ld after %d applies of %zu values", a.length_raw(), dims, n);
	vf_count("monitor:nd-lists", 1);
}
static bool nd_interesting(int dims, size_t n, double * const *v, const double (*rg)[2])
{
	/* some segment crosses the box boundary */
	for (size_t i = 0; i + 1 < n; i++) {
		bool a = true, b = true;
		for (int d = 0; d < dims; d++) {
			if (v[d][i] < rg[d][0] || v[d][i] > rg[d][1]) a = false;
			if (v[d][i + 1] < rg[d][0] || v[d][i + 1] > rg[d][1]) b = false;
		}
		if (a != b) return true;
	}
	return false;
}
/* exhaustive class sequences per dimension */
static double nd_class_value(int c, unsigned i, int d)
{
	double k = 1 + ((i * 7 + d * 3) % 5);
	switch (c) {
	case 0: return -k / 3;      /* below */
	case 1: return 0;           /* at min */
	case 2: return k / 6;       /* inside */
	case 3: return 1;           /* at max */
	default: return 1 + k / 4;  /* above */
	}
}
struct nd_space { int dims; unsigned len; uint64_t count; };
static std::vector<nd_space> nd_spaces()
{
	std::vector<nd_space> s;
	unsigned max2 = vf_thorough ? 5 : 4, max3 = vf_thorough ? 3 : 2;
	for (int dims = 2; dims <= 3; dims++) {
		for (unsigned len = 1; len <= (dims == 2 ? max2 : max3); len++) {
			uint64_t c = 1;
			for (unsigned i = 0; i < dims * len; i++) c *= 5;
			nd_space e = { dims, len, c };
			s.push_back(e);
		}
	}
	return s;
}
static uint64_t nd_ex_count()
{
	uint64_t n = 0;
	for (auto &e : nd_spaces()) n += e.count;
	return n;
}
static void case_nd_exhaustive(uint64_t idx)
{
	static const double rg[3][2] = { { 0, 1 }, { 0, 1 }, { 0, 1 } };
	static const char cname[] = "bmiMa";
	int dims = 0;
	unsigned len = 0;
	for (auto &e : nd_spaces()) {
		if (idx < e.count) { dims = e.dims; len = e.len; break; }
		idx -= e.count;
	}
	double *v[3] = { 0, 0, 0 };
	char desc[80];
	size_t l = 0;
	uint64_t code = idx;
	vf_fp_u64(0x2d18); vf_fp_u64(dims); vf_fp_u64(len); vf_fp_u64(idx);
	for (int d = 0; d < dims; d++) {
		v[d] = static_cast<double *>(vf_xalloc(len * sizeof(double)));
		for (unsigned i = 0; i < len; i++) {
			int c = (int) (code % 5); code /= 5;
			v[d][i] = nd_class_value(c, i, d);
			desc[l++] = cname[c];
		}
		desc[l++] = d + 1 < dims ? '/' : 0;
	}
	if (vf_logging) vf_log("nd exhaustive %s", desc);
	if (nd_interesting(dims, len, v, rg)) vf_nontrivial();
	run_nd("array-nd", dims, len, v, rg, true);
	run_nd("array-nd", dims, len, v, rg, false);
	for (int d = 0; d < dims; d++) vf_xfree(v[d], len * sizeof(double));
	vf_count("exhaustive:nd-instances", 1);
	vf_sample("%d limited dimensions applied in turn, classes %s (b=below m=min i=inside M=max a=above, range [0,1] each), after set(n) and on an empty array", dims, desc);
}
/* PRNG reals */
static void case_nd_prng(vf_rng *r)
{
	static const double ranges[][2] = { { 0, 1 }, { -5, -2 }, { 1e-3, 2e-3 }, { -1, 1 }, { 10, 1000 } };
	int dims = vf_chance(r, 1, 3) ? 3 : 2;
	size_t n = vf_chance(r, 1, 8) ? 15 + vf_below(r, 40) : 2 + vf_below(r, 12);
	double rg[3][2], *v[3] = { 0, 0, 0 };
	char desc[900];
	size_t l = 0;
	unsigned vis = 8 + vf_below(r, 7);
	bool preset = vf_chance(r, 1, 2);

	l += snprintf(desc, sizeof(desc), "%d limited dimensions %s, n=%zu:", dims, preset ? "after set(n)" : "on an empty array", n);
	for (int d = 0; d < dims; d++) {
		const double *c = ranges[vf_below(r, 5)];
		rg[d][0] = c[0]; rg[d][1] = c[1];
		v[d] = static_cast<double *>(vf_xalloc(n * sizeof(double)));
		gen_data(r, v[d], n, rg[d][0], rg[d][1], vis);
		vf_fp(v[d], n * sizeof(double)); vf_fp(rg[d], sizeof(rg[d]));
		if (l + 60 < sizeof(desc)) l += snprintf(desc + l, sizeof(desc) - l, " dim %d [%g,%g]:", d, rg[d][0], rg[d][1]);
		for (size_t i = 0; i < n && l + 30 < sizeof(desc); i++) l += snprintf(desc + l, sizeof(desc) - l, " %.17g", v[d][i]);
	}
	vf_fp_u64(preset);
	vf_log("%s", desc);
	if (nd_interesting(dims, n, v, rg)) vf_nontrivial();
	run_nd("array-nd", dims, n, v, rg, preset);
	for (int d = 0; d < dims; d++) vf_xfree(v[d], n * sizeof(double));
	vf_sample("%s", desc);
}

/* ------------------------------------------- polyline over two dimensions */
/*
 * polyline::set() with two limited dimensions, then iteration: the points
 * delivered by polyline::part::points() (the drawn points of a part without
 * the out-of-range helper points at a cut / trimmed end), concatenated over
 * all parts, are exactly the input points that are in range in both
 * dimensions, in order, each once.  line() of a part has its usr points.
 */
static void check_polyline2(const mpt::polyline &pl, bool ok, size_t n, const double *x, const double *y, const double (*rg)[2], const char *desc);
static void run_polyline2(size_t n, const double *x, const double *y, const double (*rg)[2], const char *desc)
{
	RT tr(2);
	tr.set(0, rg[0][0], rg[0][1]); tr.set(1, rg[1][0], rg[1][1]);
	mpt::value_store st[2];
	if (!st[0].set(mpt::span<const double>(x, n)) || !st[1].set(mpt::span<const double>(y, n))) vf_inconclusive("value_store::set refused %zu doubles", n);
	mpt::polyline pl;
	vf_at("polyline::set");
	bool ok = pl.set(tr, mpt::span<const mpt::value_store>(st, 2));
	vf_count("polyline::set", 1);
	check_polyline2(pl, ok, n, x, y, rg, desc);
}
static void check_polyline2(const mpt::polyline &pl, bool ok, size_t n, const double *x, const double *y, const double (*rg)[2], const char *desc)
{
	std::vector<size_t> vis;
	for (size_t i = 0; i < n; i++) if (x[i] >= rg[0][0] && x[i] <= rg[0][1] && y[i] >= rg[1][0] && y[i] <= rg[1][1]) vis.push_back(i);

	mpt::span<const mpt::linepart> lp = pl.parts();
	long su = 0;
	for (auto &e : lp) { su += e.usr; if (vf_logging) vf_log("  part {raw=%u usr=%u cut=%u trim=%u}", e.raw, e.usr, e._cut, e._trim); }
	VF_CHECK(ok == (su > 0), "cxx:polyline:result", "%s: set() returned %d with %ld drawn points", desc, ok, su);
	/* the parts themselves */
	{
		std::vector<c18_part> p;
		for (auto &e : lp) { c18_part c = { e.raw, e.usr, e._cut, e._trim }; p.push_back(c); }
		const double *v[2] = { x, y };
		if (!p.empty()) c18_check_parts_nd("polyline-nd", v, 2, n, rg, p.data(), p.size());
	}
	size_t got = 0, k = 0;
	const mpt::polyline::point *base = pl.points().begin();
	long uo = 0;
	/* the transformed points are those of the parts, nothing of earlier data */
	VF_CHECK(pl.points().size() == su, "cxx:polyline:point-count", "%s: %ld points held for parts drawing %ld", desc, (long) pl.points().size(), su);
	mpt::polyline::iterator it = pl.begin(), end = pl.end();
	for ( ; it != end && k < (size_t) lp.size(); ++it, ++k) {
		mpt::polyline::part pt = *it;
		const mpt::linepart &e = lp.begin()[k];
		vf_at("polyline::part::line");
		mpt::span<const mpt::polyline::point> line = pt.line();
		VF_CHECK(line.size() == (long) e.usr && (!e.usr || line.begin() == base + uo), "cxx:polyline:iterator-line", "%s: part %zu {usr=%u}: line() has %ld points at offset %ld, expected %u at %ld", desc, k, e.usr, (long) line.size(), (long) (line.begin() - base), e.usr, uo);
		if (!e.usr) {
			/* nothing is drawn by this part, whatever its cut / trim fields hold */
			vf_at("polyline::part::points");
			mpt::span<const mpt::polyline::point> pts = pt.points();
			vf_count("polyline::part::points", 1);
			if (pts.size() != 0 && !vf_known("cxx:polyline:points-of-empty-part")) vf_fail("cxx:polyline:points-of-empty-part", "%s: part %zu {raw=%u usr=0 cut=%u trim=%u}: points() reports %ld points", desc, k, e.raw, e._cut, e._trim, (long) pts.size());
			if (e._cut || e._trim) vf_count("state:empty-part-with-cut-or-trim", 1);
		}
		if (e.usr) {
			vf_at("polyline::part::points");
			mpt::span<const mpt::polyline::point> pts = pt.points();
			vf_count("polyline::part::points", 1);
			VF_CHECK(pts.size() >= 0 && pts.size() <= (long) e.usr && (!pts.size() || (pts.begin() >= line.begin() && pts.end() <= line.end())), "cxx:polyline:points-outside-line", "%s: part %zu {usr=%u cut=%u trim=%u}: points() has %ld points at offset %ld of its line", desc, k, e.usr, e._cut, e._trim, (long) pts.size(), (long) (pts.begin() - line.begin()));
			for (auto &q : pts) {
				if (got >= vis.size()) vf_fail("cxx:polyline:drawn-point-not-in-range", "%s: part %zu {usr=%u cut=%u trim=%u} delivers (%.17g,%.17g) as drawn point, all %zu in-range input points are drawn already", desc, k, e.usr, e._cut, e._trim, q.x, q.y, vis.size());
				size_t i = vis[got];
				if (memcmp(&q.x, &x[i], 8) || memcmp(&q.y, &y[i], 8)) vf_fail("cxx:polyline:drawn-points", "%s: part %zu {usr=%u cut=%u trim=%u}: drawn point %zu is (%.17g,%.17g), the next in-range input point is [%zu] = (%.17g,%.17g)", desc, k, e.usr, e._cut, e._trim, got, q.x, q.y, i, x[i], y[i]);
				got++;
				vf_count("monitor:polyline2-drawn-points", 1);
			}
			if (e.usr == 2 && e._cut && e._trim) vf_count("state:two-point-part-cut-and-trim", 1);
		}
		uo += e.usr;
	}
	VF_CHECK(!(it != end), "cxx:polyline:iteration-does-not-end", "%s: begin()..end() walk has not reached end() after all %zu parts", desc, (size_t) lp.size());
	VF_CHECK(got == vis.size(), "cxx:polyline:drawn-points", "%s: %zu points delivered as drawn, %zu input points are in range in both dimensions", desc, got, vis.size());
	if (!vis.size()) vf_count("state:polyline-nothing-visible", 1);
	vf_count("monitor:polyline2-lists", 1);
}
static uint64_t pl2_ex_count()
{
	uint64_t n = 0, c = 1;
	for (unsigned len = 1; len <= (vf_thorough ? 4u : 3u); len++) { c *= 25; n += c; }
	return n;
}
static void case_polyline2_exhaustive(uint64_t idx)
{
	static const double rg[2][2] = { { 0, 1 }, { 0, 1 } };
	static const char cname[] = "bmiMa";
	unsigned len = 1;
	uint64_t c = 25;
	while (idx >= c) { idx -= c; c *= 25; len++; }
	double *v[2];
	char desc[80];
	size_t l = snprintf(desc, sizeof(desc), "polyline 2 dims classes ");
	uint64_t code = idx;
	vf_fp_u64(0x9218); vf_fp_u64(len); vf_fp_u64(idx);
	for (int d = 0; d < 2; d++) {
		v[d] = static_cast<double *>(vf_xalloc(len * sizeof(double)));
		for (unsigned i = 0; i < len; i++) { int k = (int) (code % 5); code /= 5; v[d][i] = nd_class_value(k, i, d); desc[l++] = cname[k]; }
		desc[l++] = d ? 0 : '/';
	}
	vf_log("%s", desc);
	if (nd_interesting(2, len, v, rg)) vf_nontrivial();
	run_polyline2(len, v[0], v[1], rg, desc);
	vf_xfree(v[0], len * sizeof(double)); vf_xfree(v[1], len * sizeof(double));
	vf_sample("%s (b=below m=min i=inside M=max a=above, range [0,1] each)", desc);
}
static void case_polyline2_prng(vf_rng *r)
{
	static const double ranges[][2] = { { 0, 1 }, { 0, 10 }, { -5, -2 }, { 1e-3, 2e-3 } };
	size_t n = vf_chance(r, 1, 10) ? 15 + vf_below(r, 60) : 2 + vf_below(r, 10);
	double rg[2][2], *v[2];
	char desc[700];
	size_t l = snprintf(desc, sizeof(desc), "polyline 2 dims n=%zu:", n);
	unsigned vis = 6 + vf_below(r, 9);
	for (int d = 0; d < 2; d++) {
		const double *c = ranges[vf_below(r, 4)];
		rg[d][0] = c[0]; rg[d][1] = c[1];
		v[d] = static_cast<double *>(vf_xalloc(n * sizeof(double)));
		gen_data(r, v[d], n, rg[d][0], rg[d][1], vis);
		vf_fp(v[d], n * sizeof(double)); vf_fp(rg[d], sizeof(rg[d]));
		if (l + 60 < sizeof(desc)) l += snprintf(desc + l, sizeof(desc) - l, " dim %d [%g,%g]:", d, rg[d][0], rg[d][1]);
		for (size_t i = 0; i < n && l + 30 < sizeof(desc); i++) l += snprintf(desc + l, sizeof(desc) - l, " %.17g", v[d][i]);
	}
	vf_log("%s", desc);
	if (nd_interesting(2, n, v, rg)) vf_nontrivial();
	run_polyline2(n, v[0], v[1], rg, desc);
	vf_xfree(v[0], n * sizeof(double)); vf_xfree(v[1], n * sizeof(double));
	vf_sample("%s", desc);
}

/* --------------------------------- transformations without visible range */
/*
 * transform::part() of a plain subclass and layout::graph::transform3 without
 * TransformLimit: everything is drawn.  Runs of 1..200000 points are split by
 * repeated part() calls: 0 < raw <= remaining, usr == raw, no cut/trim,
 * totals equal the length, no more parts than the 16 bit counters require.
 */
class Plain : public mpt::transform
{
public:
	int dimensions() const override { return 1; }
};
static double *big_data()
{
	static double *d;
	if (!d) {
		d = static_cast<double *>(malloc(200001 * sizeof(*d)));
		if (!d) vf_inconclusive("out of memory");
		for (size_t i = 0; i <= 200000; i++) d[i] = (double) (i % 97) / 97;
	}
	return d;
}
static void split_all(const mpt::transform &tr, const char *name, long len)
{
	const double *val = big_data();
	long pos = 0, parts = 0, usr = 0;
	while (pos < len) {
		vf_at("transform::part");
		mpt::linepart lp = tr.part(0, val + pos, (int) (len - pos));
		vf_count("transform::part (no range)", 1);
		long left = len - pos;
		if (vf_logging) vf_log("  %s part(len=%ld) -> {raw=%u usr=%u cut=%u trim=%u}", name, left, lp.raw, lp.usr, lp._cut, lp._trim);
		VF_CHECK(lp.raw >= 1, "cxx:part:no-progress", "%s::part() with %ld values left of %ld: raw == 0 (usr=%u)", name, left, len, lp.usr);
		VF_CHECK((long) lp.raw <= left, "cxx:part:raw-exceeds-input", "%s::part() with %ld values left: raw=%u", name, left, lp.raw);
		VF_CHECK(lp.usr == lp.raw && !lp._cut && !lp._trim, "cxx:part:norange", "%s::part() without visible range, %ld values left: {raw=%u usr=%u cut=%u trim=%u}", name, left, lp.raw, lp.usr, lp._cut, lp._trim);
		pos += lp.raw; usr += lp.usr; parts++;
		if (lp.raw == 65535) vf_count("state:part-at-limit-65535", 1);
	}
	VF_CHECK(pos == len && usr == len, "cxx:part:total", "%s: parts cover %ld raw / %ld drawn of %ld values", name, pos, usr, len);
	VF_CHECK(parts <= len / 65535 + 1, "cxx:part:count", "%s: %ld parts for %ld values", name, parts, len);
}
static uint64_t norange_count() { return vf_thorough ? 3000 : 300; }
static void case_norange(uint64_t idx, vf_rng *r)
{
	static const long lens[] = { 1, 2, 65534, 65535, 65536, 65537, 131069, 131070, 131071, 131072, 131073, 196605, 196606, 196607, 196608, 196609, 200000 };
	long len = idx < sizeof(lens) / sizeof(*lens) ? lens[idx] : vf_chance(r, 1, 3) ? (long) (65536 * (1 + vf_below(r, 3))) + vf_range(r, -3, 3) : 1 + (long) vf_below(r, 200000);
	if (len > 200000) len = 200000;
	vf_fp_u64(0x170); vf_fp_u64(len);
	if (len > 65535) vf_nontrivial();
	vf_log("no visible range, %ld values", len);
	Plain pl;
	split_all(pl, "transform (default part)", len);
	mpt::layout::graph::transform3 t3;
	split_all(t3, "layout::graph::transform3 (no limit)", len);
	/* the same through linepart::array::apply on an empty array */
	{
		mpt::linepart::array a;
		vf_at("linepart::array::apply");
		bool ok = a.apply(pl, 0, mpt::span<const double>(big_data(), len));
		vf_count("linepart::array::apply", 1);
		VF_CHECK(ok && a.length_raw() == len && a.length_user() == len && a.length() <= len / 65535 + 1, "cxx:part:total", "apply() of %ld values with a plain transform: %ld parts, raw %ld, drawn %ld", len, (long) a.length(), a.length_raw(), a.length_user());
	}
	vf_count("monitor:norange-runs", 1);
	vf_sample("transform without visible range: %ld values split by part() (plain subclass, transform3) and by linepart::array::apply", len);
}

/* --------------------------------------------- histories of data sets */
/*
 * 2..4 successive data sets on one polyline (set, optionally clear, set ...)
 * and on one cycle stage (set_data / transform, replace data, transform):
 * after every transformation the parts and drawn points belong to the
 * CURRENT data only.
 */
static void case_history(vf_rng *r)
{
	static const double rg[2][2] = { { 0, 10 }, { 0, 10 } };
	int steps = vf_range(r, 2, 4);
	bool use_cycle = vf_chance(r, 1, 2);
	size_t n = 2 + vf_below(r, 10);
	RT tr(2);
	tr.set(0, rg[0][0], rg[0][1]); tr.set(1, rg[1][0], rg[1][1]);
	mpt::polyline pl;
	mpt::reference<mpt::cycle>::type cyc;
	std::vector<double> x(64), y(64), prevx(64), prevy(64);
	size_t prevn = 0;
	char desc[400];
	std::string all = use_cycle ? "cycle stage:" : "polyline:";

	vf_fp_u64(0x4157); vf_fp_u64(use_cycle);
	for (int s = 0; s < steps; s++) {
		bool keep_y = use_cycle && s && vf_chance(r, 1, 2), cleared = false;
		if (!use_cycle && vf_chance(r, 1, 2)) n = 2 + vf_below(r, 10);
		/* data that start / end outside make the first part carry a cut / trim */
		unsigned vis = 8 + vf_below(r, 8);
		gen_data(r, x.data(), n, 1, 9, vis);
		if (!keep_y) gen_data(r, y.data(), n, 1, 9, vis);
		for (size_t i = 0; i < n; i++) { if (x[i] == 0 || x[i] == 10) x[i] = 5; if (y[i] == 0 || y[i] == 10) y[i] = 5; }
		if (vf_chance(r, 1, 3)) x[0] = -3; else if (vf_chance(r, 1, 3)) x[n - 1] = 12;
		if (vf_chance(r, 1, 4)) for (size_t i = 0; i < n; i++) { x[i] = 1 + (double) i / 8; if (!keep_y) y[i] = 2 + (double) i / 16; }   /* everything in range */
		else if (s && vf_chance(r, 1, 3)) {
			/* nothing visible: every point outside in x (below, above or jumping across the range) */
			int how = (int) vf_below(r, 3);
			for (size_t i = 0; i < n; i++) x[i] = how == 0 ? -1 - (double) i : how == 1 ? 11 + (double) i / 4 : (i & 1) ? 12 : -2;
			vf_count("history:invisible-data-set", 1);
		}
		vf_fp(x.data(), n * 8); vf_fp(y.data(), n * 8);
		size_t l = snprintf(desc, sizeof(desc), "%s data set %d of %d, n=%zu:", use_cycle ? "cycle stage" : "polyline", s + 1, steps, n);
		for (size_t i = 0; i < n && l + 50 < sizeof(desc); i++) l += snprintf(desc + l, sizeof(desc) - l, " (%.6g,%.6g)", x[i], y[i]);
		vf_log("%s", desc);
		bool ok;
		if (use_cycle) {
			vf_at("cycle::set_data");
			int r0 = cyc.set_data(0, x.data(), n), r1 = keep_y ? 0 : cyc.set_data(1, y.data(), n);
			if (r0 < 0 || r1 < 0) vf_inconclusive("cycle::set_data failed (%d, %d)", r0, r1);
			mpt::cycle::stage *st = cyc.begin();
			VF_CHECK(st != 0, "cxx:cycle:no-stage", "%s: no stage after set_data", desc);
			VF_CHECK(st->values().points().size() == 0, "cxx:cycle:not-invalidated", "%s: stage view holds %ld points after the data were replaced", desc, (long) st->values().points().size());
			vf_at("cycle::stage::transform");
			ok = st->transform(tr);
			vf_count("cycle::stage::transform", 1);
			check_polyline2(st->values(), ok, n, x.data(), y.data(), rg, desc);
		} else {
			if (s && vf_chance(r, 1, 2)) {
				vf_at("polyline::clear");
				pl.clear();
				cleared = true;
				vf_count("polyline::clear", 1);
				/* a cleared polyline draws nothing and keeps nothing of the old data */
				VF_CHECK(pl.parts().size() == 0 && pl.points().size() == 0 && !(pl.begin() != pl.end()), "cxx:polyline:clear-leaves-parts", "%s: after clear() %ld parts and %ld points remain", desc, (long) pl.parts().size(), (long) pl.points().size());
			}
			mpt::value_store st[2];
			size_t cur = n;
			if (s && vf_chance(r, 1, 8)) {
				/* empty data set: typed stores without elements */
				cur = 0;
				if (!st[0].reserve<double>(0) || !st[1].reserve<double>(0)) vf_inconclusive("value_store::reserve<double>(0) refused");
				vf_count("history:empty-data-set", 1);
				snprintf(desc, sizeof(desc), "polyline data set %d of %d, empty", s + 1, steps);
				vf_log("%s", desc);
			}
			else if (!st[0].set(mpt::span<const double>(x.data(), n)) || !st[1].set(mpt::span<const double>(y.data(), n))) vf_inconclusive("value_store::set refused");
			vf_at("polyline::set");
			ok = pl.set(tr, mpt::span<const mpt::value_store>(st, 2));
			vf_count("polyline::set", 1);
			if (!cur) {
				/* no data: set() fails; the polyline is either left as it was or empty, in any case consistent */
				long su = 0;
				for (auto &e : pl.parts()) su += e.usr;
				VF_CHECK(!ok, "cxx:polyline:result", "%s: set() succeeded without data", desc);
				if (su) check_polyline2(pl, true, prevn, prevx.data(), prevy.data(), rg, desc);
				else {
					VF_CHECK(pl.points().size() == 0, "cxx:polyline:point-count", "%s: %ld points held, no part draws any", desc, (long) pl.points().size());
					VF_CHECK(!(pl.begin() != pl.end()), "cxx:polyline:iteration-does-not-end", "%s: begin() != end() although nothing is drawn", desc);
				}
				continue;
			}
			check_polyline2(pl, ok, cur, x.data(), y.data(), rg, desc);
			prevx = x; prevy = y; prevn = n;
		}
		if (s) vf_count("monitor:history-steps", 1);
		all += cleared ? " clear+set" : " set";
		all += "(n=" + std::to_string(n) + ")";
	}
	vf_nontrivial();
	vf_sample("%s last: %s", all.c_str(), desc);
}

/* ---------------------------------------- histories of ranges on fixed data */
/*
 * The data stay, the limits of the transformation change between the
 * transformations (also to ranges in which nothing is visible): the view
 * always describes the current data under the current range.
 */
static void case_range_history(vf_rng *r)
{
	static const double ranges[][2] = { { 0, 10 }, { 2, 5 }, { 20, 30 }, { -5, -1 }, { 0, 3 }, { 4, 4.5 }, { 6, 100 }, { 1e3, 1e4 } };
	int steps = vf_range(r, 2, 5);
	bool use_cycle = vf_chance(r, 2, 3);
	size_t n = 2 + vf_below(r, 12);
	std::vector<double> x(n), y(n);
	mpt::polyline pl;
	mpt::reference<mpt::cycle>::type cyc;
	RT tr(2);
	char desc[500];
	std::string all = use_cycle ? "cycle stage, ranges:" : "polyline, ranges:";

	gen_data(r, x.data(), n, 0, 10, 10 + vf_below(r, 6));
	gen_data(r, y.data(), n, 0, 10, 10 + vf_below(r, 6));
	vf_fp_u64(0x7a9e); vf_fp_u64(use_cycle); vf_fp(x.data(), n * 8); vf_fp(y.data(), n * 8);
	if (use_cycle) {
		vf_at("cycle::set_data");
		if (cyc.set_data(0, x.data(), n) < 0 || cyc.set_data(1, y.data(), n) < 0) vf_inconclusive("cycle::set_data failed");
	}
	for (int s = 0; s < steps; s++) {
		double rg[2][2];
		for (int d = 0; d < 2; d++) {
			const double *c = ranges[vf_below(r, s && vf_chance(r, 1, 3) ? 8 : 2 + 3 * (d == 0) )];
			if (s && vf_chance(r, 1, 2) && d == 1) c = ranges[0];
			rg[d][0] = c[0]; rg[d][1] = c[1];
			tr.set(d, c[0], c[1]);
		}
		vf_fp(rg, sizeof(rg));
		size_t l = snprintf(desc, sizeof(desc), "%s, range %d of %d: x [%g,%g] y [%g,%g], n=%zu:", use_cycle ? "cycle stage" : "polyline", s + 1, steps, rg[0][0], rg[0][1], rg[1][0], rg[1][1], n);
		for (size_t i = 0; i < n && l + 50 < sizeof(desc); i++) l += snprintf(desc + l, sizeof(desc) - l, " (%.6g,%.6g)", x[i], y[i]);
		vf_log("%s", desc);
		bool ok;
		if (use_cycle) {
			mpt::cycle::stage *st = cyc.begin();
			VF_CHECK(st != 0, "cxx:cycle:no-stage", "%s: no stage", desc);
			vf_at("cycle::stage::transform");
			ok = st->transform(tr);
			vf_count("cycle::stage::transform", 1);
			check_polyline2(st->values(), ok, n, x.data(), y.data(), rg, desc);
		} else {
			mpt::value_store st[2];
			if (!st[0].set(mpt::span<const double>(x.data(), n)) || !st[1].set(mpt::span<const double>(y.data(), n))) vf_inconclusive("value_store::set refused");
			vf_at("polyline::set");
			ok = pl.set(tr, mpt::span<const mpt::value_store>(st, 2));
			vf_count("polyline::set", 1);
			check_polyline2(pl, ok, n, x.data(), y.data(), rg, desc);
		}
		if (s) vf_count("monitor:range-history-steps", 1);
		if (!ok) vf_count("range-history:nothing-visible", 1);
		char rb[80];
		snprintf(rb, sizeof(rb), " [%g,%g]x[%g,%g]%s", rg[0][0], rg[0][1], rg[1][0], rg[1][1], ok ? "" : "!");
		all += rb;
	}
	vf_nontrivial();
	vf_sample("%s; last: %s", all.c_str(), desc);
}

/* ----------------------------------------- linepart::set_cut / set_trim */
static void case_fraction_setters(uint64_t idx, vf_rng *r)
{
	static const float vals[] = { 0, 1e-6f, 1.f / 65536, 0.25f, 0.5f, 0.99999f, 1, 1.0000001f, 1.5f, 100, -1e-6f, -0.5f, -1, -100, 3.4e38f, -3.4e38f, INFINITY, -INFINITY, NAN, 1e-40f };
	float v = idx < sizeof(vals) / sizeof(*vals) ? vals[idx] : (float) ((vf_unit(r) - 0.25) * 2);
	bool trim = vf_chance(r, 1, 2);
	mpt::linepart lp(5);
	lp._cut = (uint16_t) vf_below(r, 65536); lp._trim = (uint16_t) vf_below(r, 65536);
	mpt::linepart before = lp;
	vf_fp_u64(0x5e7c); vf_fp(&v, sizeof(v)); vf_fp_u64(trim);
	vf_nontrivial();
	vf_at(trim ? "linepart::set_trim" : "linepart::set_cut");
	bool ok = trim ? lp.set_trim(v) : lp.set_cut(v);
	vf_count("linepart::set_cut/set_trim", 1);
	vf_log("%s(%.9g) -> %d, {cut=%u trim=%u}", trim ? "set_trim" : "set_cut", v, ok, lp._cut, lp._trim);
	bool valid = v >= 0 && v <= 1;   /* NaN: false */
	VF_CHECK(lp.raw == before.raw && lp.usr == before.usr && (trim ? lp._cut == before._cut : lp._trim == before._trim), "cxx:fraction:other-field-changed", "%s(%.9g) changed another field", trim ? "set_trim" : "set_cut", v);
	if (!ok) {
		VF_CHECK(!valid, "cxx:fraction:refused", "%s(%.9g) refused", trim ? "set_trim" : "set_cut", v);
		VF_CHECK(lp._cut == before._cut && lp._trim == before._trim, "cxx:fraction:refused-modified", "%s(%.9g) refused but the fraction changed (%u -> %u)", trim ? "set_trim" : "set_cut", v, trim ? before._trim : before._cut, trim ? lp._trim : lp._cut);
		vf_count("fraction:refused", 1);
	} else {
		float back = trim ? lp.trim() : lp.cut();
		VF_CHECK(valid, "cxx:fraction:accepted-out-of-range", "%s(%.9g) accepted, stored code %u (reads %.9g)", trim ? "set_trim" : "set_cut", v, trim ? lp._trim : lp._cut, back);
		VF_CHECK(std::fabs(back - v) <= 2.0f / 65536, "cxx:fraction:readback", "%s(%.9g) reads back %.9g", trim ? "set_trim" : "set_cut", v, back);
		vf_count("fraction:accepted", 1);
	}
	vf_sample("linepart::%s(%.9g) -> %s", trim ? "set_trim" : "set_cut", v, ok ? "accepted" : "refused");
}
/* ------------------------------- transform3 parts on limited (log) axes */
/*
 * layout::graph::transform3::part() with TransformLimit, linear and
 * logarithmic (TransformLg: limits are exponents, the visible range is
 * [10^floor(min), 10^ceil(max)], the line is drawn in log10 space): the parts
 * of a run of positive values satisfy the one-dimension oracle, and on a
 * logarithmic axis cut / trim are the crossing fractions in log space.
 */
static void case_transform3(vf_rng *r)
{
	bool lg = vf_chance(r, 2, 3);
	int dim = (int) vf_below(r, 3);
	double lmin, lmax, range[2];
	size_t n = 2 + vf_below(r, 14);
	double *v = static_cast<double *>(vf_xalloc(n * sizeof(*v)));
	mpt::layout::graph::transform3 t3;
	char desc[500];

	if (lg) { lmin = vf_range(r, -3, 1) + (vf_chance(r, 1, 2) ? 0 : vf_unit(r)); lmax = lmin + 1 + vf_below(r, 3) - (vf_chance(r, 1, 2) ? 0 : vf_unit(r) * 0.5); range[0] = exp10(floor(lmin)); range[1] = exp10(ceil(lmax)); }
	else { lmin = range[0] = (double) vf_range(r, -5, 5); lmax = range[1] = lmin + 1 + vf_below(r, 10); }
	t3._dim[dim].limit.min = lmin; t3._dim[dim].limit.max = lmax;
	t3._dim[dim]._flags |= mpt::TransformLimit | (lg ? mpt::TransformLg : 0);
	for (size_t i = 0; i < n; i++) {
		double u = vf_unit(r);
		if (lg) v[i] = vf_below(r, 10) < 6 ? range[0] * pow(range[1] / range[0], u) : vf_chance(r, 1, 2) ? range[0] * pow(10, -3 * u - 0.01) : range[1] * pow(10, 3 * u + 0.01);
		else v[i] = vf_below(r, 10) < 6 ? range[0] + (range[1] - range[0]) * u : vf_chance(r, 1, 2) ? range[0] - 0.01 - 5 * u : range[1] + 0.01 + 5 * u;
		if (vf_chance(r, 1, 12)) v[i] = range[vf_below(r, 2)];
	}
	size_t l = snprintf(desc, sizeof(desc), "transform3 dim %d %s limit [%g,%g] (values [%g,%g]) n=%zu:", dim, lg ? "log" : "linear", lmin, lmax, range[0], range[1], n);
	for (size_t i = 0; i < n && l + 30 < sizeof(desc); i++) l += snprintf(desc + l, sizeof(desc) - l, " %.17g", v[i]);
	vf_log("%s", desc);
	vf_fp_u64(0x73 + lg); vf_fp(v, n * sizeof(*v)); vf_fp(&lmin, 8); vf_fp(&lmax, 8);
	if (c18_crossings(v, n, range)) vf_nontrivial();

	std::vector<c18_part> parts;
	std::vector<size_t> windows;
	size_t pos = 0;
	while (pos < n) {
		vf_at("transform3::part");
		mpt::linepart lp = t3.part(dim, v + pos, (int) (n - pos));
		vf_count(lg ? "transform3::part (log limit)" : "transform3::part (linear limit)", 1);
		if (vf_logging) vf_log("  part at %zu -> {raw=%u usr=%u cut=%u trim=%u}", pos, lp.raw, lp.usr, lp._cut, lp._trim);
		c18_part c = { lp.raw, lp.usr, lp._cut, lp._trim };
		parts.push_back(c); windows.push_back(n - pos);
		if (!lp.raw || lp.raw > n - pos) break;
		pos += lp.raw;
	}
	if (!lg) c18_check_parts("transform3", v, n, range, parts.data(), parts.size(), windows.data(), C18_COMPLETE);
	else {
		/* structure on the raw values, fractions in log space */
		c18_check_parts("transform3-log", v, n, range, parts.data(), parts.size(), windows.data(), C18_ENDS_FREE);
		size_t o = 0;
		for (auto &p : parts) {
			if (p.usr >= 2) {
				double f0 = v[o], f1 = v[o + 1], e0 = v[o + p.usr - 1], e1 = v[o + p.usr - 2];
				if (f0 < range[0] || f0 > range[1]) {
					double b = f0 < range[0] ? range[0] : range[1];
					long double t = (log10l(b) - log10l(f0)) / (log10l(f1) - log10l(f0)), dec = p.cut / 65536.0L;
					vf_count("monitor:log-cut-fraction", 1);
					if (fabsl(dec - t) > 1.0L / 65536 * 1.0001L && !vf_known("model:transform3-log:cut-fraction")) vf_fail("model:transform3-log:cut-fraction", "%s: part at %zu: cut decodes to %.9Lf, in log10 space the line from %.17g to %.17g crosses %.17g at %.9Lf", desc, o, dec, f0, f1, b, t);
				} else VF_CHECK(!p.cut, "model:transform3-log:cut-without-crossing", "%s: part at %zu starts in range with cut %u", desc, o, p.cut);
				if (e0 < range[0] || e0 > range[1]) {
					double b = e0 < range[0] ? range[0] : range[1];
					long double t = (log10l(b) - log10l(e0)) / (log10l(e1) - log10l(e0)), dec = p.trim / 65536.0L;
					vf_count("monitor:log-trim-fraction", 1);
					if (fabsl(dec - t) > 1.0L / 65536 * 1.0001L && !vf_known("model:transform3-log:trim-fraction")) vf_fail("model:transform3-log:trim-fraction", "%s: part at %zu: trim decodes to %.9Lf, in log10 space the line from %.17g back to %.17g crosses %.17g at %.9Lf", desc, o, dec, e0, e1, b, t);
				} else VF_CHECK(!p.trim, "model:transform3-log:trim-without-crossing", "%s: part at %zu ends in range with trim %u", desc, o, p.trim);
			}
			o += p.raw;
		}
	}
	vf_xfree(v, n * sizeof(*v));
	vf_sample("%s", desc);
}

/* --------------------------------- helper points of cut / trimmed segments */
/*
 * A transformation that fills the polyline points with the library template
 * mpt::apply<point<double>, double>() (x from dimension 0, y from dimension 1).
 * The point stored for the out-of-range end of a cut / trimmed segment is the
 * place where the line crosses the visible box: per coordinate
 * v_out + t (v_in - v_out) with t the true crossing fraction, within 2/65536 of
 * the segment's extent; all other points are the raw values.
 */
class RTA : public RT
{
public:
	RTA() : RT(2) { }
	bool apply(unsigned dim, const mpt::linepart &pt, mpt::point<double> *dest, const double *from) const override
	{
		vf_count("transform::apply (library template)", 1);
		mpt::apply<mpt::point<double>, double>(dest, pt, from, dim ? mpt::point<double>(0, 1) : mpt::point<double>(1, 0));
		return true;
	}
	mpt::point<double> zero() const override { return mpt::point<double>(0, 0); }
};
static long double crossing_nd(const double *const *v, size_t out, size_t in, const double (*rg)[2])
{
	long double t = 0;
	for (int d = 0; d < 2; d++) {
		double o = v[d][out];
		if (o >= rg[d][0] && o <= rg[d][1]) continue;
		long double b = o < rg[d][0] ? rg[d][0] : rg[d][1];
		long double c = (b - o) / ((long double) v[d][in] - o);
		if (c > t) t = c;
	}
	return t;
}
static void case_helper_points(vf_rng *r)
{
	static const double ranges[][2] = { { 0, 1 }, { 0, 10 }, { -5, -2 }, { 2, 3 } };
	size_t n = 2 + vf_below(r, 10);
	double rg[2][2], *v[2];
	char desc[600];
	size_t l = snprintf(desc, sizeof(desc), "helper points n=%zu:", n);
	RTA tr;
	for (int d = 0; d < 2; d++) {
		const double *c = ranges[vf_below(r, 4)];
		rg[d][0] = c[0]; rg[d][1] = c[1];
		tr.set(d, c[0], c[1]);
		v[d] = static_cast<double *>(vf_xalloc(n * sizeof(double)));
		for (size_t i = 0; i < n; i++) {
			double w = c[1] - c[0], u = vf_unit(r);
			v[d][i] = vf_below(r, 10) < (d ? 8u : 6u) ? c[0] + w * u : vf_chance(r, 1, 2) ? c[0] - w * (0.05 + 2 * u) : c[1] + w * (0.05 + 2 * u);
		}
		vf_fp(v[d], n * sizeof(double)); vf_fp(rg[d], sizeof(rg[d]));
		if (l + 60 < sizeof(desc)) l += snprintf(desc + l, sizeof(desc) - l, " dim %d [%g,%g]:", d, c[0], c[1]);
		for (size_t i = 0; i < n && l + 30 < sizeof(desc); i++) l += snprintf(desc + l, sizeof(desc) - l, " %.17g", v[d][i]);
	}
	vf_log("%s", desc);
	if (nd_interesting(2, n, v, rg)) vf_nontrivial();
	mpt::value_store st[2];
	if (!st[0].set(mpt::span<const double>(v[0], n)) || !st[1].set(mpt::span<const double>(v[1], n))) vf_inconclusive("value_store::set refused");
	mpt::polyline pl;
	vf_at("polyline::set");
	pl.set(tr, mpt::span<const mpt::value_store>(st, 2));
	vf_count("polyline::set", 1);
	const mpt::polyline::point *pts = pl.points().begin();
	size_t o = 0, uo = 0;
	for (auto &e : pl.parts()) {
		if (vf_logging) vf_log("  part {raw=%u usr=%u cut=%u trim=%u}", e.raw, e.usr, e._cut, e._trim);
		for (size_t i = 0; i < e.usr; i++) {
			const mpt::polyline::point &q = pts[uo + i];
			bool head = !i && e._cut, tail = i + 1 == e.usr && e._trim && e.usr >= 2;
			if (head && tail) continue;
			if (!head && !tail) {
				VF_CHECK(q.x == v[0][o + i] && q.y == v[1][o + i], "cxx:apply:point-value", "%s: drawn point %zu of the part at %zu is (%.17g,%.17g), input (%.17g,%.17g)", desc, i, o, q.x, q.y, v[0][o + i], v[1][o + i]);
				continue;
			}
			size_t out = o + i, in = head ? out + 1 : out - 1;
			long double t = crossing_nd(v, out, in, rg);
			for (int d = 0; d < 2; d++) {
				long double want = v[d][out] + t * ((long double) v[d][in] - v[d][out]), got = d ? q.y : q.x;
				long double tol = 2.0L / 65536 * fabsl((long double) v[d][in] - v[d][out]) + 1e-12L * (fabsl(want) + 1);
				if (fabsl(got - want) > tol && !vf_known(head ? "cxx:apply:cut-helper-point" : "cxx:apply:trim-helper-point"))
					vf_fail(head ? "cxx:apply:cut-helper-point" : "cxx:apply:trim-helper-point", "%s: part at %zu {usr=%u cut=%u trim=%u}: %s helper point has coordinate %d = %.12Lg, the line from %.17g to %.17g crosses the visible box at %.12Lg (fraction %.9Lf)", desc, o, e.usr, e._cut, e._trim, head ? "start" : "end", d, got, v[d][out], v[d][in], want, t);
			}
			vf_count(head ? "monitor:cut-helper-points" : "monitor:trim-helper-points", 1);
		}
		o += e.raw; uo += e.usr;
	}
	vf_xfree(v[0], n * sizeof(double)); vf_xfree(v[1], n * sizeof(double));
	vf_sample("%s", desc);
}

/* ----------------------------------------------------------------- entry */
static uint64_t n_a1() { return vf_thorough ? 400000 : 40000; }
static uint64_t n_set() { return vf_thorough ? 2000 : 200; }
static uint64_t n_a2() { return vf_thorough ? 400000 : 40000; }
static uint64_t n_pl() { return vf_thorough ? 200000 : 20000; }
static uint64_t n_ndp() { return vf_thorough ? 3000000 : 150000; }
static uint64_t n_pl2() { return vf_thorough ? 500000 : 40000; }
static uint64_t n_hist() { return vf_thorough ? 500000 : 40000; }
static uint64_t n_rhist() { return vf_thorough ? 300000 : 30000; }
static uint64_t n_frac() { return vf_thorough ? 20000 : 2000; }
static uint64_t n_t3() { return vf_thorough ? 400000 : 40000; }
static uint64_t n_help() { return vf_thorough ? 400000 : 40000; }

extern "C" uint64_t vf_cases(void) { return n_a1() + n_set() + n_a2() + n_pl() + nd_ex_count() + n_ndp() + pl2_ex_count() + n_pl2() + norange_count() + n_hist() + n_rhist() + n_frac() + n_t3() + n_help(); }
extern "C" void vf_case(uint64_t idx, vf_rng *r)
{
	if (idx < n_a1()) { case_apply1(r); return; }
	idx -= n_a1();
	if (idx < n_set()) { case_set(idx, r); return; }
	idx -= n_set();
	if (idx < n_a2()) { case_apply2(r); return; }
	idx -= n_a2();
	if (idx < n_pl()) { case_polyline(r); return; }
	idx -= n_pl();
	if (idx < nd_ex_count()) { case_nd_exhaustive(idx); return; }
	idx -= nd_ex_count();
	if (idx < n_ndp()) { case_nd_prng(r); return; }
	idx -= n_ndp();
	if (idx < pl2_ex_count()) { case_polyline2_exhaustive(idx); return; }
	idx -= pl2_ex_count();
	if (idx < n_pl2()) { case_polyline2_prng(r); return; }
	idx -= n_pl2();
	if (idx < norange_count()) { case_norange(idx, r); return; }
	idx -= norange_count();
	if (idx < n_hist()) { case_history(r); return; }
	idx -= n_hist();
	if (idx < n_rhist()) { case_range_history(r); return; }
	idx -= n_rhist();
	if (idx < n_frac()) { case_fraction_setters(idx, r); return; }
	idx -= n_frac();
	if (idx < n_t3()) { case_transform3(r); return; }
	case_helper_points(r);
}
