/*
 * C04: copy-on-write arrays behave as independent values (C API leg).
 *
 * Model: one byte vector (shadow) per handle.  After every operation every
 * handle is read back through its buffer (_used, data) and compared; an
 * operation may only change the handle it was applied to.
 */
#include <stdlib.h>
#include <stdarg.h>
#include <errno.h>
#include <sys/uio.h>

#include "types.h"
#include "array.h"
#include "vf.h"

const char *vf_name = "c04_array";

#define NH 4          /* array handles */
#define SCAP 70000
typedef struct { uint8_t *d; size_t n; } shadow;

static MPT_STRUCT(array) arr[NH];
static shadow sh[NH];
static MPT_STRUCT(slice) sl;       /* slice handle */
static shadow shs;                 /* window content of slice */
static int sl_active;
static const MPT_STRUCT(type_traits) *ctraits;
static char hx1[160], hx2[160], keybuf[96];

static const char *key(const char *op, const char *what)
{
	snprintf(keybuf, sizeof(keybuf), "model:%s:%s", op, what);
	return keybuf;
}
static uint8_t nextv;
static uint8_t fresh(void) { do { nextv++; } while (!nextv || nextv == 0xEE); return nextv; }
static uint8_t *fresh_block(size_t n)
{
	uint8_t *p = vf_xalloc(n);
	for (size_t i = 0; i < n; i++) p[i] = fresh();
	return p;
}
static void sh_set(shadow *s, const uint8_t *d, size_t n) { if (n) memcpy(s->d, d, n); s->n = n; }
static void sh_resize(shadow *s, size_t n) { if (n > s->n) memset(s->d + s->n, 0, n - s->n); s->n = n; }

static size_t h_used(int i) { return arr[i]._buf ? arr[i]._buf->_used : 0; }
static size_t h_size(int i) { return arr[i]._buf ? arr[i]._buf->_size : 0; }
static const uint8_t *h_data(int i) { return arr[i]._buf ? (const uint8_t *) (arr[i]._buf + 1) : 0; }
static int h_flags(int i) { return arr[i]._buf ? (int) arr[i]._buf->_vptr->get_flags(arr[i]._buf) : 0; }
static int h_special(int i) { return h_flags(i) & (MPT_ENUM(BufferImmutable) | MPT_ENUM(BufferNoCopy)); }
/* Only a buffer that forbids copies can make an operation on a handle fail: an immutable buffer is
 * replaced by a private, writable copy (anchor: "private copy when refcount>1 or immutable"). */
static int h_refusable(int i) { return h_flags(i) & MPT_ENUM(BufferNoCopy); }

/* compare all handles against their shadows; `op`/`h` name the operation just done */
static void check_all(const char *op, int h, const char *ctx)
{
	for (int i = 0; i < NH; i++) {
		const char *what = (i == h) ? "target" : "other-handle";
		size_t u = h_used(i);
		if (arr[i]._buf) {
			VF_CHECK(u <= h_size(i), key(op, "used-exceeds-size"), "%s: handle %d used %zu > size %zu", ctx, i, u, h_size(i));
		}
		if (u != sh[i].n) {
			vf_fail(key(op, i == h ? "target-length" : "other-handle-length"), "%s: handle %d has %zu bytes, model %zu", ctx, i, u, sh[i].n);
		}
		if (u && memcmp(h_data(i), sh[i].d, u)) {
			size_t p = 0;
			while (h_data(i)[p] == sh[i].d[p]) p++;
			size_t s = p > 8 ? p - 8 : 0, l = u - s > 40 ? 40 : u - s;
			snprintf(keybuf, sizeof(keybuf), "model:%s:%s-content", op, what);
			vf_fail(keybuf, "%s: handle %d differs at byte %zu of %zu: has ..%s model ..%s", ctx, i, p, u,
			        vf_hex(hx1, sizeof(hx1), h_data(i) + s, l), vf_hex(hx2, sizeof(hx2), sh[i].d + s, l));
		}
	}
	if (sl_active) {
		MPT_STRUCT(buffer) *b = sl._a._buf;
		size_t u = b ? b->_used : 0;
		VF_CHECK(sl._off + sl._len <= u, key(op, "slice-window-outside"), "%s: slice window %zu+%zu outside data of %zu", ctx, (size_t) sl._off, (size_t) sl._len, u);
		VF_CHECK(sl._len == shs.n, key(op, h == NH ? "target-length" : "other-handle-length"), "%s: slice window has %zu bytes, model %zu", ctx, (size_t) sl._len, shs.n);
		if (sl._len && memcmp(((const uint8_t *) (b + 1)) + sl._off, shs.d, shs.n)) {
			snprintf(keybuf, sizeof(keybuf), "model:%s:%s-content", op, h == NH ? "target" : "other-handle");
			vf_fail(keybuf, "%s: slice window has %s model %s", ctx,
			        vf_hex(hx1, sizeof(hx1), ((const uint8_t *) (b + 1)) + sl._off, sl._len), vf_hex(hx2, sizeof(hx2), shs.d, shs.n));
		}
	}
	vf_count("monitor:all-handle-readbacks", 1);
}
static void drop(int i)
{
	if (arr[i]._buf) {
		arr[i]._buf->_vptr->unref(arr[i]._buf);
		arr[i]._buf = 0;
	}
	sh[i].n = 0;
}
static void drop_slice(void)
{
	if (sl_active && sl._a._buf) sl._a._buf->_vptr->unref(sl._a._buf);
	memset(&sl, 0, sizeof(sl));
	sl_active = 0;
	shs.n = 0;
}
static size_t pick_len(vf_rng *r, int h)
{
	size_t u = h_used(h), s = h_size(h), fr = s - u;
	size_t c[] = { 0, 1, 2, fr, fr + 1, fr ? fr - 1 : 0, 63, 64, 65, 127, 128, 129, u, u + 1, s + 1 };
	if (vf_chance(r, 1, 3)) return c[vf_below(r, sizeof(c) / sizeof(*c))];
	if (vf_chance(r, 1, 2)) return vf_below(r, 10);
	return vf_below(r, 300);
}
static size_t pick_pos(vf_rng *r, int h)
{
	size_t u = h_used(h);
	switch (vf_below(r, 8)) {
	case 0: return 0;
	case 1: return u;
	case 2: return u + 1 + vf_below(r, 70);
	case 3: return u ? u - 1 : 0;
	default: return vf_below(r, (uint32_t) u + 1);
	}
}
static int shared_state(int h)
{
	return (h_flags(h) & MPT_ENUM(BufferShared)) ? 1 : 0;
}
static void count_state(int h)
{
	int f = h_flags(h);
	if (!arr[h]._buf) vf_count("state:empty-handle", 1);
	else if (f & MPT_ENUM(BufferShared)) vf_count("state:shared", 1);
	else vf_count("state:unshared", 1);
	if (f & MPT_ENUM(BufferImmutable)) vf_count("state:immutable", 1);
	if (f & MPT_ENUM(BufferNoCopy)) vf_count("state:nocopy", 1);
	if (arr[h]._buf && arr[h]._buf->_content_traits) vf_count("state:typed-char", 1);
}

enum { OpClone, OpClear, OpAppend, OpAppendZero, OpInsert, OpSet, OpSlice, OpCut, OpTrunc, OpReserve, OpReduce,
       OpPrintf, OpString, OpNewFlagged, OpSliceOpen, OpSliceWrite, OpSliceWriteZero, OpSlicePrep, OpSliceDrop, OpDetach, OpCount };
static const char *opn[OpCount] = { "array_clone", "array_clear", "array_append", "array_append0", "array_insert", "array_set",
       "array_slice", "buffer_cut", "buffer_truncate", "array_reserve", "array_reduce", "printf", "array_string", "new_flagged",
       "slice_open", "slice_write", "slice_write0", "slice_prepare", "slice_drop", "buffer_detach" };

static void do_op(vf_rng *r, int op, char *desc, size_t dcap, size_t *dl)
{
	int h = (int) vf_below(r, NH), g = (int) vf_below(r, NH);
	size_t len = pick_len(r, h), pos = pick_pos(r, h);
	char ctx[200];
	uint8_t *in = 0;
	void *ptr;
	int special = h_refusable(h), flagged = h_special(h);
	int typed = arr[h]._buf && arr[h]._buf->_content_traits;
	size_t u = h_used(h);
	int target = h;
	int hadbuf = arr[h]._buf != 0;

	if (len > 4000) len = 4000;
	if (pos > 4000) pos = 4000;
	snprintf(ctx, sizeof(ctx), "%s(h=%d,g=%d,pos=%zu,len=%zu) used=%zu size=%zu flags=%x %s", opn[op], h, g, pos, len, u, h_size(h), h_flags(h), typed ? "char" : "raw");
	vf_log("%s", ctx);
	vf_count(opn[op], 1);
	count_state(h);
	vf_fp_u64(((uint64_t) op << 56) ^ ((uint64_t) h << 48) ^ ((uint64_t) g << 40) ^ (pos << 20) ^ len);
	if (*dl + 48 < dcap) *dl += snprintf(desc + *dl, dcap - *dl, " %s(%d,%d,%zu,%zu)", opn[op], h, g, pos, len);

	switch (op) {
	case OpClone: {
		vf_at("mpt_array_clone");
		int tg = arr[g]._buf && arr[g]._buf->_content_traits;
		int ret = mpt_array_clone(&arr[h], &arr[g]);
		if (ret >= 0) sh_set(&sh[h], sh[g].d, sh[g].n);
		else {
			/* only differing content types may be refused */
			VF_CHECK(arr[h]._buf && arr[g]._buf && typed != tg, key(opn[op], "refused"), "%s: returned %d", ctx, ret);
		}
		break; }
	case OpClear: {
		vf_at("mpt_array_clone");
		int ret = mpt_array_clone(&arr[h], 0);
		VF_CHECK(ret >= 0, key(opn[op], "refused"), "%s: returned %d", ctx, ret);
		sh[h].n = 0;
		break; }
	case OpAppend: case OpAppendZero:
		vf_at("mpt_array_append");
		if (op == OpAppend) in = fresh_block(len);
		ptr = mpt_array_append(&arr[h], len, in);
		if (typed) {
			VF_CHECK(!ptr, key(opn[op], "accepted-on-typed"), "%s: raw append accepted on typed buffer", ctx);
			break;
		}
		if (!ptr) {
			VF_CHECK(special || !len, key(opn[op], "refused"), "%s: returned NULL (errno %d)", ctx, errno);
			break;
		}
		if (len) {
			if (in) memcpy(sh[h].d + sh[h].n, in, len); else memset(sh[h].d + sh[h].n, 0, len);
			sh[h].n += len;
			VF_CHECK(ptr == (void *) (h_data(h) + u), key(opn[op], "return-address"), "%s: returned address is not the appended part", ctx);
		}
		break;
	case OpInsert: {
		vf_at("mpt_array_insert");
		ptr = mpt_array_insert(&arr[h], pos, len);
		if (!ptr) {
			VF_CHECK(special || typed || !(pos + len), key(opn[op], "refused"), "%s: returned NULL (errno %d)", ctx, errno);
			break;
		}
		/* gap is uninitialised by contract: the caller fills it */
		in = fresh_block(len);
		size_t n = sh[h].n;
		if (pos > n) { sh_resize(&sh[h], pos); n = pos; }
		memmove(sh[h].d + pos + len, sh[h].d + pos, n - pos);
		memcpy(sh[h].d + pos, in, len);
		sh[h].n = n + len;
		VF_CHECK(h_used(h) == sh[h].n, key(opn[op], "target-length"), "%s: used %zu after insert, model %zu", ctx, h_used(h), sh[h].n);
		VF_CHECK(ptr == (void *) (h_data(h) + pos), key(opn[op], "return-address"), "%s: returned address is not data+pos", ctx);
		memcpy(ptr, in, len);
		break; }
	case OpSet: {
		/* typed set: traits must be the buffer's; offset in elements (size 1), negative = from end */
		long off = vf_chance(r, 1, 4) ? -(long) vf_below(r, (uint32_t) u + 3) : (long) pos;
		const MPT_STRUCT(type_traits) *tr = ctraits;
		vf_at("mpt_array_set");
		if (vf_chance(r, 1, 2)) in = fresh_block(len);
		snprintf(ctx, sizeof(ctx), "array_set(h=%d,off=%ld,len=%zu,%s) used=%zu size=%zu flags=%x %s", h, off, len, in ? "data" : "zero", u, h_size(h), h_flags(h), typed ? "char" : "raw");
		vf_log("%s", ctx);
		ptr = mpt_array_set(&arr[h], tr, len, in, off);
		long p = off < 0 ? off + (long) u : off;
		if ((hadbuf && !typed && ptr == 0) || p < 0) {
			VF_CHECK(!ptr, key(opn[op], "accepted-outside"), "%s: accepted", ctx);
			break;
		}
		if (hadbuf && !typed) {
			/* raw buffer with typed set: must be refused */
			vf_fail(key(opn[op], "accepted-on-raw"), "%s: typed set accepted on raw buffer", ctx);
		}
		if (!ptr) {
			VF_CHECK(special, key(opn[op], "refused"), "%s: returned NULL (errno %d)", ctx, errno);
			break;
		}
		if ((size_t) p > sh[h].n) sh_resize(&sh[h], p);
		if ((size_t) p + len > sh[h].n) sh_resize(&sh[h], p + len);
		if (in) memcpy(sh[h].d + p, in, len); else memset(sh[h].d + p, 0, len);
		VF_CHECK(ptr == (void *) (h_data(h) + p), key(opn[op], "return-address"), "%s: returned address is not data+pos", ctx);
		break; }
	case OpSlice: {
		vf_at("mpt_array_slice");
		ptr = mpt_array_slice(&arr[h], pos, len);
		if (!ptr) {
			VF_CHECK(special, key(opn[op], "refused"), "%s: returned NULL (errno %d)", ctx, errno);
			break;
		}
		if (pos + len > sh[h].n) sh_resize(&sh[h], pos + len);
		VF_CHECK(h_used(h) == sh[h].n, key(opn[op], "target-length"), "%s: used %zu after slice, model %zu", ctx, h_used(h), sh[h].n);
		VF_CHECK(ptr == (void *) (h_data(h) + pos), key(opn[op], "return-address"), "%s: returned address is not data+pos", ctx);
		VF_CHECK(!(h_flags(h) & MPT_ENUM(BufferShared)), key(opn[op], "still-shared"), "%s: writable slice of a shared buffer", ctx);
		/* write through the returned pointer */
		in = fresh_block(len);
		memcpy(ptr, in, len);
		memcpy(sh[h].d + pos, in, len);
		break; }
	case OpCut: case OpTrunc: {
		/* buffer level operation: caller must own the buffer exclusively */
		if (!arr[h]._buf) break;
		if (shared_state(h) || (h_flags(h) & MPT_ENUM(BufferImmutable))) {
			vf_at("mpt_array_slice");
			if (!mpt_array_slice(&arr[h], 0, 0)) break;
			check_all("array_slice", h, ctx);
			if (shared_state(h)) break;
		}
		if (op == OpTrunc) len = 0;
		else if (!len) len = 1;
		if (vf_chance(r, 3, 4) && len <= sh[h].n) pos = vf_below(r, (uint32_t) (sh[h].n - len) + 1);
		snprintf(ctx, sizeof(ctx), "%s(h=%d,off=%zu,len=%zu) used=%zu size=%zu", opn[op], h, pos, len, h_used(h), h_size(h));
		vf_log("%s", ctx);
		vf_at("mpt_buffer_cut");
		ssize_t ret = mpt_buffer_cut(arr[h]._buf, pos, len);
		size_t n = sh[h].n;
		if (pos > n || len > n - pos) {
			VF_CHECK(ret < 0, key(opn[op], "accepted-outside"), "%s: returned %zd", ctx, ret);
			break;
		}
		VF_CHECK(ret >= 0, key(opn[op], "refused"), "%s: returned %zd", ctx, ret);
		if (!len) sh[h].n = pos;
		else { memmove(sh[h].d + pos, sh[h].d + pos + len, n - pos - len); sh[h].n = n - len; }
		break; }
	case OpReserve: {
		const MPT_STRUCT(type_traits) *tr = vf_chance(r, 1, 4) ? (typed ? 0 : ctraits) : (typed ? ctraits : 0);
		int same = (tr != 0) == (typed != 0) || !arr[h]._buf;
		vf_at("mpt_array_reserve");
		MPT_STRUCT(buffer) *b = mpt_array_reserve(&arr[h], len, tr);
		if (!b) {
			VF_CHECK(special, key(opn[op], "refused"), "%s: returned NULL (errno %d)", ctx, errno);
			break;
		}
		VF_CHECK(b == arr[h]._buf, key(opn[op], "return-buffer"), "%s: returned buffer is not the handle's", ctx);
		VF_CHECK(b->_size >= len, key(opn[op], "capacity"), "%s: capacity %zu after reserve", ctx, b->_size);
		VF_CHECK(!(h_flags(h) & MPT_ENUM(BufferShared)), key(opn[op], "still-shared"), "%s: reserved buffer is shared", ctx);
		/* adopt: content must be a prefix of the old content; complete when it fits and the type is kept */
		size_t nu = h_used(h);
		VF_CHECK(nu <= sh[h].n && (!nu || !memcmp(h_data(h), sh[h].d, nu)), key(opn[op], "content-not-prefix"),
		         "%s: content after reserve (%zu bytes) is not a prefix of the old %zu bytes", ctx, nu, sh[h].n);
		/* a change of the content type discards the data: the bytes of one type are not elements of another,
		 * and the outcome must not depend on whether the buffer happened to be shared */
		if (!same) {
			vf_count("state:reserve-changes-type", 1);
			VF_CHECK(nu == 0, key(opn[op], "content-kept-across-type-change"), "%s: %zu bytes of the old type kept", ctx, nu);
		}
		if (same && len >= sh[h].n && !flagged) {
			VF_CHECK(nu == sh[h].n, key(opn[op], "content-lost"), "%s: %zu of %zu bytes kept although they fit", ctx, nu, sh[h].n);
		}
		sh[h].n = nu;
		break; }
	case OpReduce: {
		vf_at("mpt_array_reduce");
		size_t s = mpt_array_reduce(&arr[h]);
		if (arr[h]._buf) VF_CHECK(s >= sh[h].n, key(opn[op], "capacity"), "%s: returned %zu below content", ctx, s);
		break; }
	case OpPrintf: {
		static char fmtbuf[512];
		size_t want = len > 400 ? 400 : len;
		if (arr[h]._buf && !typed) break; /* raw buffers are refused; covered below */
		for (size_t i = 0; i < want; i++) fmtbuf[i] = (char) ('a' + (fresh() % 26));
		fmtbuf[want] = 0;
		vf_at("mpt_printf");
		int ret = mpt_printf(&arr[h], "%s#%d", fmtbuf, (int) pos);
		char exp[600];
		int el = snprintf(exp, sizeof(exp), "%s#%d", fmtbuf, (int) pos);
		if (ret < 0) {
			VF_CHECK(special, key(opn[op], "refused"), "%s: returned %d", ctx, ret);
			break;
		}
		VF_CHECK(ret == el, key(opn[op], "return"), "%s: returned %d, text has %d characters", ctx, ret, el);
		memcpy(sh[h].d + sh[h].n, exp, el);
		sh[h].n += el;
		break; }
	case OpString: {
		if (!typed) break;
		vf_at("mpt_array_string");
		char *s = mpt_array_string(&arr[h]);
		if (!s) {
			VF_CHECK(special, key(opn[op], "refused"), "%s: returned NULL (errno %d)", ctx, errno);
			break;
		}
		/* content is kept; a terminator may have been appended */
		size_t n = sh[h].n;
		if (!memchr(sh[h].d, 0, n)) {
			if (h_used(h) == n + 1) { sh[h].d[n] = 0; sh[h].n = n + 1; }
		}
		VF_CHECK(s == (char *) h_data(h), key(opn[op], "return-address"), "%s: returned address is not the handle's data", ctx);
		size_t sl_ = strnlen((char *) sh[h].d, sh[h].n);
		VF_CHECK(sl_ < sh[h].n || h_used(h) < h_size(h), key(opn[op], "unterminated"), "%s: no terminator inside data", ctx);
		break; }
	case OpNewFlagged: {
		/* replace handle by a fresh buffer with static flags and content */
		static const int fl[] = { 0, MPT_ENUM(BufferImmutable), MPT_ENUM(BufferNoCopy), 0 };
		int f = fl[vf_below(r, 4)];
		drop(h);
		if (len > 700) len = 700;
		vf_at("_mpt_buffer_alloc");
		MPT_STRUCT(buffer) *b = _mpt_buffer_alloc(len + vf_below(r, 3) * 64, f);
		if (!b) vf_inconclusive("buffer allocation failed");
		if (vf_chance(r, 1, 2)) b->_content_traits = ctraits;
		in = fresh_block(len);
		vf_at("mpt_buffer_set");
		long rs = mpt_buffer_set(b, b->_content_traits, 0, in, len);
		VF_CHECK(rs >= 0, "model:buffer_set:refused", "%s: initial fill returned %ld", ctx, rs);
		arr[h]._buf = b;
		sh_set(&sh[h], in, len);
		break; }
	case OpSliceOpen: {
		drop_slice();
		if (!arr[h]._buf) break;
		vf_at("mpt_array_clone");
		if (mpt_array_clone(&sl._a, &arr[h]) < 0) break;
		sl_active = 1;
		sl._off = vf_below(r, (uint32_t) sh[h].n + 1);
		sl._len = vf_below(r, (uint32_t) (sh[h].n - sl._off) + 1);
		sh_set(&shs, sh[h].d + sl._off, sl._len);
		target = NH;
		break; }
	case OpSliceWrite: case OpSliceWriteZero: case OpSlicePrep: {
		if (!sl_active) break;
		size_t esz = (op == OpSlicePrep) ? 0 : 1 + vf_below(r, 8), nblk = vf_below(r, 12);
		if (vf_chance(r, 1, 6)) { esz = len > 0 ? len : 1; if (op == OpSlicePrep) esz = 0; }
		int styped = sl._a._buf && sl._a._buf->_content_traits;
		int sspecial = sl._a._buf ? (int) (sl._a._buf->_vptr->get_flags(sl._a._buf) & MPT_ENUM(BufferNoCopy)) : 0;
		if (op == OpSliceWrite) in = fresh_block(esz * nblk);
		snprintf(ctx, sizeof(ctx), "%s(nblk=%zu,size=%zu) window=%zu+%zu used=%zu size=%zu flags=%x", opn[op], nblk, esz,
		         (size_t) sl._off, (size_t) sl._len, sl._a._buf->_used, sl._a._buf->_size, (int) sl._a._buf->_vptr->get_flags(sl._a._buf));
		vf_log("%s", ctx);
		vf_at("mpt_slice_write");
		ssize_t ret = mpt_slice_write(&sl, nblk, in, esz);
		target = NH;
		len = esz * nblk; /* for vf_xfree */
		if (styped) {
			VF_CHECK(ret < 0, key(opn[op], "accepted-on-typed"), "%s: returned %zd", ctx, ret);
			break;
		}
		if (ret < 0) {
			VF_CHECK(sspecial || !esz, key(opn[op], "refused"), "%s: returned %zd", ctx, ret);
			break;
		}
		if (!esz) break;   /* prepare only: window unchanged */
		VF_CHECK((size_t) ret <= nblk, key(opn[op], "return"), "%s: returned %zd for %zu blocks", ctx, ret, nblk);
		size_t add = (size_t) ret * esz;
		if (in) memcpy(shs.d + shs.n, in, add); else memset(shs.d + shs.n, 0, add);
		shs.n += add;
		if (nblk) VF_CHECK(ret > 0, key(opn[op], "nothing-written"), "%s: returned 0", ctx);
		break; }
	case OpSliceDrop:
		drop_slice();
		break;
	case OpDetach: {
		/* the buffer's own detach entry (what reduce/reserve/set use): private buffer of at least
		 * len bytes holding the content, truncated when len is smaller */
		if (!arr[h]._buf) break;
		if (vf_chance(r, 1, 2)) len = vf_below(r, (uint32_t) u + 2);
		snprintf(ctx, sizeof(ctx), "buffer_detach(h=%d,len=%zu) used=%zu size=%zu flags=%x", h, len, u, h_size(h), h_flags(h));
		vf_log("%s", ctx);
		vf_at("buffer::detach");
		MPT_STRUCT(buffer) *b = arr[h]._buf->_vptr->detach(arr[h]._buf, len);
		if (!b) break;   /* refused: handle keeps its buffer, checked below */
		arr[h]._buf = b;
		VF_CHECK(b->_size >= len, key(opn[op], "capacity"), "%s: capacity %zu", ctx, b->_size);
		size_t nu = b->_used;
		VF_CHECK(nu <= sh[h].n && nu >= (len < sh[h].n ? len : sh[h].n), key(opn[op], "length"), "%s: %zu bytes after detach", ctx, nu);
		sh[h].n = nu;   /* prefix; content compared below */
		break; }
	}
	vf_xfree(in, len);
	check_all(opn[op], target, ctx);
}

uint64_t vf_cases(void) { return vf_thorough ? 3000000 : 100000; }

void vf_case(uint64_t idx, vf_rng *r)
{
	char desc[1900];
	size_t dl = 0;
	int nops = vf_range(r, 10, vf_thorough ? 120 : 70);
	int shared_seen = 0, writes_on_shared = 0;

	(void) idx;
	if (!ctraits) {
		ctraits = mpt_type_traits('c');
		if (!ctraits) vf_inconclusive("no traits for 'c'");
		for (int i = 0; i < NH; i++) sh[i].d = malloc(SCAP);
		shs.d = malloc(SCAP);
	}
	desc[0] = 0;
	for (int i = 0; i < nops; i++) {
		int op = (int) vf_below(r, OpCount);
		/* bias: cloning early creates sharing */
		if (i < 6 && vf_chance(r, 1, 2)) op = (i & 1) ? OpClone : OpAppend;
		int before = 0;
		for (int k = 0; k < NH; k++) before |= shared_state(k);
		do_op(r, op, desc, sizeof(desc), &dl);
		if (before) {
			shared_seen = 1;
			if (op != OpClone && op != OpClear && op != OpReduce && op != OpSliceOpen && op != OpSliceDrop) writes_on_shared++;
		}
		size_t tot = 0;
		for (int k = 0; k < NH; k++) tot += sh[k].n;
		if (tot > 40000) break;
	}
	for (int i = 0; i < NH; i++) drop(i);
	drop_slice();
	if (shared_seen && writes_on_shared >= 3) vf_nontrivial();
	if (shared_seen) vf_count("history:had-shared-buffer", 1);
	vf_sample("%s", desc);
}
