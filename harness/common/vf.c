/*
 * vf runtime: sequential case runner, status file, PRNG.  See vf.h.
 */
#define _GNU_SOURCE
#include "vf.h"
#include "vf_status.h"

#include <stdarg.h>
#include <stdlib.h>
#include <unistd.h>
#include <fcntl.h>
#include <errno.h>
#include <sys/mman.h>

#if defined(__SANITIZE_ADDRESS__)
# include <sanitizer/asan_interface.h>
# include <sanitizer/lsan_interface.h>
# define VF_ASAN 1
#else
# define VF_ASAN 0
#endif

int vf_thorough = 0;
int vf_logging = 0;
uint64_t vf_seed = 1;

static struct vf_status vf_local_status;
static struct vf_status *st = &vf_local_status;
static FILE *fpfile;
static uint64_t case_fp;
static int case_nt;
static const char *known_env;

/* ---------------------------------------------------------------- PRNG -- */
static uint64_t splitmix(uint64_t *x)
{
	uint64_t z = (*x += 0x9e3779b97f4a7c15ULL);
	z = (z ^ (z >> 30)) * 0xbf58476d1ce4e5b9ULL;
	z = (z ^ (z >> 27)) * 0x94d049bb133111ebULL;
	return z ^ (z >> 31);
}
void vf_seed_rng(vf_rng *r, uint64_t a, uint64_t b)
{
	uint64_t x = a * 0x9e3779b97f4a7c15ULL ^ (b + 0x632be59bd9b4e019ULL);
	x ^= splitmix(&b);
	for (int i = 0; i < 4; i++) r->s[i] = splitmix(&x);
}
static inline uint64_t rotl(uint64_t x, int k) { return (x << k) | (x >> (64 - k)); }
uint64_t vf_u64(vf_rng *r)
{
	uint64_t *s = r->s;
	uint64_t result = rotl(s[1] * 5, 7) * 9, t = s[1] << 17;
	s[2] ^= s[0]; s[3] ^= s[1]; s[1] ^= s[2]; s[0] ^= s[3];
	s[2] ^= t; s[3] = rotl(s[3], 45);
	return result;
}
uint32_t vf_below(vf_rng *r, uint32_t n)
{
	if (n <= 1) return 0;
	return (uint32_t) (((vf_u64(r) >> 32) * (uint64_t) n) >> 32);
}
int vf_range(vf_rng *r, int lo, int hi)
{
	if (hi <= lo) return lo;
	return lo + (int) vf_below(r, (uint32_t) (hi - lo) + 1u);
}
int vf_chance(vf_rng *r, unsigned num, unsigned den)
{
	return vf_below(r, den) < num;
}
void vf_bytes(vf_rng *r, void *dst, size_t n)
{
	uint8_t *d = dst;
	while (n >= 8) { uint64_t v = vf_u64(r); memcpy(d, &v, 8); d += 8; n -= 8; }
	if (n) { uint64_t v = vf_u64(r); memcpy(d, &v, n); }
}
double vf_unit(vf_rng *r)
{
	return (double) (vf_u64(r) >> 11) * (1.0 / 9007199254740992.0);
}

/* ----------------------------------------------------------- reporting -- */
void vf_at(const char *api)
{
	size_t n = strlen(api);
	if (n >= sizeof(st->at)) n = sizeof(st->at) - 1;
	memcpy(st->at, api, n);
	st->at[n] = 0;
}
void vf_log(const char *fmt, ...)
{
	va_list ap;
	if (!vf_logging) return;
	va_start(ap, fmt);
	vfprintf(stderr, fmt, ap);
	va_end(ap);
	fputc('\n', stderr);
}
/* counter lookup: pointer-identity cache in front of the name table */
#define PCACHE 1024
static struct { const char *p; int slot; } pcache[PCACHE];
static int counter_slot(const char *name, int ismax)
{
	size_t h = ((uintptr_t) name >> 3) % PCACHE;
	/* the cache is keyed by address; names built in a reused buffer are told apart by content */
	if (pcache[h].p == name && !strncmp(st->c[pcache[h].slot].name, name, sizeof(st->c[0].name) - 1)) return pcache[h].slot;
	uint32_t i;
	for (i = 0; i < st->ncounters; i++) {
		if (!strncmp(st->c[i].name, name, sizeof(st->c[i].name) - 1)) break;
	}
	if (i == st->ncounters) {
		if (i >= VF_MAXCOUNTERS) return -1;
		strncpy(st->c[i].name, name, sizeof(st->c[i].name) - 1);
		st->c[i].ismax = ismax;
		st->c[i].val = 0;
		st->ncounters = i + 1;
	}
	pcache[h].p = name;
	pcache[h].slot = (int) i;
	return (int) i;
}
void vf_count(const char *name, uint64_t add)
{
	int s = counter_slot(name, 0);
	if (s >= 0) st->c[s].val += add;
}
void vf_max(const char *name, uint64_t v)
{
	int s = counter_slot(name, 1);
	if (s >= 0 && st->c[s].val < v) st->c[s].val = v;
}
void vf_fp_u64(uint64_t v)
{
	uint64_t x = case_fp ^ v;
	case_fp = splitmix(&x);
}
void vf_fp(const void *p, size_t n)
{
	const uint8_t *b = p;
	uint64_t h = 0xcbf29ce484222325ULL ^ n;
	for (size_t i = 0; i < n; i++) { h ^= b[i]; h *= 0x100000001b3ULL; }
	vf_fp_u64(h);
}
void vf_nontrivial(void) { case_nt = 1; }

void vf_sample(const char *fmt, ...)
{
	va_list ap;
	if (st->nsamples >= VF_MAXSAMPLES) return;
	va_start(ap, fmt);
	vsnprintf(st->samples[st->nsamples], sizeof(st->samples[0]), fmt, ap);
	va_end(ap);
	st->nsamples++;
}
int vf_known(const char *key)
{
	const char *p = known_env;
	size_t n = strlen(key);
	while (p && *p) {
		const char *e = strchr(p, ',');
		size_t l = e ? (size_t) (e - p) : strlen(p);
		if (l == n && !memcmp(p, key, n)) {
			char nm[56];
			snprintf(nm, sizeof(nm), "known:%s", key);
			/* not a literal: bypass pointer cache by direct search */
			uint32_t i;
			for (i = 0; i < st->ncounters; i++)
				if (!strncmp(st->c[i].name, nm, sizeof(st->c[i].name) - 1)) break;
			if (i == st->ncounters && i < VF_MAXCOUNTERS) {
				strncpy(st->c[i].name, nm, sizeof(st->c[i].name) - 1);
				st->c[i].val = 0; st->c[i].ismax = 0;
				st->ncounters = i + 1;
			}
			if (i < VF_MAXCOUNTERS) st->c[i].val++;
			return 1;
		}
		p = e ? e + 1 : 0;
	}
	return 0;
}
void vf_fail(const char *key, const char *fmt, ...)
{
	va_list ap;
	strncpy(st->vkey, key, sizeof(st->vkey) - 1);
	va_start(ap, fmt);
	vsnprintf(st->vdetail, sizeof(st->vdetail), fmt, ap);
	va_end(ap);
	st->has_violation = 1;
	if (vf_logging) fprintf(stderr, "VF_FAIL key=%s :: %s\n", st->vkey, st->vdetail);
	msync(st, sizeof(*st), MS_SYNC);
	_exit(3);
}
void vf_inconclusive(const char *fmt, ...)
{
	va_list ap;
	va_start(ap, fmt);
	vsnprintf(st->imsg, sizeof(st->imsg), fmt, ap);
	va_end(ap);
	st->inconclusive = 1;
	if (vf_logging) fprintf(stderr, "VF_INCONCLUSIVE %s\n", st->imsg);
	msync(st, sizeof(*st), MS_SYNC);
	_exit(4);
}
char *vf_hex(char *dst, size_t dstlen, const void *p, size_t n)
{
	static const char hx[] = "0123456789abcdef";
	const uint8_t *b = p;
	size_t o = 0;
	for (size_t i = 0; i < n; i++) {
		if (o + 6 >= dstlen) { if (o + 3 < dstlen) { dst[o++] = '.'; dst[o++] = '.'; } break; }
		dst[o++] = hx[b[i] >> 4];
		dst[o++] = hx[b[i] & 15];
	}
	if (dstlen) dst[o < dstlen ? o : dstlen - 1] = 0;
	return dst;
}
void *vf_xalloc(size_t n)
{
	void *p = malloc(n ? n : 1);
	if (!p) vf_inconclusive("out of memory (%zu)", n);
#if VF_ASAN
	if (!n) ASAN_POISON_MEMORY_REGION(p, 1);
#endif
	return p;
}
void vf_xfree(void *p, size_t n)
{
	if (!p) return;
#if VF_ASAN
	if (!n) ASAN_UNPOISON_MEMORY_REGION(p, 1);
#else
	(void) n;
#endif
	free(p);
}
static int __attribute__((noinline)) leak_check_deep(int depth)
{
	volatile char pad[256];
	memset((void *) pad, 0, sizeof(pad));
	if (depth > 0) return leak_check_deep(depth - 1) + pad[0];
#if VF_ASAN
	return __lsan_do_recoverable_leak_check();
#else
	return 0;
#endif
}
int vf_leak_check(void)
{
	return leak_check_deep(8);
}

/* ---------------------------------------------------------------- main -- */
static uint64_t name_hash(const char *s)
{
	uint64_t h = 0xcbf29ce484222325ULL;
	while (*s) { h ^= (uint8_t) *s++; h *= 0x100000001b3ULL; }
	return h;
}
int main(int argc, char **argv)
{
	uint64_t from = 0, to = UINT64_MAX, step = 1;
	const char *status = 0, *fpname = 0;
	int count_only = 0;

	for (int i = 1; i < argc; i++) {
		const char *a = argv[i];
		const char *v = (i + 1 < argc) ? argv[i + 1] : "";
		if (!strcmp(a, "--tier")) { vf_thorough = !strcmp(v, "thorough"); i++; }
		else if (!strcmp(a, "--seed")) { vf_seed = strtoull(v, 0, 0); i++; }
		else if (!strcmp(a, "--from")) { from = strtoull(v, 0, 0); i++; }
		else if (!strcmp(a, "--to")) { to = strtoull(v, 0, 0); i++; }
		else if (!strcmp(a, "--step")) { step = strtoull(v, 0, 0); i++; }
		else if (!strcmp(a, "--status")) { status = v; i++; }
		else if (!strcmp(a, "--fp")) { fpname = v; i++; }
		else if (!strcmp(a, "--log")) vf_logging = 1;
		else if (!strcmp(a, "--count")) count_only = 1;
		else { fprintf(stderr, "%s: unknown argument %s\n", vf_name, a); return 2; }
	}
	if (!step) step = 1;
	known_env = getenv("VF_KNOWN");
	if (count_only) {
		printf("%llu\n", (unsigned long long) vf_cases());
		return 0;
	}
	if (status) {
		int fd = open(status, O_RDWR | O_CREAT | O_TRUNC, 0644);
		if (fd < 0 || ftruncate(fd, sizeof(*st)) < 0) { perror(status); return 2; }
		st = mmap(0, sizeof(*st), PROT_READ | PROT_WRITE, MAP_SHARED, fd, 0);
		if (st == MAP_FAILED) { perror("mmap"); return 2; }
		close(fd);
	}
	memset(st, 0, sizeof(*st));
	st->magic = VF_MAGIC;
	st->size = sizeof(*st);
	if (fpname && !(fpfile = fopen(fpname, "ab"))) { perror(fpname); return 2; }
	if (vf_logging) setvbuf(stderr, 0, _IONBF, 0);

	uint64_t total = vf_cases();
	if (to > total) to = total;
	uint64_t nh = name_hash(vf_name);
	for (uint64_t idx = from; idx < to; idx += step) {
		vf_rng rng;
		st->cur_case = idx;
		st->in_case = 1;
		case_fp = 0;  /* the harness mixes the canonical case content in */
		case_nt = 0;
		vf_seed_rng(&rng, vf_seed ^ nh, idx);
		if (vf_logging) fprintf(stderr, "== %s case %llu seed %llu\n", vf_name,
		                        (unsigned long long) idx, (unsigned long long) vf_seed);
		vf_case(idx, &rng);
		st->in_case = 0;
		st->evaluations++;
		if (case_nt) {
			st->nontrivial++;
			if (fpfile) fwrite(&case_fp, sizeof(case_fp), 1, fpfile);
		}
	}
	if (fpfile) fclose(fpfile);
	st->done = 1;
	return 0;
}
