/* layout of the status file shared between a harness process and lib/run.py
 * (parsed there with struct: keep in sync with STATUS_FMT) */
#ifndef VF_STATUS_H
#define VF_STATUS_H
#include <stdint.h>

#define VF_MAGIC       0x56463031u
#define VF_MAXCOUNTERS 384
#define VF_MAXSAMPLES  4

struct vf_status {
	uint32_t magic, size;
	uint64_t cur_case;
	uint32_t in_case, done;
	uint64_t evaluations, nontrivial;
	char     at[64];
	uint32_t has_violation, inconclusive;
	char     vkey[256];
	char     vdetail[8192];
	char     imsg[1024];
	uint32_t ncounters, nsamples;
	struct { char name[56]; uint64_t val; uint64_t ismax; } c[VF_MAXCOUNTERS];
	char     samples[VF_MAXSAMPLES][2048];
};
#endif
