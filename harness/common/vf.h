/*
 * vf: minimal runtime shared by all property harnesses.
 *
 * A harness is a plain sequential program: the driver (lib/run.py) starts it
 * for a range of case indices, watches a mmap'ed status file for the case in
 * progress, and restarts it behind a case that died (sanitizer report, signal,
 * vf_fail).  A case is a pure function of (seed, index).
 */
#ifndef VF_H
#define VF_H

#include <stdint.h>
#include <stddef.h>
#include <stdio.h>
#include <string.h>

#ifdef __cplusplus
extern "C" {
#endif

typedef struct vf_rng { uint64_t s[4]; } vf_rng;

uint64_t vf_u64(vf_rng *r);
uint32_t vf_below(vf_rng *r, uint32_t n);      /* 0..n-1 (n > 0) */
int      vf_range(vf_rng *r, int lo, int hi);  /* lo..hi inclusive */
int      vf_chance(vf_rng *r, unsigned num, unsigned den);
void     vf_bytes(vf_rng *r, void *dst, size_t n);
double   vf_unit(vf_rng *r);                   /* [0,1) */
void     vf_seed_rng(vf_rng *r, uint64_t a, uint64_t b);

/* --- supplied by the harness ------------------------------------------- */
extern const char *vf_name;                 /* leg name, e.g. "c13_queue" */
uint64_t vf_cases(void);                    /* number of cases for vf_tier */
void     vf_case(uint64_t idx, vf_rng *r);  /* run case idx */

/* --- environment --------------------------------------------------------- */
extern int      vf_thorough;                /* tier */
extern int      vf_logging;                 /* --log given: vf_log prints */
extern uint64_t vf_seed;
int vf_known(const char *key);              /* key listed in VF_KNOWN env */

/* --- reporting ----------------------------------------------------------- */
void vf_at(const char *api);                /* API entry point being driven */
void vf_log(const char *fmt, ...) __attribute__((format(printf, 1, 2)));
void vf_count(const char *name, uint64_t add);
void vf_max(const char *name, uint64_t v);
void vf_fp(const void *p, size_t n);        /* mix into case fingerprint */
void vf_fp_u64(uint64_t v);
void vf_nontrivial(void);                   /* case satisfies the rule */
void vf_sample(const char *fmt, ...) __attribute__((format(printf, 1, 2)));
/* record violation of the current case and leave the process (exit 3) */
void vf_fail(const char *key, const char *fmt, ...)
	__attribute__((noreturn, format(printf, 2, 3)));
/* harness cannot continue for a reason that is not a violation (exit 4) */
void vf_inconclusive(const char *fmt, ...)
	__attribute__((noreturn, format(printf, 1, 2)));

#define VF_CHECK(cond, key, ...) do { if (!(cond)) vf_fail(key, __VA_ARGS__); } while (0)

/* hex dump (truncated) for messages, returns dst */
char *vf_hex(char *dst, size_t dstlen, const void *p, size_t n);

/* exact-size heap block: red zones at both ends under ASan;
 * n == 0 gives a 1-byte block whose byte is poisoned */
void *vf_xalloc(size_t n);
void  vf_xfree(void *p, size_t n);

/* leak check right now (LSan builds only), from a deep fresh frame;
 * returns non-zero when leaks were found */
int vf_leak_check(void);

#ifdef __cplusplus
}
#endif
#endif /* VF_H */
