/*
 * C20 (C++ leg; built with -fno-sanitize=vptr, see props/C20.py): layout
 * objects through the C++ interface.
 *
 *   object::set(name, text)         accepted: the other properties are unchanged and
 *                                   plain texts (string, numeral, colour form) read
 *                                   back; refused: nothing changed
 *   copies                          constructor from the base structure, clone(),
 *                                   set_property("" / NULL, object as convertable):
 *                                   equal properties, separate string allocations,
 *                                   changing the copy leaves the original alone,
 *                                   both are released (ASan / LSan)
 *   colour                          operator<<(ostream, color) then mpt_color_parse
 *                                   gives the colour back; the same for every
 *                                   accepted colour text
 */
#include <vector>
#include <string>
#include <sstream>
#include <cstring>
#include <cstdlib>
#include <cmath>
#include <cfloat>
#include <sys/uio.h>

#include "meta.h"
#include "object.h"
#include "values.h"
#include "layout.h"
#include "vf.h"

const char *vf_name = "c20_cxx";

using mpt::mpt_color_typeid;
using mpt::mpt_lattr_typeid;
using mpt::mpt_fpoint_typeid;
using mpt::mpt_color_parse;

/* objects built by the C part of the library have no C++ RTTI (same workaround as C18) */
extern "C" const char *__ubsan_default_options(void)
{
	return "suppressions=/verif/harness/c18_ubsan_supp.h";
}

/* ---------------------------------------------------------------- snapshot */
struct PV {
	std::string name;
	int type;
	bool isstr, hasstr;
	std::string str;
	const char *addr;
	std::vector<uint8_t> bytes;
	bool operator==(const PV &o) const
	{
		if (name != o.name || isstr != o.isstr) return false;
		if (isstr) return (hasstr ? str : std::string()) == (o.hasstr ? o.str : std::string());
		return type == o.type && bytes == o.bytes;
	}
	std::string show() const
	{
		char buf[160], hx[64];
		if (isstr) { snprintf(buf, sizeof(buf), "%s\"%.100s\"", hasstr ? "" : "(none)", str.c_str()); return buf; }
		if (type == 'd') { double d; memcpy(&d, bytes.data(), 8); snprintf(buf, sizeof(buf), "%.17g", d); return buf; }
		if (type == 'f') { float f; memcpy(&f, bytes.data(), 4); snprintf(buf, sizeof(buf), "%.9g", f); return buf; }
		snprintf(buf, sizeof(buf), "[%d] %s", type, vf_hex(hx, sizeof(hx), bytes.data(), bytes.size()));
		return buf;
	}
};
typedef std::vector<PV> Snap;

static int type_len(int type)
{
	switch (type) {
	case 'c': case 'b': case 'y': return 1;
	case 'n': case 'q': return 2;
	case 'i': case 'u': case 'f': return 4;
	case 'x': case 't': case 'd': return 8;
	}
	if (type == mpt_color_typeid() || type == mpt_lattr_typeid()) return 4;
	if (type == mpt_fpoint_typeid()) return 8;
	return -1;
}
static Snap snap(const mpt::object &o, const char *kind)
{
	Snap s;
	for (int i = 0; i < 16; i++) {
		mpt::property pr(i);
		int r = o.property(&pr);
		if (r == mpt::BadArgument) break;
		VF_CHECK(r >= 0, "cxx:get:listed-property-unreadable", "%s::property(index %d) returns %d", kind, i, r);
		PV v;
		v.name = pr.name ? pr.name : "";
		v.type = pr.val.type();
		v.isstr = v.hasstr = false; v.addr = 0;
		const void *addr = pr.val.data();
		VF_CHECK(pr.name && addr, "cxx:get:incomplete", "%s property %d has no name or no data", kind, i);
		if (v.type == 's') {
			const char *str = *static_cast<const char * const *>(addr);
			v.isstr = true; v.addr = str;
			if (str) { v.hasstr = true; v.str = str; }
		} else {
			int l = type_len(v.type);
			VF_CHECK(l > 0, "cxx:get:type", "%s property '%s' has type %d", kind, v.name.c_str(), v.type);
			v.bytes.assign(static_cast<const uint8_t *>(addr), static_cast<const uint8_t *>(addr) + l);
		}
		s.push_back(v);
	}
	vf_count("monitor:snapshots", 1);
	return s;
}
static int find(const Snap &s, const char *name)
{
	for (size_t i = 0; i < s.size(); i++) if (s[i].name == name) return (int) i;
	return -1;
}

/* ------------------------------------------------------------------- kinds */
struct Obj {
	virtual ~Obj() { }
	virtual mpt::object &obj() = 0;
	virtual mpt::convertable &conv() = 0;
	virtual Obj *from_base() = 0;   /* constructor from the base structure */
	virtual Obj *cloned() = 0;
	virtual Obj *fresh() = 0;
	virtual void assign_from(Obj *src) = 0;   /* operator= of the base structure */
	virtual void release() = 0;
	const char *kind;
};
template <class L, class B>
struct ObjT : public Obj {
	L *p;
	ObjT(L *l, const char *k) : p(l) { kind = k; }
	mpt::object &obj() override { return *p; }
	mpt::convertable &conv() override { return *static_cast<mpt::metatype *>(p); }
	Obj *from_base() override { vf_at("layout object(const base *)"); return new ObjT(new L(static_cast<const B *>(p)), kind); }
	Obj *cloned() override { vf_at("layout object::clone"); return new ObjT(p->clone(), kind); }
	Obj *fresh() override { return new ObjT(new L, kind); }
	void assign_from(Obj *src) override { vf_at("base structure operator="); *static_cast<B *>(p) = *static_cast<const B *>(static_cast<ObjT *>(src)->p); }
	void release() override { vf_at("layout object::unref"); p->unref(); p = 0; delete this; }
};
/* layout::graph is an item group, not a plain metatype */
template <>
mpt::convertable &ObjT<mpt::layout::graph, mpt::graph>::conv() { return *static_cast<mpt::item_group *>(p); }

enum { KAxis, KLine, KText, KWorld, KGraph, NKinds };
static Obj *make(int k)
{
	switch (k) {
	case KAxis: return new ObjT<mpt::layout::graph::axis, mpt::axis>(new mpt::layout::graph::axis, "layout::graph::axis");
	case KLine: return new ObjT<mpt::layout::line, mpt::line>(new mpt::layout::line, "layout::line");
	case KText: return new ObjT<mpt::layout::text, mpt::text>(new mpt::layout::text, "layout::text");
	case KWorld: return new ObjT<mpt::layout::graph::world, mpt::world>(new mpt::layout::graph::world, "layout::graph::world");
	default: return new ObjT<mpt::layout::graph, mpt::graph>(new mpt::layout::graph, "layout::graph");
	}
}
struct PN { const char *set, *get; };
static const PN n_axis[] = { { "title", "title" }, { "begin", "begin" }, { "end", "end" }, { "tlen", "tlen" }, { "exponent", "exponent" }, { "intervals", "intervals" }, { "subtick", "subtick" }, { "decimals", "decimals" }, { "lpos", "lpos" }, { "tpos", "tpos" }, { "exp", "exponent" }, { "dec", "decimals" }, { "intv", "intervals" }, { "int", "intervals" }, { "sub", "subtick" } };
static const PN n_line[] = { { "color", "color" }, { "x1", "x1" }, { "x2", "x2" }, { "y1", "y1" }, { "y2", "y2" }, { "width", "width" }, { "style", "style" }, { "symbol", "symbol" }, { "size", "size" } };
static const PN n_text[] = { { "color", "color" }, { "size", "size" }, { "align", "align" }, { "angle", "angle" }, { "value", "value" }, { "font", "font" } };
static const PN n_world[] = { { "color", "color" }, { "cycles", "cycles" }, { "width", "width" }, { "style", "style" }, { "symbol", "symbol" }, { "size", "size" }, { "alias", "alias" }, { "cyc", "cycles" }, { "colour", "color" }, { "sym", "symbol" } };
static const PN n_graph[] = { { "axes", "axes" }, { "worlds", "worlds" }, { "foreground", "foreground" }, { "background", "background" }, { "fg", "foreground" }, { "bg", "background" }, { "lpos", "lpos" }, { "pos", "pos" }, { "position", "pos" }, { "scale", "scale" }, { "clip", "clip" }, { "clipping", "clip" }, { "align", "align" }, { "alignment", "align" }, { "gridtype", "grid" } };
static const struct { const PN *n; int cnt; } names[NKinds] = {
	{ n_axis, sizeof(n_axis) / sizeof(PN) }, { n_line, sizeof(n_line) / sizeof(PN) }, { n_text, sizeof(n_text) / sizeof(PN) }, { n_world, sizeof(n_world) / sizeof(PN) }, { n_graph, sizeof(n_graph) / sizeof(PN) }
};

/* colour reference as in the C leg */
static bool ref_color(const char *t, uint8_t c[4])
{
	static const struct { const char *n; uint8_t c[4]; } col[] = {
		{ "black", { 255, 0, 0, 0 } }, { "red", { 255, 255, 0, 0 } }, { "green", { 255, 0, 255, 0 } }, { "blue", { 255, 0, 0, 255 } },
		{ "cyan", { 255, 0, 255, 255 } }, { "magenta", { 255, 255, 0, 255 } }, { "yellow", { 255, 255, 255, 0 } }, { "white", { 255, 255, 255, 255 } }
	};
	size_t l = strlen(t);
	for (size_t i = 0; i < 8; i++) if (!strcasecmp(t, col[i].n)) { memcpy(c, col[i].c, 4); return true; }
	if (t[0] != '#' || (l != 7 && l != 9)) return false;
	for (size_t i = 1; i < l; i++) if (!isxdigit((unsigned char) t[i])) return false;
	unsigned v[4] = { 0, 0, 0, 255 };
	sscanf(t + 1, "%2x%2x%2x%2x", &v[0], &v[1], &v[2], &v[3]);
	c[0] = (uint8_t) v[3]; c[1] = (uint8_t) v[0]; c[2] = (uint8_t) v[1]; c[3] = (uint8_t) v[2];
	return true;
}
static const char *coltexts[] = { "black", "red", "green", "blue", "cyan", "magenta", "yellow", "white", "RED", "#000000", "#ff8000", "#FF8000", "#01020304", "#ffffff00", "#fff", "#gg0000", "", "reddish", "#", "#1g0000", "purple" };
static const char *numtexts[] = { "0", "1", "5", "7", "10", "255", "256", "300", "-1", "70000", "0.5", "0.25", "1.5", "2.5e3", "abc", "", "x", "12abc" };
static const char *strtexts[] = { "hello", "two words", "", "a", "title: x", "a considerably longer text that does not fit any small buffer, repeated: a considerably longer text that does not fit any small buffer" };

static void same(const Snap &a, const Snap &b, int skip, const char *key, const std::string &ctx)
{
	VF_CHECK(a.size() == b.size(), key, "%s: %zu properties before, %zu after", ctx.c_str(), a.size(), b.size());
	for (size_t i = 0; i < a.size(); i++) {
		if ((int) i == skip) continue;
		if (!(a[i] == b[i])) vf_fail(key, "%s: property '%s' changed from %s to %s", ctx.c_str(), a[i].name.c_str(), a[i].show().c_str(), b[i].show().c_str());
		vf_count("monitor:properties-compared", 1);
	}
}

/* aliases the setters accept but the getters do not resolve (finding in notes/C20.md) */
static bool readable_spelling(const char *name)
{
	static const char *no[] = { "labelpos", "label position", "titlepos", "title position", "fg", "bg", "type" };
	for (auto n : no) if (!strcasecmp(n, name)) return false;
	return true;
}
/* property(name) has to answer the listed property `want` */
static void check_read(Obj *o, const char *name, const PV &want, const std::string &ctx)
{
	mpt::property pr(name);
	vf_at("object::property");
	int ret = o->obj().property(&pr);
	VF_CHECK(ret >= 0, "cxx:get:accepted-name-unreadable", "%s: property(\"%s\") returns %d, the setter accepts this spelling for '%s'", ctx.c_str(), name, ret, want.name.c_str());
	VF_CHECK(pr.name && want.name == pr.name, "cxx:get:wrong-property", "%s: property(\"%s\") answers '%s', the setter changes '%s'", ctx.c_str(), name, pr.name ? pr.name : "(null)", want.name.c_str());
	const void *addr = pr.val.data();
	if (want.isstr) {
		const char *str = (pr.val.type() == 's' && addr) ? *static_cast<const char * const *>(addr) : 0;
		VF_CHECK(pr.val.type() == 's' && std::string(str ? str : "") == (want.hasstr ? want.str : std::string()), "cxx:get:wrong-property", "%s: property(\"%s\") reads another string than the listing by index (%s)", ctx.c_str(), name, want.show().c_str());
	} else {
		VF_CHECK((int) pr.val.type() == want.type && addr && !memcmp(addr, want.bytes.data(), want.bytes.size()), "cxx:get:wrong-property", "%s: property(\"%s\") reads another value than the listing by index (%s)", ctx.c_str(), name, want.show().c_str());
	}
	vf_count("monitor:read-by-spelling", 1);
}
static void set_text(Obj *o, int k, vf_rng *r, std::string &desc)
{
	const PN &pn = names[k].n[vf_below(r, names[k].cnt)];
	Snap before = snap(o->obj(), o->kind);
	int t = find(before, pn.get);
	VF_CHECK(t >= 0, "cxx:get:name-missing", "%s: property '%s' is not listed", o->kind, pn.get);
	const char *txt;
	if (before[t].isstr && strcmp(pn.get, "intervals")) txt = strtexts[vf_below(r, 6)];
	else if (before[t].type == mpt_color_typeid()) txt = coltexts[vf_below(r, sizeof(coltexts) / sizeof(*coltexts))];
	else txt = numtexts[vf_below(r, sizeof(numtexts) / sizeof(*numtexts))];
	std::string ctx = std::string(o->kind) + "::set(\"" + pn.set + "\", \"" + std::string(txt).substr(0, 40) + "\")";
	vf_log("%s", ctx.c_str());
	vf_fp(pn.set, strlen(pn.set)); vf_fp(txt, strlen(txt));
	/* obj[name] = text on a twin object has to do what set(name, text) does */
	Obj *twin = 0;
	/* graph 'grid' cannot be set under its listed name (finding in notes/C20.md), which is what obj[name] = uses */
	if (readable_spelling(pn.set) && strcmp(pn.get, "grid")) twin = o->cloned();
	vf_at("object::set");
	bool ok = o->obj().set(pn.set, txt, 0);
	vf_count("object::set", 1);
	Snap after = snap(o->obj(), o->kind);
	if (twin) {
		vf_at("object::attribute::operator=");
		twin->obj()[pn.set] = txt;
		vf_count("object::operator[]=", 1);
		same(after, snap(twin->obj(), twin->kind), -1, "cxx:attribute:assign-differs-from-set", ctx + " vs obj[name] = text");
		twin->release();
	}
	if (readable_spelling(pn.set)) {
		/* read through the spelling used and through the listed name */
		check_read(o, pn.set, after[t], ctx);
		check_read(o, pn.get, after[t], ctx);
	}
	desc += std::string(" ") + pn.set + "=\"" + std::string(txt).substr(0, 16) + (ok ? "\"" : "\"!");
	if (!ok) {
		same(before, after, -1, "cxx:set:refused-modified", ctx);
		vf_count("set:refused", 1);
		return;
	}
	vf_count("set:accepted", 1);
	same(before, after, t, "cxx:set:other-property-changed", ctx);
	const PV &a = after[t];
	if (!*txt) return;
	if (a.isstr && before[t].isstr && strcmp(pn.get, "intervals") && strcmp(pn.get, "clip")) {
		VF_CHECK(a.hasstr && a.str == txt, "cxx:set:readback", "%s: reads %s", ctx.c_str(), a.show().c_str());
		VF_CHECK(a.addr != txt, "cxx:set:string-shared", "%s: object keeps the caller's pointer", ctx.c_str());
		vf_count("monitor:readbacks-compared", 1);
	}
	else if (!a.isstr && (a.type == 'd' || a.type == 'f')) {
		char *end;
		double v = strtod(txt, &end);
		if (end != txt && !*end && std::isfinite(v)) {
			double g;
			if (a.type == 'd') memcpy(&g, a.bytes.data(), 8); else { float f; memcpy(&f, a.bytes.data(), 4); g = f; v = (float) v; }
			VF_CHECK(g == v, "cxx:set:readback", "%s: reads %s", ctx.c_str(), a.show().c_str());
			vf_count("monitor:readbacks-compared", 1);
		}
	}
	else if (!a.isstr && a.type == mpt_color_typeid()) {
		uint8_t c[4];
		if (ref_color(txt, c)) {
			VF_CHECK(!memcmp(a.bytes.data(), c, 4), "cxx:set:readback", "%s: reads %s", ctx.c_str(), a.show().c_str());
			vf_count("monitor:readbacks-compared", 1);
		}
	}
}
static void copy_check(Obj *o, int k, vf_rng *r, std::string &desc)
{
	static const char *how_name[] = { "constructor(base *)", "clone()", "set_property(\"\", object)", "set_property(NULL, object)" };
	int how = (int) vf_below(r, 4);
	Snap src = snap(o->obj(), o->kind);
	Obj *c;
	std::string ctx = std::string(o->kind) + " copy by " + how_name[how];
	vf_log("%s", ctx.c_str());
	vf_fp_u64(0xc0 + how);
	desc += std::string(" copy:") + how_name[how];
	if (how == 0) c = o->from_base();
	else if (how == 1) c = o->cloned();
	else {
		c = o->fresh();
		/* give the target some content of its own first */
		std::string tmp;
		set_text(c, k, r, tmp);
		vf_at("object::set_property");
		int ret = c->obj().set_property(how == 2 ? "" : 0, &o->conv());
		vf_count("object::set_property(object)", 1);
		if (ret < 0) {
			/* refused assignment (layout::line with "" asks for another type): nothing is claimed but integrity */
			vf_count("copy:refused", 1);
			same(src, snap(o->obj(), o->kind), -1, "cxx:copy:source-changed", ctx);
			c->release();
			return;
		}
	}
	vf_count("copy:accepted", 1);
	Snap cs = snap(c->obj(), c->kind), now = snap(o->obj(), o->kind);
	same(src, now, -1, "cxx:copy:source-changed", ctx);
	same(src, cs, -1, "cxx:copy:unequal", ctx);
	for (size_t i = 0; i < cs.size(); i++) {
		if (cs[i].isstr && cs[i].addr && cs[i].name != "clip" && cs[i].name != "intervals") VF_CHECK(cs[i].addr != now[i].addr, "cxx:copy:string-shared", "%s: '%s' of copy and original are one allocation", ctx.c_str(), cs[i].name.c_str());
	}
	vf_count("monitor:copies-compared", 1);
	/* the copy lives on its own */
	std::string tmp;
	for (int i = 0; i < 3; i++) set_text(c, k, r, tmp);
	same(src, snap(o->obj(), o->kind), -1, "cxx:copy:original-follows-copy", ctx);
	c->release();
	same(src, snap(o->obj(), o->kind), -1, "cxx:copy:original-follows-copy", ctx);
}

/* "" assignment from a source that is no sibling: refused and nothing changes */
static void foreign_check(Obj *o, int k, vf_rng *r, std::string &desc)
{
	Snap before = snap(o->obj(), o->kind);
	int how = (int) vf_below(r, 3), ret;
	std::string ctx;
	if (how == 0) {
		int ok = (int) ((k + 1 + vf_below(r, NKinds - 1)) % NKinds);
		Obj *other = make(ok);
		std::string tmp;
		set_text(other, ok, r, tmp);
		ctx = std::string(o->kind) + "::set_property(\"\", " + other->kind + ")";
		vf_log("%s", ctx.c_str());
		vf_at("object::set_property");
		ret = o->obj().set_property("", &other->conv());
		other->release();
	} else {
		static const char *texts[] = { "some text", "1", "red", "0.5 0.5" };
		const char *txt = texts[vf_below(r, 4)];
		ctx = std::string(o->kind) + "::set(\"\", \"" + txt + "\")";
		vf_log("%s", ctx.c_str());
		vf_at("object::set");
		ret = o->obj().set("", txt, 0) ? 0 : -1;
	}
	vf_count("monitor:foreign-source-assignments", 1);
	desc += " foreign\"\"";
	if (ret < 0) { same(before, snap(o->obj(), o->kind), -1, "cxx:copy:refused-modified", ctx); vf_count("foreign:refused", 1); }
	else vf_count("foreign:accepted", 1);
}

/* reset through the identifier entry point: mpt_object_set_property(obj, mask, id, no value) */
static void entry_reset(Obj *o, int k, vf_rng *r, std::string &desc)
{
	const PN &pn = names[k].n[vf_below(r, names[k].cnt)];
	Snap before = snap(o->obj(), o->kind);
	int t = find(before, pn.get);
	VF_CHECK(t >= 0, "cxx:get:name-missing", "%s: property '%s' is not listed", o->kind, pn.get);
	mpt::identifier id;
	if (!id.set_name(pn.set)) vf_inconclusive("identifier::set_name failed");
	std::string ctx = std::string("mpt_object_set_property(") + o->kind + ", \"" + pn.set + "\", no value)";
	vf_log("%s", ctx.c_str());
	vf_fp(pn.set, strlen(pn.set)); vf_fp_u64(0xe9);
	vf_at("mpt_object_set_property");
	int ret = mpt::mpt_object_set_property(&o->obj(), mpt::TraverseAll | mpt::TraverseChange | mpt::TraverseDefault, &id, 0);
	vf_count("mpt_object_set_property", 1);
	VF_CHECK(ret == 0, "cxx:entry:reset-refused", "%s returned %d", ctx.c_str(), ret);
	Snap after = snap(o->obj(), o->kind);
	same(before, after, t, "cxx:set:other-property-changed", ctx);
	Obj *f = o->fresh();
	Snap def = snap(f->obj(), f->kind);
	f->release();
	if (!(after[t] == def[t])) vf_fail("cxx:entry:reset-not-default", "%s: '%s' is %s, a fresh object has %s", ctx.c_str(), pn.get, after[t].show().c_str(), def[t].show().c_str());
	vf_count("monitor:entry-resets-compared", 1);
	desc += std::string(" reset-entry:") + pn.set;
}

/* "set A; set B" equals "set B" on a twin that did not get A */
static void set_twice(Obj *o, int k, vf_rng *r, std::string &desc)
{
	static const char *cliptexts[] = { "x", "y", "z", "xy", "xz", "yz", "xyz", "" };
	const PN &pn = names[k].n[vf_below(r, names[k].cnt)];
	Snap before = snap(o->obj(), o->kind);
	int t = find(before, pn.get);
	VF_CHECK(t >= 0, "cxx:get:name-missing", "%s: property '%s' is not listed", o->kind, pn.get);
	const char *v[2];
	for (int i = 0; i < 2; i++) {
		if (!strcmp(pn.get, "clip")) v[i] = cliptexts[vf_below(r, 8)];
		else if (!strcmp(pn.get, "intervals")) v[i] = vf_chance(r, 1, 3) ? "log" : numtexts[1 + vf_below(r, 5)];
		else if (before[t].isstr) v[i] = strtexts[vf_below(r, 6)];
		else if (before[t].type == mpt_color_typeid()) v[i] = coltexts[vf_below(r, 14)];
		else v[i] = numtexts[vf_below(r, sizeof(numtexts) / sizeof(*numtexts))];
	}
	std::string ctx = std::string(o->kind) + " \"" + pn.set + "\": \"" + std::string(v[0]).substr(0, 30) + "\" then \"" + std::string(v[1]).substr(0, 30) + "\"";
	vf_log("%s", ctx.c_str());
	vf_fp(pn.set, strlen(pn.set)); vf_fp(v[0], strlen(v[0])); vf_fp(v[1], strlen(v[1]));
	Obj *tw = o->cloned();
	vf_at("object::set");
	o->obj().set(pn.set, v[0], 0);
	bool rb = o->obj().set(pn.set, v[1], 0), rt = tw->obj().set(pn.set, v[1], 0);
	vf_count("object::set", 3);
	VF_CHECK(rb == rt, "cxx:set:depends-on-previous-value", "%s: second set %s, the same set on the twin %s", ctx.c_str(), rb ? "accepted" : "refused", rt ? "accepted" : "refused");
	if (rb) same(snap(tw->obj(), tw->kind), snap(o->obj(), o->kind), -1, "cxx:set:depends-on-previous-value", ctx);
	tw->release();
	vf_count("monitor:set-twice", 1);
	desc += std::string(" twice:") + pn.set;
}
static void case_objects(vf_rng *r)
{
	int k = (int) vf_below(r, NKinds), steps = vf_range(r, 4, 20);
	Obj *o = make(k);
	std::string desc = std::string(o->kind) + ":";
	vf_fp_u64(k);
	for (int s = 0; s < steps; s++) {
		if (vf_chance(r, 1, 8)) foreign_check(o, k, r, desc);
		else if (vf_chance(r, 1, 6)) entry_reset(o, k, r, desc);
		else if (vf_chance(r, 1, 5)) set_twice(o, k, r, desc);
		else if (vf_chance(r, 1, 4)) copy_check(o, k, r, desc);
		else set_text(o, k, r, desc);
	}
	o->release();
	vf_nontrivial();
	vf_sample("%s", desc.substr(0, 900).c_str());
}

/* ------------------------------------------------------ assignment grid */
/*
 * Source and target of a kind in every combination of set / unset string
 * properties (plus differing scalar content), assignment by every route:
 * the target has to equal the source property by property afterwards, own
 * its strings, and the source is unchanged.
 */
static const char *string_props(int k, int i)
{
	static const char *sp[NKinds][2] = { { "title", 0 }, { 0, 0 }, { "value", "font" }, { "alias", 0 }, { "axes", "worlds" } };
	return sp[k][i];
}
static const char *other_props(int k, int i)
{
	static const char *op[NKinds][2] = { { "begin", "exponent" }, { "x1", "width" }, { "size", "angle" }, { "cycles", "width" }, { "lpos", "foreground" } };
	return op[k][i];
}
static void populate(Obj *o, int k, unsigned mask, int variant)
{
	static const char *texts[2][2] = { { "first text", "second" }, { "another, considerably longer text that needs its own allocation", "x" } };
	static const char *nums[2][2] = { { "2", "3" }, { "4", "1" } };
	for (int i = 0; i < 2; i++) {
		const char *n = string_props(k, i);
		if (!n) continue;
		if (mask & (1u << i)) VF_CHECK(o->obj().set(n, texts[variant][i], 0), "cxx:set:refused", "%s::set(\"%s\", text) refused", o->kind, n);
		else o->obj().set_property(n, 0);
	}
	for (int i = 0; i < 2; i++) {
		const char *n = other_props(k, i);
		if (k == KGraph && i == 1) o->obj().set(n, variant ? "red" : "blue", 0);
		else if (k == KGraph) o->obj().set(n, variant ? "r" : "l", 0);
		else o->obj().set(n, nums[variant][i], 0);
	}
}
#define NROUTES 7
static uint64_t assign_count() { return (uint64_t) NKinds * NROUTES * 16; }
static void case_assign(uint64_t idx)
{
	static const char *route_name[NROUTES] = { "operator=", "constructor(base *)", "clone()", "set_property(\"\", object)", "set_property(NULL, object)", "operator= (self)", "object::set(const object &)" };
	unsigned tmask = idx % 4, smask = (idx / 4) % 4;
	int route = (int) ((idx / 16) % NROUTES), k = (int) (idx / 16 / NROUTES);
	Obj *src = make(k), *dst = 0;
	char what[200];
	populate(src, k, smask, 0);
	snprintf(what, sizeof(what), "%s: %s, source strings %u%u, target strings %u%u", src->kind, route_name[route], smask & 1, (smask >> 1) & 1, tmask & 1, (tmask >> 1) & 1);
	std::string ctx = what;
	vf_log("%s", what);
	vf_fp_u64(0xa551); vf_fp_u64(idx);
	vf_nontrivial();
	Snap s0 = snap(src->obj(), src->kind);
	bool done = true;
	switch (route) {
	case 0:
		dst = make(k); populate(dst, k, tmask, 1);
		dst->assign_from(src);
		break;
	case 1: dst = src->from_base(); break;
	case 2: dst = src->cloned(); break;
	case 3: case 4: {
		dst = make(k); populate(dst, k, tmask, 1);
		vf_at("object::set_property");
		int ret = dst->obj().set_property(route == 3 ? "" : 0, &src->conv());
		if (ret < 0) { done = false; vf_count("assign:refused", 1); }   /* layout::line with "": see notes */
		break; }
	case 5:
		dst = make(k); populate(dst, k, smask, 0);
		dst->assign_from(dst);
		break;
	default:
		/* property-wise transfer on a target that was configured before */
		dst = make(k); populate(dst, k, tmask, 1);
		vf_at("object::set(const object &)");
		dst->obj().set(src->obj(), 0);
		vf_count("object::set(object)", 1);
		break;
	}
	vf_count("assign:routes", 1);
	if (done && route == 5) {
		/* a = a keeps the object */
		Snap d = snap(dst->obj(), dst->kind);
		bool eq = d.size() == s0.size();
		for (size_t i = 0; eq && i < d.size(); i++) eq = d[i] == s0[i];
		if (!eq && !vf_known("cxx:assign:self-assignment")) same(s0, d, -1, "cxx:assign:self-assignment", ctx);
		vf_count("monitor:assignments-compared", 1);
	}
	else if (done && route == 6) {
		/* property-wise transfer: own key */
		Snap d = snap(dst->obj(), dst->kind), s1 = snap(src->obj(), src->kind);
		same(s0, s1, -1, "cxx:assign:source-changed", ctx);
		bool eq = d.size() == s0.size();
		for (size_t i = 0; eq && i < d.size(); i++) eq = d[i] == s0[i];
		if (!eq && !vf_known("cxx:assign:object-set-unequal")) same(s0, d, -1, "cxx:assign:object-set-unequal", ctx);
		vf_count("monitor:assignments-compared", 1);
	}
	else if (done) {
		Snap d = snap(dst->obj(), dst->kind), s1 = snap(src->obj(), src->kind);
		same(s0, s1, -1, "cxx:assign:source-changed", ctx);
		same(s0, d, -1, "cxx:assign:unequal", ctx);
		if (dst != src && route != 5) for (size_t i = 0; i < d.size(); i++) {
			if (d[i].isstr && d[i].addr && d[i].name != "clip" && d[i].name != "intervals") VF_CHECK(d[i].addr != s1[i].addr, "cxx:assign:string-shared", "%s: '%s' of target and source are one allocation", what, d[i].name.c_str());
		}
		vf_count("monitor:assignments-compared", 1);
		/* independent afterwards */
		populate(dst, k, ~smask & 3, 1);
		same(s0, snap(src->obj(), src->kind), -1, "cxx:assign:source-follows-target", ctx);
	}
	dst->release();
	same(s0, snap(src->obj(), src->kind), -1, "cxx:assign:source-follows-target", ctx);
	src->release();
	vf_sample("%s", what);
}

/* ------------------------------------------- two-coordinate properties */
/* graph pos / position, text pos: [0,1] per coordinate; graph scale: [0,FLT_MAX] (ranges written in the setters) */
static const struct { int k; const char *set, *get; float min, max; } fprops[] = {
	{ KGraph, "pos", "pos", 0, 1 }, { KGraph, "position", "pos", 0, 1 }, { KGraph, "scale", "scale", 0, FLT_MAX }, { KText, "pos", "pos", 0, 1 }
};
#define NFVAL 7
static float fp_value(int p, int i)
{
	static const float unit[NFVAL] = { -0.5f, -1e-6f, 0, 0.5f, 1, 1.0000001f, 1.5f };
	static const float scale[NFVAL] = { -1, -1e-30f, 0, 2, 1e30f, FLT_MAX, 0.25f };
	return fprops[p].max > 1 ? scale[i] : unit[i];
}
static uint64_t fpoint_count() { return 4 * NFVAL * NFVAL; }
static void case_fpoint(uint64_t idx)
{
	int yi = (int) (idx % NFVAL), xi = (int) (idx / NFVAL % NFVAL), p = (int) (idx / NFVAL / NFVAL);
	float x = fp_value(p, xi), y = fp_value(p, yi);
	bool expect_ok = x >= fprops[p].min && x <= fprops[p].max && y >= fprops[p].min && y <= fprops[p].max;
	Obj *o = make(fprops[p].k);
	char txt[80], what[200];
	o->obj().set("lpos", "r", 0);
	Snap before = snap(o->obj(), o->kind);
	int t = find(before, fprops[p].get);
	VF_CHECK(t >= 0, "cxx:get:name-missing", "%s: property '%s' is not listed", o->kind, fprops[p].get);
	snprintf(txt, sizeof(txt), "%.9g %.9g", x, y);
	snprintf(what, sizeof(what), "%s::set(\"%s\", \"%s\")", o->kind, fprops[p].set, txt);
	std::string ctx = what;
	vf_log("%s", what);
	vf_fp_u64(0xf9); vf_fp_u64(idx);
	vf_nontrivial();
	vf_at("object::set");
	bool ok = o->obj().set(fprops[p].set, txt, 0);
	vf_count("object::set", 1);
	vf_count("monitor:fpoint-grid", 1);
	Snap after = snap(o->obj(), o->kind);
	if (!ok) {
		VF_CHECK(!expect_ok, "cxx:set:refused-in-range-point", "%s refused, both coordinates are inside [%.9g,%.9g]", what, fprops[p].min, fprops[p].max);
		same(before, after, -1, "cxx:set:refused-modified", ctx);
	} else {
		float got[2];
		memcpy(got, after[t].bytes.data(), 8);
		if (!expect_ok) vf_fail("cxx:set:accepted-out-of-range", "%s accepted although a coordinate is outside [%.9g,%.9g]; '%s' reads (%.9g, %.9g)", what, fprops[p].min, fprops[p].max, fprops[p].get, got[0], got[1]);
		VF_CHECK(got[0] == x && got[1] == y, "cxx:set:readback", "%s: reads (%.9g, %.9g)", what, got[0], got[1]);
		same(before, after, t, "cxx:set:other-property-changed", ctx);
	}
	o->release();
	vf_sample("%s -> %s", what, ok ? "accepted" : "refused");
}
/* colour: print -> parse */
static void case_color(uint64_t idx, vf_rng *r)
{
	mpt::color c;
	std::string origin;
	if (idx < sizeof(coltexts) / sizeof(*coltexts)) {
		origin = coltexts[idx];
		mpt::color before = c;
		vf_at("mpt_color_parse");
		if (mpt_color_parse(&c, origin.c_str()) < 0) {
			VF_CHECK(!memcmp(&c, &before, sizeof(c)), "cxx:color:refused-modified", "mpt_color_parse(\"%s\") refused but changed the colour", origin.c_str());
			vf_count("color:refused", 1);
			return;
		}
	} else {
		vf_bytes(r, &c, sizeof(c));
		if (vf_chance(r, 1, 3)) c.alpha = 255;
		if (vf_chance(r, 1, 20)) c.alpha = 0;
		origin = "random";
	}
	vf_fp(&c, sizeof(c));
	vf_nontrivial();
	std::ostringstream os;
	vf_at("operator<<(ostream, color)");
	os << c;
	std::string txt = os.str();
	vf_log("color a=%u r=%u g=%u b=%u prints as %s", c.alpha, c.red, c.green, c.blue, txt.c_str());
	mpt::color back(1, 2, 3, 4);
	vf_at("mpt_color_parse");
	int ret = mpt_color_parse(&back, txt.c_str());
	vf_count("color:print-parse", 1);
	VF_CHECK(ret >= 0, "cxx:color:printed-text-refused", "colour a=%u r=%u g=%u b=%u (%s) prints as \"%s\", which mpt_color_parse refuses (%d)", c.alpha, c.red, c.green, c.blue, origin.c_str(), txt.c_str(), ret);
	VF_CHECK(back.alpha == c.alpha && back.red == c.red && back.green == c.green && back.blue == c.blue, "cxx:color:print-parse", "colour a=%u r=%u g=%u b=%u (%s) prints as \"%s\" and parses as a=%u r=%u g=%u b=%u", c.alpha, c.red, c.green, c.blue, origin.c_str(), txt.c_str(), back.alpha, back.red, back.green, back.blue);
	vf_sample("colour a=%u r=%u g=%u b=%u (%s) -> \"%s\" -> same", c.alpha, c.red, c.green, c.blue, origin.c_str(), txt.c_str());
}

static uint64_t n_obj() { return vf_thorough ? 200000 : 10000; }
static uint64_t n_col() { return vf_thorough ? 500000 : 20000; }
extern "C" uint64_t vf_cases(void) { return n_obj() + n_col() + assign_count() + fpoint_count(); }
extern "C" void vf_case(uint64_t idx, vf_rng *r)
{
	if (idx < n_obj()) { case_objects(r); return; }
	idx -= n_obj();
	if (idx < n_col()) { case_color(idx, r); return; }
	idx -= n_col();
	if (idx < assign_count()) { case_assign(idx); return; }
	case_fpoint(idx - assign_count());
}
