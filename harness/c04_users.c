/*
 * C04 (third leg): library functions that grow typed arrays on behalf of their callers
 * (mpt_values_prepare for arrays of double, mpt_valfmt_add for value format arrays).
 * They sit on top of the buffer detach step, so the same rule applies: what another
 * handle reads never changes, the target reads what a vector would hold.
 */
#include <stdio.h>
#include <stdlib.h>
#include <string.h>
#include <errno.h>
#include <sys/uio.h>

#include "types.h"
#include "array.h"
#include "convert.h"
#include "values.h"
#include "vf.h"
#include "c_stage.h"

const char *vf_name = "c04_users";

#define NH 3
#define MAXE 4096
typedef struct { double d[MAXE]; size_t n; } dshadow;
typedef struct { MPT_STRUCT(value_format) f[MAXE]; size_t n; } fshadow;

static MPT_STRUCT(array) arr[NH];
static dshadow ds[NH];
static fshadow fs[NH];
static double next_val = 1.0;

static int h_flags(int i) { return arr[i]._buf ? (int) arr[i]._buf->_vptr->get_flags(arr[i]._buf) : 0; }
static void drop(int i)
{
	if (arr[i]._buf) { arr[i]._buf->_vptr->unref(arr[i]._buf); arr[i]._buf = 0; }
	ds[i].n = 0; fs[i].n = 0;
}
static const char *key(const char *fn, const char *what)
{
	static char kb[96];
	snprintf(kb, sizeof(kb), "model:%s:%s", fn, what);
	return kb;
}
static void check_doubles(const char *fn, int h, const char *ctx)
{
	for (int i = 0; i < NH; i++) {
		size_t u = arr[i]._buf ? arr[i]._buf->_used : 0;
		const double *p = arr[i]._buf ? (const double *) (arr[i]._buf + 1) : 0;
		if (arr[i]._buf) VF_CHECK(u <= arr[i]._buf->_size, key(fn, "used-exceeds-size"), "%s: handle %d used %zu size %zu", ctx, i, u, arr[i]._buf->_size);
		VF_CHECK(u == ds[i].n * sizeof(double), key(fn, i == h ? "target-length" : "other-handle-length"),
		         "%s: handle %d has %zu bytes, model %zu values", ctx, i, u, ds[i].n);
		for (size_t j = 0; j < ds[i].n; j++)
			VF_CHECK(!memcmp(&p[j], &ds[i].d[j], sizeof(double)), key(fn, i == h ? "target-content" : "other-handle-content"),
			         "%s: handle %d value %zu is %g, model %g", ctx, i, j, p[j], ds[i].d[j]);
	}
	vf_count("monitor:all-handle-readbacks", 1);
}
static void check_formats(const char *fn, int h, const char *ctx)
{
	for (int i = 0; i < NH; i++) {
		size_t u = arr[i]._buf ? arr[i]._buf->_used : 0;
		const MPT_STRUCT(value_format) *p = arr[i]._buf ? (const void *) (arr[i]._buf + 1) : 0;
		if (arr[i]._buf) VF_CHECK(u <= arr[i]._buf->_size, key(fn, "used-exceeds-size"), "%s: handle %d used %zu size %zu", ctx, i, u, arr[i]._buf->_size);
		VF_CHECK(u == fs[i].n * sizeof(*p), key(fn, i == h ? "target-length" : "other-handle-length"),
		         "%s: handle %d has %zu bytes, model %zu formats", ctx, i, u, fs[i].n);
		for (size_t j = 0; j < fs[i].n; j++)
			VF_CHECK(p[j].flags == fs[i].f[j].flags && p[j].width == fs[i].f[j].width && p[j].dec == fs[i].f[j].dec,
			         key(fn, i == h ? "target-content" : "other-handle-content"), "%s: handle %d format %zu differs from the model", ctx, i, j);
	}
	vf_count("monitor:all-handle-readbacks", 1);
}

static void case_values(vf_rng *r)
{
	const MPT_STRUCT(type_traits) *dt = mpt_type_traits('d');
	int nops = vf_range(r, 8, 50), shared_writes = 0;
	char ctx[200], desc[1500];
	size_t dl = 0;
	desc[0] = 0;
	vf_fp_u64(0xd0b1e);
	for (int i = 0; i < nops; i++) {
		int op = (int) vf_below(r, 8), h = (int) vf_below(r, NH), g = (int) vf_below(r, NH);
		size_t n = ds[h].n;
		int shared = (h_flags(h) & MPT_ENUM(BufferShared)) != 0;
		long len;
		switch (op) {
		case 0: case 1: case 2: {   /* append zeroed values, caller fills them */
			len = vf_chance(r, 1, 4) ? (long) vf_below(r, 200) : (long) vf_below(r, 12);
			if (n + len > MAXE - 8) len = 0;
			snprintf(ctx, sizeof(ctx), "values_prepare(h=%d,len=%ld) count=%zu size=%zu flags=%x", h, len, n, arr[h]._buf ? arr[h]._buf->_size : 0, h_flags(h));
			vf_log("%s", ctx);
			vf_at("mpt_values_prepare"); vf_count("values_prepare:append", 1);
			if (shared) { vf_count("state:shared", 1); shared_writes++; }
			if (h_flags(h) & MPT_ENUM(BufferImmutable)) vf_count("state:immutable", 1);
			if (arr[h]._buf && (n + len) * sizeof(double) <= arr[h]._buf->_size && shared) vf_count("state:shared-with-spare-capacity", 1);
			double *p = mpt_values_prepare(&arr[h], len);
			VF_CHECK(p != 0, key("values_prepare", "refused"), "%s: NULL (errno %d)", ctx, errno);
			VF_CHECK(p == ((double *) (arr[h]._buf + 1)) + n, key("values_prepare", "return-address"), "%s: returned address is not the new part", ctx);
			for (long j = 0; j < len; j++) {
				VF_CHECK(p[j] == 0.0, key("values_prepare", "new-values-not-zero"), "%s: new value %ld is %g", ctx, j, p[j]);
				p[j] = ds[h].d[n + j] = next_val; next_val += 0.5;
			}
			ds[h].n = n + len;
			break; }
		case 3: {   /* repeat the last values */
			long want = (long) vf_below(r, (uint32_t) n + 4);
			if (vf_chance(r, 1, 3) && n) want = 1 + (long) vf_below(r, n < 3 ? (uint32_t) n : 3);
			if (n + want > MAXE - 8) want = 0;
			len = -want;
			snprintf(ctx, sizeof(ctx), "values_prepare(h=%d,len=%ld) count=%zu size=%zu flags=%x", h, len, n, arr[h]._buf ? arr[h]._buf->_size : 0, h_flags(h));
			vf_log("%s", ctx);
			vf_at("mpt_values_prepare"); vf_count("values_prepare:repeat", 1);
			if (shared) { vf_count("state:shared", 1); shared_writes++; }
			if ((size_t) want > n) vf_count("state:repeat-more-than-stored", 1);
			double *p = mpt_values_prepare(&arr[h], len);
			if ((size_t) want > n || (!arr[h]._buf && want)) {
				/* more values requested than exist: nothing to copy from */
				VF_CHECK(!p, key("values_prepare", "accepted-outside"), "%s: repeating %ld of %zu values accepted", ctx, want, n);
				break;
			}
			if (!want && !p) break;   /* nothing to do: either answer is fine */
			VF_CHECK(p != 0, key("values_prepare", "refused"), "%s: NULL (errno %d)", ctx, errno);
			for (long j = 0; j < want; j++) ds[h].d[n + j] = ds[h].d[n - want + j];
			ds[h].n = n + want;
			break; }
		case 4:
			snprintf(ctx, sizeof(ctx), "array_clone(h=%d,g=%d)", h, g);
			vf_log("%s", ctx);
			vf_at("mpt_array_clone"); vf_count("array_clone", 1);
			if (mpt_array_clone(&arr[h], &arr[g]) >= 0) { memcpy(ds[h].d, ds[g].d, ds[g].n * sizeof(double)); ds[h].n = ds[g].n; }
			break;
		case 5:
			snprintf(ctx, sizeof(ctx), "drop(h=%d)", h);
			vf_log("%s", ctx);
			drop(h);
			break;
		case 6: {   /* fresh buffer with static flags, as a producer of constant data would hand out */
			static const int fl[] = { 0, MPT_ENUM(BufferImmutable), 0 };
			size_t cnt = vf_below(r, 20);
			drop(h);
			snprintf(ctx, sizeof(ctx), "new_flagged(h=%d,count=%zu)", h, cnt);
			vf_log("%s", ctx);
			MPT_STRUCT(buffer) *b = _mpt_buffer_alloc((cnt + vf_below(r, 3) * 8) * sizeof(double), fl[vf_below(r, 3)]);
			if (!b) vf_inconclusive("buffer allocation failed");
			b->_content_traits = dt;
			for (size_t j = 0; j < cnt; j++) { ds[h].d[j] = next_val; next_val += 0.5; }
			if (cnt && mpt_buffer_set(b, dt, 0, ds[h].d, cnt * sizeof(double)) < 0) vf_fail("model:buffer_set:refused", "%s", ctx);
			arr[h]._buf = b; ds[h].n = cnt;
			break; }
		default: {   /* raw (untyped) array must be refused, not reinterpreted */
			if (arr[h]._buf) { snprintf(ctx, sizeof(ctx), "skip"); break; }
			snprintf(ctx, sizeof(ctx), "values_prepare on raw array (h=%d)", h);
			vf_log("%s", ctx);
			if (!mpt_array_append(&arr[h], 24, 0)) vf_inconclusive("append failed");
			vf_at("mpt_values_prepare"); vf_count("values_prepare:raw", 1);
			double *p = mpt_values_prepare(&arr[h], 2);
			VF_CHECK(!p, key("values_prepare", "accepted-on-raw"), "%s: accepted", ctx);
			VF_CHECK(arr[h]._buf && arr[h]._buf->_used == 24, key("values_prepare", "target-length"), "%s: raw array changed", ctx);
			arr[h]._buf->_vptr->unref(arr[h]._buf); arr[h]._buf = 0;
			break; }
		}
		vf_fp_u64(((uint64_t) op << 40) ^ ((uint64_t) h << 32) ^ ds[h].n);
		if (dl + 60 < sizeof(desc)) dl += snprintf(desc + dl, sizeof(desc) - dl, " %s;", ctx);
		check_doubles("values_prepare", h, ctx);
	}
	for (int i = 0; i < NH; i++) drop(i);
	if (shared_writes >= 2) vf_nontrivial();
	vf_sample("%s", desc);
}

static void case_formats(vf_rng *r)
{
	int nops = vf_range(r, 8, 50), shared_writes = 0;
	char ctx[160];
	vf_fp_u64(0xf07a7);
	for (int i = 0; i < nops; i++) {
		int op = (int) vf_below(r, 6), h = (int) vf_below(r, NH), g = (int) vf_below(r, NH);
		size_t n = fs[h].n;
		int shared = (h_flags(h) & MPT_ENUM(BufferShared)) != 0;
		switch (op) {
		case 0: case 1: case 2: {
			MPT_STRUCT(value_format) f;
			f.flags = (uint16_t) vf_below(r, 0x100); f.width = (uint8_t) vf_below(r, 40); f.dec = (uint8_t) vf_below(r, 20);
			if (n > MAXE - 8) break;
			snprintf(ctx, sizeof(ctx), "valfmt_add(h=%d) count=%zu size=%zu flags=%x", h, n, arr[h]._buf ? arr[h]._buf->_size : 0, h_flags(h));
			vf_log("%s", ctx);
			vf_at("mpt_valfmt_add"); vf_count("valfmt_add", 1);
			if (shared) { vf_count("state:shared", 1); shared_writes++; }
			int ret = mpt_valfmt_add(&arr[h], f);
			VF_CHECK(ret > 0, key("valfmt_add", "refused"), "%s: returned %d", ctx, ret);
			VF_CHECK((size_t) ret == n + 1, key("valfmt_add", "return"), "%s: returned %d, model has %zu formats", ctx, ret, n + 1);
			fs[h].f[n] = f; fs[h].n = n + 1;
			break; }
		case 3: {
			/* text form: one format per blank separated token */
			char txt[64]; int k = (int) vf_below(r, 4), l = 0;
			MPT_STRUCT(value_format) exp[4];
			int ne = 0;
			if (n > MAXE - 16) break;
			txt[0] = 0;
			for (int j = 0; j < k; j++) l += snprintf(txt + l, sizeof(txt) - l, "%s%u.%u", j ? " " : "", (unsigned) vf_below(r, 30), (unsigned) vf_below(r, 15));
			/* expected: what the library's own single-format reader yields for each token */
			for (const char *p = txt; ne < 4; ) { int c = mpt_valfmt_get(&exp[ne], p); if (c <= 0) break; p += c; ne++; }
			snprintf(ctx, sizeof(ctx), "valfmt_parse(h=%d,'%s') count=%zu flags=%x", h, txt, n, h_flags(h));
			vf_log("%s", ctx);
			vf_at("mpt_valfmt_parse"); vf_count("valfmt_parse", 1);
			if (shared) { vf_count("state:shared", 1); shared_writes++; }
			int ret = mpt_valfmt_parse(&arr[h], txt);
			VF_CHECK(ret >= 0, key("valfmt_parse", "refused"), "%s: returned %d", ctx, ret);
			for (int j = 0; j < ne; j++) fs[h].f[n + j] = exp[j];
			fs[h].n = n + ne;
			break; }
		case 4:
			snprintf(ctx, sizeof(ctx), "array_clone(h=%d,g=%d)", h, g);
			vf_log("%s", ctx);
			vf_at("mpt_array_clone"); vf_count("array_clone", 1);
			if (mpt_array_clone(&arr[h], &arr[g]) >= 0) { memcpy(fs[h].f, fs[g].f, fs[g].n * sizeof(fs[0].f[0])); fs[h].n = fs[g].n; }
			break;
		default:
			snprintf(ctx, sizeof(ctx), "drop(h=%d)", h);
			vf_log("%s", ctx);
			drop(h);
			break;
		}
		vf_fp_u64(((uint64_t) op << 40) ^ ((uint64_t) h << 32) ^ fs[h].n);
		check_formats("valfmt", h, ctx);
	}
	for (int i = 0; i < NH; i++) drop(i);
	if (shared_writes >= 2) vf_nontrivial();
	vf_sample("value format arrays x3: %d add/parse/clone/drop operations, %d on a shared buffer", nops, shared_writes);
}

static uint64_t n_val(void) { return vf_thorough ? 600000 : 60000; }
static uint64_t n_fmt(void) { return vf_thorough ? 200000 : 20000; }
static uint64_t n_stg(void) { return vf_thorough ? 300000 : 30000; }
uint64_t vf_cases(void) { return n_val() + n_fmt() + n_stg(); }
void vf_case(uint64_t idx, vf_rng *r)
{
	if (idx < n_val()) case_values(r);
	else if (idx < n_val() + n_fmt()) case_formats(r);
	else stage_history(r, "stage");
}
