/*
 * C12 C++ leg, transport glue: the send callback of mpt_reply_deferrable sees
 * struct reply_data, whose members are not accessible from C++ code.  This C
 * part flattens (id bytes, message) and hands them to the monitor in
 * c12_cxx.cpp.
 */
#include <string.h>
#include <sys/uio.h>

#include "message.h"
#include "event.h"

extern int c12_on_send(void *ptr, const uint8_t *id, size_t idlen, const uint8_t *msg, size_t msglen, int hasmsg);

int c12_tr_send(void *ptr, const MPT_STRUCT(reply_data) *rd, const MPT_STRUCT(message) *msg)
{
	uint8_t flat[512];
	size_t n = 0;
	if (msg) {
		MPT_STRUCT(message) m = *msg;
		n = mpt_message_read(&m, sizeof(flat), flat);
	}
	return c12_on_send(ptr, rd ? rd->val : 0, rd ? rd->len : 0, flat, n, msg != 0);
}
