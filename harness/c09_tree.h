/*
 * C09: tree model, generator, renderers and tree comparison shared by the C
 * leg (c09_readback.c) and the C++ leg (c09_cxx.cpp); code in c09_tree.c.
 */
#ifndef C09_TREE_H
#define C09_TREE_H

#include "vf.h"

#ifdef __cplusplus
extern "C" {
#endif

typedef struct { uint8_t *d; size_t n, cap; } bytes;

enum { StylePrefix, StyleEnclosed, StyleSeparated, StyleCount };
extern const char *const c09_style_name[StyleCount];

/* own reading of the format string (layout documented in parse_format.c):
 * [0] section start, [1] family, [2] section end, [3] option start, [4] assign,
 * [5] option end, [6..] comment characters, blank, escape characters;
 * a blank in positions 0,2..5 means "none" */
typedef struct {
	const char *str;        /* NULL: library default */
	int style;
	int sstart, send, assign, oend;
	char com[5], esc[4];
} format;
extern const format c09_formats[];
extern const size_t c09_nformats;

typedef struct tnode {
	int section;
	uint8_t *name; size_t nlen;
	uint8_t *val;  size_t vlen;
	int quote;                      /* 0: plain spelling, else quote character */
	size_t nchild;
	struct tnode **child;
} tnode;

typedef struct {
	const format *f;
	unsigned sect, opt;             /* name flags */
	int maxdepth;
	int huge;                       /* values > 65535 generated */
	int val250, val255, longname, comchar;
	size_t nodes, sections, options, depth;
} gen;

enum { Canonical, Compact, Noisy };

typedef struct {
	const format *f;
	int mode;
	vf_rng *r;                      /* decoration choices (Noisy) */
	bytes out;
	size_t comments, blanks, crlf, trailing;
} render;

typedef struct {
	const char *phase;              /* readback | decoration */
	const char *style;
	int fstyle;
	const char *desc;
	const bytes *text;
	uint64_t names, values, links;
	int known_hit;
} cmp;

tnode *c09_t_new(int section);
void c09_t_free(tnode *t);
void c09_t_fp(const tnode *t);
/* children of parent (depth 0: the whole document) within the limits of g */
void c09_gen_children(vf_rng *r, gen *g, tnode *parent, int depth);
/* text of the tree in o->out (o->f, o->mode, o->r set by the caller) */
void c09_render_doc(render *o, const tnode *root);
/* walk node list 'first' (struct mpt_node / mpt::node, children of 'parent') against the model */
void c09_compare(cmp *c, const tnode *model, const void *parent, const void *first);
const char *c09_mkkey(const cmp *c, const char *what);
const char *c09_excerpt(const bytes *b);
void c09_flags_string(char *dst, unsigned sect, unsigned opt);

#ifdef __cplusplus
}
#endif
#endif /* C09_TREE_H */
