/*
 * C14 (C++ leg): mpt::node objects as members of lists and trees.
 *
 * mpt::node is the C node with constructor/destructor: the destructor has to
 * take the object out of its surroundings (unlink), destroy its children and
 * drop its value.  Objects live on the heap (node::create, mpt_node_new),
 * in harness-owned storage (placement new: the life time of a member or
 * automatic object, ended at any time by an explicit destructor call) and in
 * real automatic storage (scope exit).  They are linked with the C list/tree
 * functions below a parent and in parent-less sibling lists and destroyed at
 * head / middle / tail.
 *
 * After every operation the same walker as in c14_node.c runs over the
 * survivors: every link is NULL or a live population node (pointer
 * comparison only, a destroyed node is never dereferenced; its storage is
 * freed or poisoned, so a dereference by the library is an ASan report),
 * prev/parent agree with the way a node is reached, parent->children is a list
 * head, every node is reached exactly once; membership is compared with a set
 * model; values are reference counted harness metatypes: the number of
 * references must equal the number of holding nodes after every operation and
 * a value nobody holds must have been released exactly once.
 */
#include <stdlib.h>
#include <string.h>
#include <new>

#if defined(__SANITIZE_ADDRESS__)
# include <sanitizer/asan_interface.h>
# define POISONED(p) (__asan_address_is_poisoned(p))
# define POISON(p, n) ASAN_POISON_MEMORY_REGION(p, n)
# define UNPOISON(p, n) ASAN_UNPOISON_MEMORY_REGION(p, n)
#else
# define POISONED(p) 1
# define POISON(p, n) ((void) 0)
# define UNPOISON(p, n) ((void) 0)
#endif

#include <sys/uio.h>

#include "meta.h"
#include "node.h"
#include "io.h"
#include "vf.h"

const char *vf_name = "c14_cxx";

#define MAXN   128
#define MAXM   224
#define NSLOT  48
#define LIVE_MAX 20
#define GMAX   2048

static const char *cur_op = "setup";
static char keybuf[160];
static const char *K(const char *op, const char *what)
{
	snprintf(keybuf, sizeof(keybuf), "model:%s:%s", op, what);
	return keybuf;
}

/* ------------------------------------------------------------- metatypes */
class hmeta : public mpt::metatype
{
public:
	hmeta() : used(0), refs(0), finals(0), holders(0), vlen(0), clone_of(-1) { val[0] = 0; }
	int convert(mpt::type_t type, void *ptr) __MPT_OVERRIDE
	{
		if (!type) {
			if (ptr) *static_cast<const uint8_t **>(ptr) = reinterpret_cast<const uint8_t *>("");
			return 's';
		}
		if (type == 's') {
			if (ptr) *static_cast<const char **>(ptr) = val;
			return 's';
		}
		return mpt::BadType;
	}
	void unref() __MPT_OVERRIDE;
	uintptr_t addref() __MPT_OVERRIDE
	{
		if (!used || finals) vf_fail(K(cur_op, "addref-of-released-value"), "addref on a released value");
		return (uintptr_t) ++refs;
	}
	mpt::metatype *clone() const __MPT_OVERRIDE;
	int used, refs, finals, holders, vlen, clone_of;
	char val[8];
};
static hmeta metas[MAXM];
static int nmetas;
void hmeta::unref()
{
	int id = (int) (this - metas);
	if (id < 0 || id >= nmetas || !used) vf_fail(K(cur_op, "unref-of-unknown-value"), "unref on an object that is no live harness value");
	if (refs <= 0) vf_fail(K(cur_op, "released-twice"), "value %d released again after its last reference was dropped", id);
	vf_count("witness:unref", 1);
	if (!--refs) ++finals;
}
mpt::metatype *hmeta::clone() const
{
	int id = (int) (this - metas);
	if (id < 0 || id >= nmetas || !used || finals) vf_fail(K(cur_op, "clone-of-released-value"), "clone called on an object that is no live harness value");
	if (nmetas >= MAXM) vf_inconclusive("value table exhausted");
	hmeta *m = &metas[nmetas++];
	m->used = 1; m->refs = 1; m->finals = 0; m->holders = 0; m->clone_of = id;
	m->vlen = vlen;
	memcpy(m->val, val, sizeof(val));
	vf_count("witness:clone", 1);
	return m;
}
static int meta_new(vf_rng *r)
{
	if (nmetas >= MAXM) vf_inconclusive("value table exhausted");
	hmeta *m = &metas[nmetas];
	m->used = 1; m->refs = 1; m->finals = 0; m->holders = 0; m->clone_of = -1;
	m->vlen = 1 + (int) vf_below(r, 6);
	for (int i = 0; i < m->vlen; i++) m->val[i] = (char) ('A' + vf_below(r, 26));
	m->val[m->vlen] = 0;
	return nmetas++;
}

/* ------------------------------------------------------------ population */
enum { KHeap, KSlot, KStack };
static const char *kname[] = { "heap", "member", "automatic" };
struct hnode {
	mpt::node *n;
	int alive, kind, meta;
	int par, grp;
	mpt::metatype *lib;                 /* value made by the library (no release witness: LSan) */
	mpt::io::buffer::metatype *buf;     /* ... when it is a buffer value */
	int open;                           /* ... with an entry that is not terminated yet */
};
static hnode N[MAXN];
static int nn, next_grp, nslots;
alignas(16) static unsigned char slots[NSLOT][sizeof(mpt::node)];

static int idx_of(const mpt::node *p)
{
	for (int i = 0; i < nn; i++) if (N[i].alive && N[i].n == p) return i;
	return -1;
}
static int alive_count()
{
	int c = 0;
	for (int i = 0; i < nn; i++) c += N[i].alive;
	return c;
}
static int grp_size(int g)
{
	int c = 0;
	for (int i = 0; i < nn; i++) if (N[i].alive && N[i].par < 0 && N[i].grp == g) c++;
	return c;
}
static int is_isolated(int i) { return N[i].par < 0 && grp_size(N[i].grp) == 1; }
static int in_subtree(int x, int root)
{
	for (int j = x, g = 0; j >= 0 && g <= MAXN; j = N[j].par, g++) if (j == root) return 1;
	return 0;
}
/* every node below i can be destroyed by the library (free) */
static int heap_below(int i)
{
	for (int j = 0; j < nn; j++) if (N[j].alive && j != i && in_subtree(j, i) && N[j].kind != KHeap) return 0;
	return 1;
}
static int slot_new(mpt::node *n, int kind, int meta)
{
	if (nn >= MAXN) vf_inconclusive("node table exhausted");
	N[nn].n = n; N[nn].alive = 1; N[nn].kind = kind; N[nn].meta = meta; N[nn].lib = 0; N[nn].buf = 0; N[nn].open = 0;
	N[nn].par = -1; N[nn].grp = next_grp++;
	if (meta >= 0) metas[meta].holders++;
	return nn++;
}

/* ---------------------------------------------------------------- walker */
static int visited[MAXN], headof[MAXN];
static unsigned max_depth;

static void walk_list(const char *op, mpt::node *first, int parent, int head, unsigned depth)
{
	mpt::node *prev = 0, *pp = parent >= 0 ? N[parent].n : 0;
	if (depth > max_depth) max_depth = depth;
	for (mpt::node *n = first; n; prev = n, n = n->next) {
		int i = idx_of(n);
		if (visited[i])
			vf_fail(K(op, "reached-twice"), "node %d is reachable a second time (as %s of node %d)", i, prev ? "successor" : "first child", prev ? idx_of(prev) : parent);
		visited[i] = 1; headof[i] = head;
		if (!prev && parent >= 0 && n->prev)
			vf_fail(K(op, "children-not-list-head"), "node %d: children points to node %d whose prev is node %d", parent, i, idx_of(n->prev));
		if (n->prev != prev)
			vf_fail(K(op, "prev-mismatch"), "node %d reached from node %d but its prev is %d", i, prev ? idx_of(prev) : -1, n->prev ? idx_of(n->prev) : -1);
		if (n->parent != pp)
			vf_fail(K(op, "parent-mismatch"), "node %d is in the child list of %d but names parent %d", i, parent, n->parent ? idx_of(n->parent) : -1);
		if (n->children) walk_list(op, n->children, i, head, depth + 1);
		vf_count("monitor:link-checks", 1);
	}
}
static void check_all(const char *op)
{
	static const char *ln[4] = { "next", "prev", "parent", "children" };
	static int gmap[GMAX];
	int hgrp[MAXN], i;
	for (i = 0; i < nn; i++) {
		if (!N[i].alive) continue;
		mpt::node *n = N[i].n;
		if (POISONED(n)) vf_fail(K(op, "freed-live-node"), "%s node %d was freed/destroyed although the caller did not destroy it", kname[N[i].kind], i);
		const mpt::node *l[4] = { n->next, n->prev, n->parent, n->children };
		for (int k = 0; k < 4; k++)
			if (l[k] && idx_of(l[k]) < 0)
				vf_fail(K(op, "dangling-link"), "%s node %d: %s = %p is no live node (destroyed or foreign object)", kname[N[i].kind], i, ln[k], (const void *) l[k]);
		if (n->next == n || n->prev == n || n->parent == n || n->children == n) vf_fail(K(op, "self-link"), "node %d links to itself", i);
		mpt::metatype *exp = N[i].meta >= 0 ? &metas[N[i].meta] : N[i].lib;
		if (n->meta().instance() != exp) vf_fail(K(op, "value-replaced"), "node %d holds another value object than assigned", i);
		visited[i] = 0; headof[i] = -1; hgrp[i] = -1;
	}
	for (i = 0; i < nn; i++) if (N[i].alive && !N[i].n->parent && !N[i].n->prev) walk_list(op, N[i].n, -1, i, 0);
	for (i = 0; i < nn; i++) {
		if (!N[i].alive || visited[i]) continue;
		mpt::node *n = N[i].n;
		vf_fail(K(op, "unreachable"), "node %d is not reachable from any list head (next=%d prev=%d parent=%d)", i,
		        n->next ? idx_of(n->next) : -1, n->prev ? idx_of(n->prev) : -1, n->parent ? idx_of(n->parent) : -1);
	}
	/* membership */
	for (i = 0; i < next_grp; i++) gmap[i] = -1;
	for (i = 0; i < nn; i++) {
		if (!N[i].alive) continue;
		int ap = N[i].n->parent ? idx_of(N[i].n->parent) : -1;
		if (ap != N[i].par) vf_fail(K(op, "membership-parent"), "node %d has parent %d, expected %d", i, ap, N[i].par);
		if (ap >= 0) continue;
		int g = N[i].grp;
		if (gmap[g] < 0) gmap[g] = headof[i];
		else if (gmap[g] != headof[i]) vf_fail(K(op, "membership-list"), "top-level node %d is in the list of %d, its expected list mates are in the list of %d", i, headof[i], gmap[g]);
		if (hgrp[headof[i]] < 0) hgrp[headof[i]] = g;
		else if (hgrp[headof[i]] != g) vf_fail(K(op, "membership-joined"), "two separate top-level lists are now one (head %d)", headof[i]);
	}
	/* values: references == holders, released exactly when nobody holds them */
	for (i = 0; i < nmetas; i++) {
		const hmeta &m = metas[i];
		if (m.refs != m.holders) vf_fail(K(op, m.refs < m.holders ? "released-while-held" : "not-released"), "value %d has %d references, %d nodes hold it", i, m.refs, m.holders);
		if (m.finals != (m.holders ? 0 : 1)) vf_fail(K(op, "release-count"), "value %d held by %d nodes was finally released %d times", i, m.holders, m.finals);
	}
	vf_count("monitor:structure-walks", 1);
	vf_max("max:depth", max_depth);
}

/* mark i (and everything below) destroyed; heap nodes must have been freed */
static void model_destroy(const char *op, int root, int self)
{
	int dead[MAXN], nd = 0;
	for (int j = 0; j < nn; j++) if (N[j].alive && in_subtree(j, root) && (self || j != root)) dead[nd++] = j;
	for (int k = 0; k < nd; k++) {
		int j = dead[k];
		if (N[j].kind == KHeap && !POISONED(N[j].n)) vf_fail(K(op, "node-not-freed"), "heap node %d (at/below %d) should be destroyed but is still allocated", j, root);
		if (N[j].meta >= 0) metas[N[j].meta].holders--;
		N[j].alive = 0;
		vf_count("monitor:release-witnessed", 1);
	}
}


/* ------------------------------------------------------- library values */
struct sig {
	int rv, rs, ri;
	size_t vlen;
	uint8_t vec[640];
	char str[640];
	int32_t ival;
};
/* everything a reader can learn about the current value without changing it */
static void signature(mpt::metatype *m, struct sig *s)
{
	using namespace mpt;   /* type macros expand to unqualified enumerators */
	struct iovec v = { 0, 0 };
	const char *t = 0;
	memset(s, 0, sizeof(*s));
	s->rv = m->convert(MPT_type_toVector('c'), &v) >= 0;
	if (s->rv) { s->vlen = v.iov_len; if (v.iov_len) memcpy(s->vec, v.iov_base, v.iov_len < sizeof(s->vec) ? v.iov_len : sizeof(s->vec)); }
	s->rs = m->convert('s', &t) >= 0 && t;
	if (s->rs) snprintf(s->str, sizeof(s->str), "%s", t);
	s->ri = m->convert('i', &s->ival) >= 0;
	if (!s->ri) s->ival = 0;
}
static int sig_equal(const struct sig *a, const struct sig *b)
{
	return a->rv == b->rv && a->rs == b->rs && a->ri == b->ri && a->vlen == b->vlen
	       && !memcmp(a->vec, b->vec, a->vlen < sizeof(a->vec) ? a->vlen : sizeof(a->vec)) && !strcmp(a->str, b->str) && a->ival == b->ival;
}
static const char *sig_show(const struct sig *s)
{
	static char b[2][120];
	static int k;
	char *d = b[k++ & 1];
	snprintf(d, 120, "[raw %d:%zu bytes '%.20s' text %d:'%.20s' int %d:%d]", s->rv, s->vlen, s->rv ? (const char *) s->vec : "", s->rs, s->str, s->ri, (int) s->ival);
	return d;
}
static void push_entry(mpt::io::buffer::metatype *b, vf_rng *r, int terminate)
{
	char e[12];
	int l = 1 + (int) vf_below(r, 8);
	for (int i = 0; i < l; i++) e[i] = (char) ('a' + vf_below(r, 26));
	e[l] = 0;
	if (b->push((size_t) l + 1, e) < 0) vf_fail(K(cur_op, "buffer-push-refused"), "push of an entry refused");
	if (terminate && b->push(0, 0) < 0) vf_fail(K(cur_op, "buffer-push-refused"), "termination of an entry refused");
}
/* change the state of a buffer value: returns 0 when nothing could be done */
static int consume(int ni, vf_rng *r)
{
	mpt::io::buffer::metatype *b = N[ni].buf;
	switch (vf_below(r, 4)) {
	case 0: case 1: vf_count("io::buffer::advance", 1); return b->advance() >= 0;
	case 2: { char tmp[4]; vf_count("io::buffer::read", 1); return b->read(1 + vf_below(r, 3), tmp, 1) > 0; }
	default: vf_count("io::buffer::push", 1); push_entry(b, r, 1); N[ni].open = 0; return 1;
	}
}
/* set a value made by the library on node i */
static void set_lib_value(vf_rng *r, int i)
{
	mpt::metatype *m = 0;
	mpt::io::buffer::metatype *b = 0;
	char text[320];
	int kind = (int) vf_below(r, 8), open_entry = 0;
	cur_op = "set_metatype";
	if (kind == 0) {
		int32_t v = (int32_t) vf_below(r, 100000) - 50000;
		m = mpt::metatype::generic::create('i', &v);
		if (m) vf_count("value:generic-int", 1);
	}
	if (kind == 1 || (kind == 0 && !m)) {
		size_t l = vf_below(r, 12);
		for (size_t k = 0; k < l; k++) text[k] = (char) ('a' + vf_below(r, 26));
		text[l] = 0;
		m = mpt::metatype::create(static_cast<const char *>(text), -1);
		vf_count("value:small-text", 1);
	}
	else if (kind == 2) {
		size_t l = 255 + vf_below(r, 50);
		for (size_t k = 0; k < l; k++) text[k] = (char) ('A' + vf_below(r, 26));
		text[l] = 0;
		m = mpt::metatype::create(static_cast<const char *>(text), -1);
		b = dynamic_cast<mpt::io::buffer::metatype *>(m);
		vf_count("value:long-text", 1);
		if (b && vf_chance(r, 1, 2)) { char tmp[8]; b->read(1 + vf_below(r, 7), tmp, 1); vf_count("state:buffer-partly-read", 1); }
	}
	else if (kind >= 3) {
		/* queue of text entries: fresh, partly consumed, exhausted, with an open entry */
		b = mpt::io::buffer::metatype::create(0);
		m = b;
		int n = 1 + (int) vf_below(r, 4), st = (int) vf_below(r, 5);
		for (int k = 0; k < n; k++) push_entry(b, r, 1);
		vf_count("value:buffer-queue", 1);
		if (st == 1 || st == 2) {
			int adv = (st == 2) ? n : 1 + (int) vf_below(r, (uint32_t) n);
			for (int k = 0; k < adv; k++) b->advance();
			vf_count(adv >= n ? "state:buffer-exhausted" : "state:buffer-partly-consumed", 1);
		}
		else if (st == 3) { push_entry(b, r, 0); open_entry = 1; vf_count("state:buffer-open-entry", 1); }
		else if (st == 4) { b->advance(); push_entry(b, r, 0); open_entry = 1; vf_count("state:buffer-open-entry", 1); }
		else vf_count("state:buffer-fresh", 1);
	}
	VF_CHECK(m != 0, K(cur_op, "value-not-created"), "library refused to create a value of kind %d", kind);
	vf_at("node::set_metatype");
	vf_count("node::set_metatype:library-value", 1);
	vf_log("node %d set_metatype(library value kind %d%s)", i, kind, b ? ", buffer" : "");
	vf_fp_u64(0x540 + (uint64_t) kind);
	N[i].n->set_metatype(m);
	if (N[i].meta >= 0) metas[N[i].meta].holders--;
	N[i].meta = -1; N[i].lib = m; N[i].buf = b; N[i].open = 0;
	if (b && open_entry) N[i].open = 1;
}

/* ------------------------------------------------------------------ clone */
static int pairs[MAXN][2], npairs;
static void compare_list(const char *op, const mpt::node *s, mpt::node *c, int cpar, int grp, int single, int shallow);
static void compare_node(const char *op, const mpt::node *s, mpt::node *c, int cpar, int grp, int shallow)
{
	int si = idx_of(s);
	VF_CHECK(idx_of(c) < 0, K(op, "clone-is-existing-node"), "copy of node %d is an existing node", si);
	VF_CHECK(!mpt::mpt_identifier_inequal(&c->ident, &s->ident), K(op, "clone-name"), "copy of node %d has another name", si);
	mpt::metatype *sm = s->meta().instance(), *cm = c->meta().instance();
	int m = -1;
	VF_CHECK(!sm == !cm, K(op, "clone-value"), "node %d %s a value, its copy %s", si, sm ? "has" : "has no", cm ? "has one" : "has none");
	VF_CHECK(!sm || sm != cm, K(op, "clone-shares-value"), "copy of node %d holds the same value object", si);
	if (N[si].meta >= 0) {
		hmeta *h = static_cast<hmeta *>(cm);
		m = (h >= metas && h < metas + nmetas) ? (int) (h - metas) : -1;
		VF_CHECK(m >= 0 && metas[m].clone_of == N[si].meta && !strcmp(metas[m].val, metas[N[si].meta].val), K(op, "clone-value"),
		         "copy of node %d does not hold a clone of the source's value", si);
	}
	else if (sm) {
		struct sig a, b;
		signature(sm, &a); signature(cm, &b);
		VF_CHECK(sig_equal(&a, &b), K(op, "clone-value"), "node %d presents %s, its copy %s", si, sig_show(&a), sig_show(&b));
		vf_count("monitor:clone-value-compares", 1);
		if (N[si].buf) vf_count("monitor:clone-buffer-compares", 1);
	}
	VF_CHECK(c->parent == (cpar >= 0 ? N[cpar].n : 0), K(op, "clone-parent"), "copy of node %d has parent %p", si, (void *) c->parent);
	int slot = slot_new(c, KHeap, m);
	N[slot].par = cpar; N[slot].grp = grp;
	if (m < 0 && cm) { N[slot].lib = cm; N[slot].buf = dynamic_cast<mpt::io::buffer::metatype *>(cm); N[slot].open = N[si].open; }
	if (N[si].buf) VF_CHECK(N[slot].buf != 0 && N[slot].buf != N[si].buf, K(op, "clone-value"), "copy of buffer value of node %d is no independent buffer value", si);
	pairs[npairs][0] = si; pairs[npairs][1] = slot; npairs++;
	if (shallow) VF_CHECK(!c->children, K(op, "clone-children"), "shallow copy of node %d has children", si);
	else {
		VF_CHECK(!s->children == !c->children, K(op, "clone-children"), "node %d %s children, its copy %s", si, s->children ? "has" : "has no", c->children ? "has" : "has none");
		if (s->children) compare_list(op, s->children, c->children, slot, grp, 0, 0);
	}
	vf_count("monitor:clone-node-compares", 1);
}
static void compare_list(const char *op, const mpt::node *s, mpt::node *c, int cpar, int grp, int single, int shallow)
{
	mpt::node *prev = 0;
	for (;;) {
		if (!s && !c) break;
		VF_CHECK(s && c, K(op, "clone-length"), "%s list ends early", s ? "copied" : "source");
		VF_CHECK(c->prev == prev, K(op, "clone-prev"), "copy of node %d: prev is not the copy of the predecessor", idx_of(s));
		compare_node(op, s, c, cpar, grp, shallow);
		prev = c;
		if (single) { VF_CHECK(!c->next, K(op, "clone-length"), "single copy has a successor"); break; }
		s = s->next; c = c->next;
	}
}
static int subtree_size(const mpt::node *n)
{
	int c = 1;
	for (const mpt::node *k = n->children; k; k = k->next) c += subtree_size(k);
	return c;
}
static int op_clone(vf_rng *r)
{
	static const char *opn[] = { "node_clone", "list_clone", "tree_clone" };
	static const char *api[] = { "mpt_node_clone", "mpt_list_clone", "mpt_tree_clone" };
	int kind = (int) vf_below(r, 3), i = -1, size = 0, depth2 = 0;
	/* prefer sources that hold (or contain) buffer values */
	if (vf_chance(r, 2, 3)) {
		int c[MAXN], k = 0;
		for (int j = 0; j < nn; j++) if (N[j].alive && N[j].buf) c[k++] = j;
		if (k) { i = c[vf_below(r, (uint32_t) k)]; for (int up = (int) vf_below(r, 3); up-- && kind && N[i].par >= 0; ) i = N[i].par; }
	}
	if (i < 0) i = (int) vf_below(r, (uint32_t) nn);
	if (i >= nn || !N[i].alive) return 0;
	mpt::node *n = N[i].n, *ret;
	if (kind == 1 && vf_chance(r, 1, 2)) { while (n->prev) n = n->prev; i = idx_of(n); }
	if (kind == 0) size = 1;
	else if (kind == 2) size = subtree_size(n);
	else for (const mpt::node *k = n; k; k = k->next) size += subtree_size(k);
	if (alive_count() + size > LIVE_MAX + 6 || nn + size > MAXN - 8 || nmetas + size > MAXM - 8) return 0;
	if (kind) for (const mpt::node *k = (kind == 1) ? n : n->children; k; k = k->next) if (k->children) depth2 = 1;
	cur_op = opn[kind];
	vf_at(api[kind]);
	vf_count(api[kind], 1);
	vf_log("%s(%d) size %d", cur_op, i, size);
	vf_fp_u64(0x800 + (uint64_t) kind * 64 + (uint64_t) size);
	ret = (kind == 0) ? mpt::mpt_node_clone(n) : (kind == 1) ? mpt::mpt_list_clone(n) : mpt::mpt_tree_clone(n);
	VF_CHECK(ret != 0, K(cur_op, "null"), "returned NULL for node %d (size %d)", i, size);
	VF_CHECK(!ret->parent && !ret->prev, K(cur_op, "clone-linked"), "copy is linked to parent/prev");
	npairs = 0;
	compare_list(cur_op, n, ret, -1, next_grp++, kind != 1, kind == 0);
	if (depth2) vf_count("state:clone-depth2", 1);
	/* state that no reader sees: an entry that is still open must be open in the copy too;
	 * after both are terminated they present the same again */
	for (int k = 0; k < npairs; k++) {
		int si = pairs[k][0], ci = pairs[k][1];
		struct sig a, b;
		if (!N[si].buf || !N[si].open || !N[ci].open) continue;
		if (N[si].buf->push(0, 0) < 0 || N[ci].buf->push(0, 0) < 0) vf_fail(K(cur_op, "buffer-push-refused"), "termination of the open entry refused (node %d / copy)", si);
		N[si].open = N[ci].open = 0;
		signature(N[si].lib, &a); signature(N[ci].lib, &b);
		VF_CHECK(sig_equal(&a, &b), K(cur_op, "clone-value"), "after terminating the open entry node %d presents %s, its copy %s", si, sig_show(&a), sig_show(&b));
		vf_count("monitor:clone-open-entry-compares", 1);
	}
	/* independence: change the source's buffer value, the copy keeps what it presented
	 * (and the other way round); an open entry must be open in the copy as well */
	int bp[MAXN], nb = 0;
	for (int k = 0; k < npairs; k++) if (N[pairs[k][0]].buf) bp[nb++] = k;
	if (nb) {
		int k = bp[vf_below(r, (uint32_t) nb)], si = pairs[k][0], ci = pairs[k][1];
		struct sig s0, c0, s1, c1;
		signature(N[ci].lib, &c0);
		int did = consume(si, r);
		signature(N[ci].lib, &c1);
		VF_CHECK(sig_equal(&c0, &c1), K(cur_op, "clone-not-independent"), "copy of node %d changed from %s to %s when the source value was %s", si, sig_show(&c0), sig_show(&c1),
		         did ? "consumed/extended" : "asked to advance");
		signature(N[si].lib, &s0);
		consume(ci, r);
		signature(N[si].lib, &s1);
		VF_CHECK(sig_equal(&s0, &s1), K(cur_op, "clone-not-independent"), "node %d changed from %s to %s when its copy was consumed/extended", si, sig_show(&s0), sig_show(&s1));
		vf_count("monitor:clone-independence-checks", 1);
	}
	return depth2 ? 2 : 1;
}

/* ----------------------------------------------------------------- helpers */
typedef int (*pred_t)(int, int);
static int pick(vf_rng *r, pred_t p, int arg)
{
	int c[MAXN], k = 0;
	for (int i = 0; i < nn; i++) if (N[i].alive && (!p || p(i, arg))) c[k++] = i;
	return k ? c[vf_below(r, (uint32_t) k)] : -1;
}
static int p_isolated(int i, int) { return is_isolated(i); }
static int p_not_below(int i, int a) { return !in_subtree(i, a); }
static int p_destroyable(int i, int) { return heap_below(i); }
static int p_linked_destroyable(int i, int) { return heap_below(i) && !is_isolated(i); }
static int p_heap_parent_ok(int i, int a)   /* i may become ancestor of a non-heap node a only if nobody will free below it: always fine */
{
	return !in_subtree(i, a);
}
static mpt::node *head_of(mpt::node *n)
{
	int g = 0;
	while (n->prev && g++ < MAXN) n = n->prev;
	return n;
}
static const int positions[] = { 0, 1, 2, 3, -1, -2, 5, -5, 100, -100 };
#define NPOS ((int) (sizeof(positions) / sizeof(*positions)))
static const char *names[] = { "a", "b", "cc", "" };

/* link isolated node `ins` next to / below `pos` through one of the C functions */
static const char *attach(vf_rng *r, int ins, int pos)
{
	static const char *opn[] = { "gnode_after", "gnode_before", "gnode_add", "node_add", "gnode_insert", "node_insert" };
	static const char *api[] = { "mpt_gnode_after", "mpt_gnode_before", "mpt_gnode_add", "mpt_node_add", "mpt_gnode_insert", "mpt_node_insert" };
	int kind = (int) vf_below(r, 6), arg = positions[vf_below(r, NPOS)];
	mpt::node *in = N[ins].n, *pn = N[pos].n;
	cur_op = opn[kind];
	vf_at(api[kind]);
	vf_count(api[kind], 1);
	vf_fp_u64(0x200 + (uint64_t) kind * 0x100 + (uint64_t) (arg & 0xff));
	vf_log("%s(%d, %d, %d) [%s node]", cur_op, pos, arg, ins, kname[N[ins].kind]);
	switch (kind) {
	case 0: VF_CHECK(mpt::mpt_gnode_after(pn, in) == in, K(cur_op, "return"), "did not return the inserted node"); break;
	case 1: VF_CHECK(mpt::mpt_gnode_before(pn, in) == in, K(cur_op, "return"), "did not return the inserted node"); break;
	case 2: VF_CHECK(mpt::mpt_gnode_add(head_of(pn), arg, in) == in, K(cur_op, "return"), "did not return the added node"); break;
	case 3: VF_CHECK(mpt::mpt_node_add(head_of(pn), arg, in) == in, K(cur_op, "return"), "did not return the added node"); break;
	case 4: VF_CHECK(mpt::mpt_gnode_insert(pn, arg, in) == 0, K(cur_op, "return"), "refused"); break;
	default: VF_CHECK(mpt::mpt_node_insert(pn, arg, in) == 0, K(cur_op, "return"), "refused"); break;
	}
	if (kind < 4) { N[ins].par = N[pos].par; N[ins].grp = N[pos].grp; }
	else N[ins].par = pos;
	if (N[ins].par < 0) vf_count("state:attach-toplevel", 1);
	else vf_count("state:attach-below-parent", 1);
	return cur_op;
}
static void set_name(mpt::node *n, vf_rng *r)
{
	if (vf_chance(r, 1, 4)) return;
	const char *nm = names[vf_below(r, 4)];
	vf_at("mpt_identifier_set");
	VF_CHECK(mpt::mpt_identifier_set(&n->ident, nm, -1) != 0, K(cur_op, "name-refused"), "identifier_set('%s') failed", nm);
}
static int new_heap(vf_rng *r)
{
	int how = (int) vf_below(r, 3), m = -1;
	const char *nm = names[vf_below(r, 4)];
	mpt::node *n;
	cur_op = "node_create";
	vf_at("node::create");
	if (how == 0) { n = mpt::node::create(nm); vf_count("node::create(name)", 1); }
	else if (how == 1) { n = mpt::node::create(vf_below(r, 40)); vf_count("node::create(size)", 1); }
	else { vf_at("mpt_node_new"); n = mpt::mpt_node_new(vf_below(r, 40)); vf_count("mpt_node_new", 1); }
	VF_CHECK(n != 0, K(cur_op, "null"), "creation returned NULL");
	VF_CHECK(!n->next && !n->prev && !n->parent && !n->children && !n->meta().instance(), K(cur_op, "not-isolated"), "fresh node has non-zero links/value");
	if (how) set_name(n, r);
	if (!vf_chance(r, 1, 5)) {
		m = meta_new(r);
		vf_at("node::set_metatype");
		vf_count("node::set_metatype", 1);
		n->set_metatype(&metas[m]);
	}
	int s = slot_new(n, KHeap, m);
	vf_log("%d = heap node (how %d, value %d)", s, how, m);
	vf_fp_u64(0x100 + (uint64_t) how);
	return s;
}
static int new_member(vf_rng *r)
{
	if (nslots >= NSLOT) return -1;
	void *mem = slots[nslots++];
	int m = vf_chance(r, 1, 5) ? -1 : meta_new(r);
	UNPOISON(mem, sizeof(mpt::node));
	memset(mem, 0xA5, sizeof(mpt::node));
	cur_op = "node_ctor";
	vf_at("node::node");
	vf_count("node::node", 1);
	mpt::node *n = new (mem) mpt::node(m >= 0 ? &metas[m] : 0);
	VF_CHECK(!n->next && !n->prev && !n->parent && !n->children, K(cur_op, "not-isolated"), "constructed node has non-zero links");
	VF_CHECK(n->meta().instance() == (m >= 0 ? &metas[m] : 0), K(cur_op, "value"), "constructed node does not hold the given value");
	set_name(n, r);
	int s = slot_new(n, KSlot, m);
	vf_log("%d = member node (value %d)", s, m);
	vf_fp_u64(0x180);
	return s;
}
/* where does i sit: 0 isolated, 1 head, 2 middle, 3 tail */
static int place_of(int i)
{
	mpt::node *n = N[i].n;
	if (!n->prev && !n->next) return N[i].par >= 0 ? 1 : 0;
	if (!n->prev) return 1;
	if (!n->next) return 3;
	return 2;
}
static void count_place(int scope, int i)
{
	/* literals: the counter table caches by string address */
	static const char *nm[2][2][4] = {
		{ { "state:dtor-toplevel-isolated", "state:dtor-toplevel-head", "state:dtor-toplevel-middle", "state:dtor-toplevel-tail" },
		  { "state:dtor-child-isolated", "state:dtor-child-head", "state:dtor-child-middle", "state:dtor-child-tail" } },
		{ { "state:scope-toplevel-isolated", "state:scope-toplevel-head", "state:scope-toplevel-middle", "state:scope-toplevel-tail" },
		  { "state:scope-child-isolated", "state:scope-child-head", "state:scope-child-middle", "state:scope-child-tail" } } };
	int pl = place_of(i);
	if (N[i].par >= 0 && !N[i].n->prev && !N[i].n->next) pl = 0;   /* only child */
	vf_count(nm[scope][N[i].par >= 0][pl], 1);
}
/* run the destructor of node i (any linkage) */
static void destroy(int i)
{
	mpt::node *n = N[i].n;
	cur_op = "node_dtor";
	vf_at("node::~node");
	vf_count("node::~node", 1);
	count_place(0, i);
	if (N[i].par < 0 && !is_isolated(i)) vf_count("state:dtor-in-parentless-list", 1);
	if (n->children) vf_count("state:dtor-with-children", 1);
	vf_log("destroy %s node %d (parent %d, place %d)", kname[N[i].kind], i, N[i].par, place_of(i));
	vf_fp_u64(0x400 + (uint64_t) N[i].kind * 16 + (uint64_t) place_of(i));
	n->~node();
	if (N[i].kind == KHeap) free(n);
	else POISON(n, sizeof(mpt::node));
	model_destroy(cur_op, i, 1);
}
/* automatic object: linked into an existing list, gone at scope exit */
static int scoped(vf_rng *r, int pos)
{
	int top = 0;
	int m = vf_chance(r, 1, 4) ? -1 : meta_new(r);
	int kids = (int) vf_below(r, 3), s;
	{
		mpt::node b(m >= 0 ? &metas[m] : 0);
		vf_count("node::node:automatic", 1);
		s = slot_new(&b, KStack, m);
		set_name(&b, r);
		check_all("node_ctor");
		attach(r, s, pos);
		check_all(cur_op);
		for (int k = 0; k < kids && alive_count() < LIVE_MAX + 4; k++) {
			int c = new_heap(r);
			cur_op = "gnode_insert";
			vf_at("mpt_gnode_insert");
			mpt::mpt_gnode_insert(&b, positions[vf_below(r, NPOS)], N[c].n);
			N[c].par = s;
			check_all(cur_op);
		}
		if (vf_chance(r, 1, 3)) {
			/* a later neighbour, so that the automatic node is not the tail */
			int c = new_heap(r);
			cur_op = "gnode_after";
			vf_at("mpt_gnode_after");
			mpt::mpt_gnode_after(&b, N[c].n);
			N[c].par = N[s].par; N[c].grp = N[s].grp;
			check_all(cur_op);
		}
		cur_op = "node_dtor";
		vf_at("node::~node");
		vf_count("node::~node:scope-exit", 1);
		count_place(1, s);
		if (N[s].par < 0 && !is_isolated(s)) { vf_count("state:dtor-in-parentless-list", 1); top = 1; }
		vf_log("scope exit of automatic node %d (parent %d, place %d, %d children)", s, N[s].par, place_of(s), kids);
		vf_fp_u64(0x480 + (uint64_t) place_of(s));
	}
	model_destroy("node_dtor", s, 1);
	return top;
}

enum { ONewHeap, ONewMember, OAttach, OUnlink, ODtor, ODtorLinked, OScoped, OSetMeta, OAssignRef, OClear, OCDestroy, OData, OSetLib, OConsume, OClone, OCount };
static const uint8_t weights[OCount] = { 10, 10, 22, 4, 6, 10, 8, 3, 4, 2, 3, 2, 9, 5, 10 };

extern "C" uint64_t vf_cases(void) { return vf_thorough ? 1000000 : 60000; }

extern "C" void vf_case(uint64_t idx, vf_rng *r)
{
	int wsum = 0, dtors = 0, toplevel_dtors = 0;
	char desc[1200];
	size_t dl = 0;
	(void) idx;
	nn = nmetas = nslots = 0; next_grp = 0; max_depth = 0;
	UNPOISON(slots, sizeof(slots));
	for (int i = 0; i < OCount; i++) wsum += weights[i];
	int nops = vf_range(r, 12, vf_thorough ? 80 : 50);
	new_heap(r); new_member(r);
	check_all("node_ctor");
	for (int k = 0; k < nops; k++) {
		int w = (int) vf_below(r, (uint32_t) wsum), op = 0, done = 0, i, j;
		while (w >= weights[op]) w -= weights[op++];
		if (nn > MAXN - 8 || nmetas > MAXM - 8 || next_grp > GMAX - 64) break;
		switch (op) {
		case ONewHeap: if (alive_count() < LIVE_MAX) { new_heap(r); done = 1; } break;
		case ONewMember: if (alive_count() < LIVE_MAX && new_member(r) >= 0) done = 1; break;
		case OAttach:
			i = pick(r, p_isolated, 0);
			if (i < 0) { if (alive_count() < LIVE_MAX) { if (vf_chance(r, 1, 2)) new_heap(r); else if (new_member(r) < 0) break; done = 1; } break; }
			j = pick(r, p_heap_parent_ok, i);
			if (j < 0 || j == i) break;
			attach(r, i, j); done = 1;
			break;
		case OUnlink:
			i = pick(r, 0, 0);
			if (i < 0) break;
			cur_op = "node_unlink";
			vf_at("mpt_node_unlink");
			vf_count("mpt_node_unlink", 1);
			vf_log("node_unlink(%d)", i);
			vf_fp_u64(0x300);
			{ mpt::node *exp = N[i].n->next; VF_CHECK(mpt::mpt_node_unlink(N[i].n) == exp, K(cur_op, "return"), "did not return the successor"); }
			N[i].par = -1; N[i].grp = next_grp++;
			done = 1;
			break;
		case ODtor: case ODtorLinked:
			i = pick(r, op == ODtor ? p_destroyable : p_linked_destroyable, 0);
			if (i < 0) break;
			if (N[i].par < 0 && !is_isolated(i)) toplevel_dtors++;
			destroy(i); dtors++; done = 1;
			break;
		case OScoped:
			j = pick(r, 0, 0);
			if (j < 0 || alive_count() >= LIVE_MAX) break;
			toplevel_dtors += scoped(r, j); dtors++; done = 1;
			break;
		case OSetMeta: {
			i = pick(r, 0, 0);
			if (i < 0) break;
			int m = vf_chance(r, 1, 4) ? -1 : meta_new(r);
			cur_op = "set_metatype";
			vf_at("node::set_metatype");
			vf_count("node::set_metatype", 1);
			vf_log("node %d set_metatype(%d), had %d", i, m, N[i].meta);
			vf_fp_u64(0x500);
			N[i].n->set_metatype(m >= 0 ? &metas[m] : 0);
			if (N[i].meta >= 0) metas[N[i].meta].holders--;
			if (m >= 0) metas[m].holders++;
			N[i].meta = m; N[i].lib = 0; N[i].buf = 0; N[i].open = 0;
			done = 1;
			break; }
		case OAssignRef: {
			/* shared value: reference assignment adds a reference */
			i = pick(r, 0, 0);
			if (i < 0) break;
			int m = -1;
			if (vf_chance(r, 1, 2)) { j = pick(r, 0, 0); if (j >= 0 && j != i) m = N[j].meta; }
			cur_op = "assign_reference";
			vf_at("node::operator=");
			vf_count("node::operator=", 1);
			vf_fp_u64(0x580);
			if (m >= 0 && m != N[i].meta) {
				vf_log("node %d = reference to value %d shared with node %d", i, m, j);
				vf_count("state:shared-value", 1);
				*N[i].n = N[j].n->meta();
			} else if (m < 0) {
				m = meta_new(r);
				vf_log("node %d = reference to new value %d", i, m);
				mpt::reference<mpt::metatype> ref(&metas[m]);
				*N[i].n = ref;
			} else {
				vf_log("node %d = its own value", i);
				*N[i].n = N[i].n->meta();
				done = 1;
				break;
			}
			if (N[i].meta >= 0) metas[N[i].meta].holders--;
			metas[m].holders++;
			N[i].meta = m; N[i].lib = 0; N[i].buf = 0; N[i].open = 0;
			done = 1;
			break; }
		case OClear:
			i = pick(r, p_destroyable, 0);
			if (i < 0) break;
			cur_op = "node_clear";
			vf_at("mpt_node_clear");
			vf_count("mpt_node_clear", 1);
			vf_log("node_clear(%d)", i);
			vf_fp_u64(0x600);
			mpt::mpt_node_clear(N[i].n);
			VF_CHECK(!N[i].n->children, K(cur_op, "children-left"), "node %d still has children", i);
			model_destroy(cur_op, i, 0);
			done = 1;
			break;
		case OCDestroy: {
			/* the C destructor on nodes made by node::create */
			i = pick(r, p_destroyable, 0);
			if (i < 0 || N[i].kind != KHeap) break;
			int linked = !is_isolated(i);
			mpt::node *n = N[i].n;
			cur_op = "node_destroy";
			vf_at("mpt_node_destroy");
			vf_count("mpt_node_destroy", 1);
			vf_log("node_destroy(%d)%s", i, linked ? " linked" : "");
			vf_fp_u64(0x700 + (uint64_t) linked);
			mpt::node *ret = mpt::mpt_node_destroy(n);
			if (linked) {
				VF_CHECK(ret == n && !POISONED(n), K(cur_op, "accepted-linked"), "linked node %d was not refused", i);
			} else {
				VF_CHECK(!ret, K(cur_op, "refused-unlinked"), "unlinked node %d refused", i);
				model_destroy(cur_op, i, 1);
			}
			done = 1;
			break; }
		case OSetLib:
			i = pick(r, 0, 0);
			if (i < 0) break;
			set_lib_value(r, i);
			done = 1;
			break;
		case OConsume: {
			int c[MAXN], k = 0;
			for (j = 0; j < nn; j++) if (N[j].alive && N[j].buf) c[k++] = j;
			if (!k) break;
			i = c[vf_below(r, (uint32_t) k)];
			cur_op = "buffer_consume";
			vf_at("io::buffer");
			vf_log("consume/extend buffer value of node %d", i);
			vf_fp_u64(0x5C0);
			consume(i, r);
			done = 1;
			break; }
		case OClone:
			done = op_clone(r);
			break;
		case OData: {
			i = pick(r, 0, 0);
			if (i < 0) break;
			size_t len = 99;
			cur_op = "node_data";
			vf_at("node::data");
			vf_count("node::data", 1);
			const char *d = N[i].n->data(&len);
			if (N[i].lib) { done = 1; break; }
			if (N[i].meta < 0) VF_CHECK(!d, K(cur_op, "phantom"), "node %d without value returns data", i);
			else VF_CHECK(d && !strcmp(d, metas[N[i].meta].val), K(cur_op, "value"), "node %d: data() does not return the value text", i);
			done = 1;
			break; }
		}
		if (!done) continue;
		check_all(cur_op);
		if (dl + 24 < sizeof(desc)) dl += (size_t) snprintf(desc + dl, sizeof(desc) - dl, "%s ", cur_op);
		vf_max("max:population", (uint64_t) alive_count());
	}
	unsigned reached = max_depth;
	/* teardown: objects whose descendants the library may free, innermost first */
	for (int guard = 0; guard < MAXN * 2 && alive_count(); guard++) {
		int i = -1;
		for (int j = 0; j < nn; j++) {
			if (!N[j].alive || !heap_below(j)) continue;
			if (i < 0 || (N[j].kind != KHeap && N[i].kind == KHeap)) i = j;
		}
		if (i < 0) vf_fail(K("teardown", "stuck"), "no destroyable node left");
		if (N[i].par < 0 && !is_isolated(i)) toplevel_dtors++;
		destroy(i); dtors++;
		check_all("node_dtor");
	}
	for (int m = 0; m < nmetas; m++)
		VF_CHECK(metas[m].finals == 1 && !metas[m].refs, K("teardown", "release-count"), "value %d: %d references left, %d final releases", m, metas[m].refs, metas[m].finals);
	vf_count("monitor:final-release-audits", 1);
	if (dtors >= 3 && toplevel_dtors >= 1 && reached >= 1) vf_nontrivial();
	vf_sample("%d ops, depth %u, %d destructor runs (%d in parent-less lists): %s", nops, reached, dtors, toplevel_dtors, desc);
}
