/*
 * C16: names are stored and compared faithfully at every length (C leg).
 *
 * Monitor: byte-array shadow per identifier (kind unset / text / binary),
 * stepped after every operation; after each operation *all* live identifiers
 * are read back (struct field _len, mpt_identifier_data, storage size _max)
 * and compared.  Release of separately allocated content is witnessed
 * explicitly: the block that held the old long content must be poisoned
 * (freed) right after the operation that replaced it; LeakSanitizer at
 * process exit is the secondary oracle.
 *
 * Cases: [0, G) exhaustive grid (operation, storage, previous content,
 * [source storage,] new content) around each storage's inline capacity and
 * the 65535 limit; [G, G+H) PRNG histories over 2..4 identifiers.
 */
#include <stdlib.h>
#include <errno.h>
#include <sys/uio.h>

#include "core.h"
#include "types.h"
#include "node.h"
#include "meta.h"
#include "vf.h"

#if defined(__SANITIZE_ADDRESS__)
# include <sanitizer/asan_interface.h>
# define POISONED(p) __asan_address_is_poisoned(p)
# define HAVE_ASAN 1
extern size_t __sanitizer_get_current_allocated_bytes(void);   /* sanitizer allocator interface */
# define HEAP_IN_USE() __sanitizer_get_current_allocated_bytes()
#else
# define POISONED(p) 1
# define HAVE_ASAN 0
# define HEAP_IN_USE() ((size_t) 0)
#endif

const char *vf_name = "c16_ident";

/* ------------------------------------------------------------- handles */
enum { KDefault, KStatic, KCustom, KNew, KNode, KTraits, KKinds };
static const char *kindname[KKinds] = { "struct", "static-init", "custom", "identifier_new", "node_new", "traits" };

enum { SUnset, SText, SBinary };
static const char *statename[] = { "unset", "text", "binary" };

#define SHMAX 65540
typedef struct {
	int kind;
	size_t param;                    /* total size (custom) / requested length (new, node) */
	MPT_STRUCT(identifier) *id;
	MPT_STRUCT(node) *node;
	void *block; size_t blocksize;   /* harness-owned storage */
	unsigned max;                    /* inline capacity fixed at creation */
	int state;
	size_t n;                        /* content bytes (text: without terminator) */
	uint8_t *sh;
} handle;

#define MAXH 5
static handle H[MAXH];
static int nh;
static uint8_t shadowmem[MAXH][SHMAX];
static char hx1[140], hx2[140];
static char keybuf[128];
static int transitions;             /* short<->long or long->long replacements in this case */
static int crosscopies;

static const char *key(const char *op, const char *what)
{
	snprintf(keybuf, sizeof(keybuf), "model:%s:%s", op, what);
	return keybuf;
}
static size_t explen(const handle *h)
{
	return h->state == SText ? h->n + 1 : (h->state == SBinary ? h->n : 0);
}
static int is_ext(const MPT_STRUCT(identifier) *id) { return id->_len > id->_max; }
static const void *ext_ptr(const MPT_STRUCT(identifier) *id) { return is_ext(id) ? id->_base : 0; }

static void hdesc(char *dst, size_t len, const handle *h)
{
	snprintf(dst, len, "%s(%zu)[max=%u %s n=%zu]", kindname[h->kind], h->param, h->max, statename[h->state], h->n);
}

static handle *h_new(int kind, size_t param)
{
	handle *h = &H[nh];
	const MPT_STRUCT(type_traits) *tr;
	memset(h, 0, sizeof(*h));
	h->kind = kind; h->param = param;
	h->sh = shadowmem[nh];
	switch (kind) {
	case KDefault:
		h->blocksize = sizeof(MPT_STRUCT(identifier));
		h->block = vf_xalloc(h->blocksize);
		memset(h->block, 0xEE, h->blocksize);
		h->id = h->block;
		vf_at("mpt_identifier_init"); vf_count("mpt_identifier_init", 1);
		mpt_identifier_init(h->id, sizeof(*h->id));
		h->param = sizeof(*h->id);
		break;
	case KStatic: {
		static const MPT_STRUCT(identifier) init = MPT_IDENTIFIER_INIT;
		h->blocksize = sizeof(MPT_STRUCT(identifier));
		h->block = vf_xalloc(h->blocksize);
		memcpy(h->block, &init, sizeof(init));
		h->id = h->block;
		h->param = sizeof(*h->id);
		break; }
	case KCustom:
		if (param < sizeof(MPT_STRUCT(identifier))) param = h->param = sizeof(MPT_STRUCT(identifier));
		h->blocksize = param;
		h->block = vf_xalloc(param);
		memset(h->block, 0xEE, param);
		h->id = h->block;
		vf_at("mpt_identifier_init"); vf_count("mpt_identifier_init", 1);
		mpt_identifier_init(h->id, param);
		{
			size_t want = param - 4 > 252 ? 252 : param - 4;
			VF_CHECK(h->id->_max == want, "model:identifier_init:capacity", "init(total %zu): inline capacity %u, expected %zu", param, h->id->_max, want);
		}
		break;
	case KNew:
		vf_at("mpt_identifier_new"); vf_count("mpt_identifier_new", 1);
		h->id = mpt_identifier_new(param);
		VF_CHECK(h->id != 0, "model:identifier_new:null", "mpt_identifier_new(%zu) returned NULL", param);
		if (param <= 252) VF_CHECK(h->id->_max >= param, "model:identifier_new:capacity", "new(%zu): inline capacity %u", param, h->id->_max);
		break;
	case KNode:
		vf_at("mpt_node_new"); vf_count("mpt_node_new", 1);
		h->node = mpt_node_new(param);
		VF_CHECK(h->node != 0, "model:node_new:null", "mpt_node_new(%zu) returned NULL", param);
		h->id = &h->node->ident;
		break;
	case KTraits:
		vf_at("mpt_identifier_traits"); vf_count("mpt_identifier_traits", 1);
		tr = mpt_identifier_traits();
		VF_CHECK(tr && tr->init && tr->fini && tr->size == sizeof(MPT_STRUCT(identifier)), "model:traits:description",
		         "identifier traits %p size %zu", (void *) tr, tr ? tr->size : 0);
		h->blocksize = tr->size;
		h->block = vf_xalloc(h->blocksize);
		memset(h->block, 0xEE, h->blocksize);
		h->id = h->block;
		{
			int r = tr->init(h->id, 0);
			VF_CHECK(r >= 0, "model:traits-init:refused", "traits init(NULL source) = %d", r);
		}
		h->param = tr->size;
		break;
	}
	h->max = h->id->_max;
	h->state = SUnset; h->n = 0;
	VF_CHECK(h->id->_len == 0, "model:create:length", "fresh %s(%zu): _len %u", kindname[kind], param, h->id->_len);
	nh++;
	return h;
}

/* the block that held long content must be gone after it was replaced */
static void check_released(const char *op, const void *old, const MPT_STRUCT(identifier) *now, const char *ctx)
{
	if (!old) return;
	if (now && is_ext(now) && now->_base == old) return;   /* kept in place */
	vf_count("monitor:release-witness", 1);
	if (HAVE_ASAN && !POISONED(old)) {
		vf_fail(key(op, "old-content-not-released"), "%s: block %p that held the previous long content is still allocated", ctx, old);
	}
}

static void h_release(handle *h)
{
	const void *old = ext_ptr(h->id);
	char ctx[120];
	hdesc(ctx, sizeof(ctx), h);
	switch (h->kind) {
	case KNew:
		vf_at("mpt_identifier_set"); vf_count("mpt_identifier_set", 1);
		mpt_identifier_set(h->id, 0, 0);
		check_released("release", old, h->id, ctx);
		free(h->id);
		break;
	case KNode: {
		vf_at("mpt_node_destroy"); vf_count("mpt_node_destroy", 1);
		MPT_STRUCT(node) *r = mpt_node_destroy(h->node);
		VF_CHECK(!r, "model:node_destroy:refused", "%s: unlinked node not destroyed", ctx);
		check_released("node_destroy", old, 0, ctx);
		break; }
	case KTraits:
		vf_at("mpt_identifier_traits.fini"); vf_count("traits.fini", 1);
		mpt_identifier_traits()->fini(h->id);
		check_released("traits-fini", old, 0, ctx);
		vf_xfree(h->block, h->blocksize);
		break;
	default:
		vf_at("mpt_identifier_set"); vf_count("mpt_identifier_set", 1);
		mpt_identifier_set(h->id, 0, 0);
		check_released("release", old, h->id, ctx);
		vf_xfree(h->block, h->blocksize);
	}
	h->id = 0;
}
static void release_all(void)
{
	for (int i = 0; i < nh; i++) if (H[i].id) h_release(&H[i]);
	nh = 0;
}

/* read-back oracle for one identifier */
static void verify(const char *op, const handle *h, const char *ctx)
{
	const MPT_STRUCT(identifier) *id = h->id;
	size_t want = explen(h);
	char hd[120];
	hdesc(hd, sizeof(hd), h);
	VF_CHECK(id->_max == h->max, key(op, "capacity-changed"), "%s: %s: _max is %u", ctx, hd, id->_max);
	VF_CHECK(id->_len == want, key(op, "length"), "%s: %s: _len is %u, expected %zu", ctx, hd, id->_len, want);
	vf_at("mpt_identifier_data");
	const uint8_t *d = mpt_identifier_data(id);
	VF_CHECK(d != 0 || !want, key(op, "data-null"), "%s: %s: data pointer is NULL", ctx, hd);
	if (want <= h->max) {
		VF_CHECK(d == (const uint8_t *) id->_val, key(op, "data-location"), "%s: %s: short content not at inline storage", ctx, hd);
	}
	if (h->n && memcmp(d, h->sh, h->n)) {
		size_t i = 0;
		while (d[i] == h->sh[i]) i++;
		vf_fail(key(op, "content"), "%s: %s: byte %zu is %02x, expected %02x; stored %s.. expected %s..", ctx, hd, i, d[i], h->sh[i],
		        vf_hex(hx1, sizeof(hx1), d + (i > 8 ? i - 8 : 0), (h->n - i > 24 ? 24 : h->n - i) + (i > 8 ? 8 : i)),
		        vf_hex(hx2, sizeof(hx2), h->sh + (i > 8 ? i - 8 : 0), (h->n - i > 24 ? 24 : h->n - i) + (i > 8 ? 8 : i)));
	}
	if (h->state == SText) {
		VF_CHECK(d[h->n] == 0, key(op, "terminator"), "%s: %s: byte after the text is %02x", ctx, hd, d[h->n]);
	}
	vf_count("monitor:readback", 1);
}
static void verify_all(const char *op, const char *ctx)
{
	for (int i = 0; i < nh; i++) if (H[i].id) verify(op, &H[i], ctx);
}
static void note_transition(int was_ext, int is_ext_now)
{
	if (was_ext && is_ext_now) { vf_count("transition:long>long", 1); transitions++; }
	else if (was_ext) { vf_count("transition:long>short", 1); transitions++; }
	else if (is_ext_now) { vf_count("transition:short>long", 1); transitions++; }
	else vf_count("transition:short>short", 1);
}

/* ---------------------------------------------------------- operations */
/* text set: bytes[0..n), explicit length or -1 (then bytes must be free of NUL) */
static void op_set_text(handle *h, const uint8_t *bytes, size_t n, int use_strlen)
{
	char ctx[200], hd[100];
	hdesc(hd, sizeof(hd), h);
	snprintf(ctx, sizeof(ctx), "set(%s, text %zu bytes%s)", hd, n, use_strlen ? ", len -1" : "");
	vf_log("%s", ctx);
	size_t bl = n + (use_strlen ? 1 : 0);
	char *name = vf_xalloc(bl);
	if (n) memcpy(name, bytes, n);
	if (use_strlen) name[n] = 0;
	const void *old = ext_ptr(h->id);
	int was = is_ext(h->id);
	vf_at("mpt_identifier_set"); vf_count("mpt_identifier_set", 1);
	void *r = mpt_identifier_set(h->id, name, use_strlen ? -1 : (int) n);
	if (n + 1 > UINT16_MAX) {
		vf_count("outcome:refused-too-long", 1);
		VF_CHECK(!r, "model:set:accepted-too-long", "%s: accepted (returned %p)", ctx, r);
		verify("set-refused", h, ctx);
	} else {
		VF_CHECK(r != 0, "model:set:refused", "%s: returned NULL", ctx);
		h->state = SText; h->n = n;
		if (n) memcpy(h->sh, bytes, n);
		VF_CHECK(r == mpt_identifier_data(h->id), "model:set:return", "%s: returned %p, data is at %p", ctx, r, mpt_identifier_data(h->id));
		check_released("set", old, h->id, ctx);
		note_transition(was, is_ext(h->id));
	}
	vf_xfree(name, bl);
	verify_all("set", ctx);
}
/* binary set: NULL name, n bytes; content is written through the returned pointer */
static void op_set_binary(handle *h, const uint8_t *bytes, size_t n)
{
	char ctx[200], hd[100];
	hdesc(hd, sizeof(hd), h);
	snprintf(ctx, sizeof(ctx), "set(%s, NULL, %zu) + fill", hd, n);
	vf_log("%s", ctx);
	const void *old = ext_ptr(h->id);
	int was = is_ext(h->id);
	vf_at("mpt_identifier_set"); vf_count("mpt_identifier_set(binary)", 1);
	uint8_t *r = mpt_identifier_set(h->id, 0, (int) n);
	if (n > UINT16_MAX) {
		vf_count("outcome:refused-too-long", 1);
		VF_CHECK(!r, "model:set-binary:accepted-too-long", "%s: accepted", ctx);
		verify("set-refused", h, ctx);
	} else {
		VF_CHECK(r != 0, "model:set-binary:refused", "%s: returned NULL", ctx);
		VF_CHECK(r == mpt_identifier_data(h->id), "model:set-binary:return", "%s: returned %p, data is at %p", ctx, (void *) r, mpt_identifier_data(h->id));
		if (n) memcpy(r, bytes, n);
		h->state = n ? SBinary : SUnset; h->n = n;
		if (n) memcpy(h->sh, bytes, n);
		check_released("set-binary", old, h->id, ctx);
		note_transition(was, is_ext(h->id));
	}
	verify_all("set-binary", ctx);
}
static void op_clear(handle *h, int via_copy)
{
	char ctx[200], hd[100];
	hdesc(hd, sizeof(hd), h);
	snprintf(ctx, sizeof(ctx), via_copy ? "copy(%s, NULL)" : "set(%s, NULL, 0)", hd);
	vf_log("%s", ctx);
	const void *old = ext_ptr(h->id);
	int was = is_ext(h->id);
	if (via_copy) {
		vf_at("mpt_identifier_copy"); vf_count("mpt_identifier_copy(NULL)", 1);
		mpt_identifier_copy(h->id, 0);
	} else {
		vf_at("mpt_identifier_set"); vf_count("mpt_identifier_set(clear)", 1);
		mpt_identifier_set(h->id, 0, 0);
	}
	h->state = SUnset; h->n = 0;
	check_released("clear", old, h->id, ctx);
	note_transition(was, 0);
	verify_all("clear", ctx);
}
/* snapshot of an identifier object: header + inline area */
typedef struct { uint8_t raw[4 + 256]; size_t len; const void *ext; } snap;
static void take_snap(snap *s, const handle *h)
{
	s->len = 4 + h->max;
	memcpy(s->raw, h->id, s->len);
	s->ext = ext_ptr(h->id);
}
static void after_copy(const char *op, handle *dst, const handle *src, const snap *before, const void *old, int was, void *ret, const char *ctx)
{
	VF_CHECK(ret != 0, key(op, "refused"), "%s: failed", ctx);
	if (dst != src) {
		dst->state = src->state; dst->n = src->n;
		if (src->n) memcpy(dst->sh, src->sh, src->n);
		check_released(op, old, dst->id, ctx);
		note_transition(was, is_ext(dst->id));
		crosscopies++;
		/* equal content must not share the allocation */
		if (is_ext(dst->id) && is_ext(src->id)) {
			VF_CHECK(dst->id->_base != src->id->_base, key(op, "shared-storage"), "%s: copy and source use the same block %p", ctx, (void *) src->id->_base);
		}
	}
	VF_CHECK(!memcmp(before->raw, src->id, before->len) && before->ext == ext_ptr(src->id), key(op, "source-modified"),
	         "%s: source object bytes changed: %s -> %s", ctx, vf_hex(hx1, sizeof(hx1), before->raw, before->len > 40 ? 40 : before->len),
	         vf_hex(hx2, sizeof(hx2), src->id, before->len > 40 ? 40 : before->len));
	vf_count("monitor:source-unchanged", 1);
}
static void op_copy(handle *dst, handle *src)
{
	char ctx[260], hd[100], hs[100];
	snap before;
	hdesc(hd, sizeof(hd), dst); hdesc(hs, sizeof(hs), src);
	snprintf(ctx, sizeof(ctx), "copy(%s <- %s%s)", hd, hs, dst == src ? " [self]" : "");
	vf_log("%s", ctx);
	take_snap(&before, src);
	const void *old = ext_ptr(dst->id);
	int was = is_ext(dst->id);
	vf_at("mpt_identifier_copy"); vf_count(dst == src ? "mpt_identifier_copy(self)" : "mpt_identifier_copy", 1);
	void *r = mpt_identifier_copy(dst->id, src->id);
	after_copy("copy", dst, src, &before, old, was, r, ctx);
	VF_CHECK(r == mpt_identifier_data(dst->id), "model:copy:return", "%s: returned %p, data is at %p", ctx, r, mpt_identifier_data(dst->id));
	verify_all("copy", ctx);
}
/* copy construction through the type traits (what arrays of identifiers use) */
static handle *op_traits_copy(handle *src)
{
	char ctx[200], hs[100];
	snap before;
	const MPT_STRUCT(type_traits) *tr = mpt_identifier_traits();
	hdesc(hs, sizeof(hs), src);
	snprintf(ctx, sizeof(ctx), "traits.init(new <- %s)", hs);
	vf_log("%s", ctx);
	take_snap(&before, src);
	handle *h = &H[nh];
	memset(h, 0, sizeof(*h));
	h->kind = KTraits; h->param = tr->size; h->sh = shadowmem[nh];
	h->blocksize = tr->size;
	h->block = vf_xalloc(tr->size);
	memset(h->block, 0xEE, tr->size);
	h->id = h->block;
	vf_at("mpt_identifier_traits.init"); vf_count("traits.init(copy)", 1);
	int r = tr->init(h->id, src->id);
	nh++;
	h->max = h->id->_max;
	after_copy("traits-init", h, src, &before, 0, 0, r >= 0 ? h->id : 0, ctx);
	verify_all("traits-init", ctx);
	return h;
}
static handle *op_node_clone(handle *src)
{
	char ctx[200], hs[100];
	snap before;
	hdesc(hs, sizeof(hs), src);
	snprintf(ctx, sizeof(ctx), "node_clone(%s)", hs);
	vf_log("%s", ctx);
	take_snap(&before, src);
	vf_at("mpt_node_clone"); vf_count("mpt_node_clone", 1);
	MPT_STRUCT(node) *c = mpt_node_clone(src->node);
	VF_CHECK(c != 0, "model:node_clone:null", "%s: returned NULL", ctx);
	handle *h = &H[nh];
	memset(h, 0, sizeof(*h));
	h->kind = KNode; h->param = src->id->_len; h->sh = shadowmem[nh];
	h->node = c; h->id = &c->ident;
	h->max = h->id->_max;
	nh++;
	after_copy("node_clone", h, src, &before, 0, 0, c, ctx);
	verify_all("node_clone", ctx);
	return h;
}

/* comparison of an identifier with a name: verdict must be string equality */
static void probe(handle *h, const uint8_t *p, size_t n, int use_strlen, const char *what)
{
	size_t bl = n + (use_strlen ? 1 : 0);
	char *name = vf_xalloc(bl);
	if (n) memcpy(name, p, n);
	if (use_strlen) name[n] = 0;
	int equal = h->state == SText && h->n == n && (!n || !memcmp(h->sh, p, n));
	int decide = 1;
	char hd[100];
	/* what an identifier without text is "equal" to is not stated: only run */
	if (h->state != SText && (!n || h->state == SBinary)) decide = 0;
	vf_at("mpt_identifier_compare"); vf_count("mpt_identifier_compare", 1);
	int r = mpt_identifier_compare(h->id, name, use_strlen ? -1 : (int) n);
	if (decide) {
		hdesc(hd, sizeof(hd), h);
		if (equal) {
			VF_CHECK(r == 0, "model:compare:equal-reported-different", "compare(%s, %s %zu bytes%s) = %d", hd, what, n, use_strlen ? " len -1" : "", r);
			vf_count("monitor:compare-equal", 1);
		} else {
			VF_CHECK(r != 0, "model:compare:different-reported-equal", "compare(%s, %s %zu bytes%s) = 0; name %s..", hd, what, n, use_strlen ? " len -1" : "",
			         vf_hex(hx1, sizeof(hx1), p, n > 32 ? 32 : n));
			vf_count("monitor:compare-different", 1);
		}
	}
	if (h->kind == KNode) {
		/* the node list functions locate a node by its name: single unlinked node */
		MPT_STRUCT(node) *f;
		hdesc(hd, sizeof(hd), h);
		for (int pos = 0; pos <= 1; pos++) {
			vf_at("mpt_node_locate"); vf_count("mpt_node_locate", 1);
			f = mpt_node_locate(h->node, pos, name, n, -1);
			if (decide || h->state != SText) {
				if (equal) VF_CHECK(f == h->node, "model:node_locate:missed", "locate(%s, pos %d, %s %zu bytes) = %p", hd, pos, what, n, (void *) f);
				else if (decide) VF_CHECK(f == 0, "model:node_locate:phantom", "locate(%s, pos %d, %s %zu bytes) found the node", hd, pos, what, n);
				vf_count("monitor:node-locate", 1);
			}
		}
		if (use_strlen) {
			vf_at("mpt_node_next"); vf_count("mpt_node_next", 1);
			f = mpt_node_next(h->node, name);
			if (equal) VF_CHECK(f == h->node, "model:node_next:missed", "node_next(%s, %s %zu bytes) = %p", hd, what, n, (void *) f);
			else if (decide) VF_CHECK(f == 0, "model:node_next:phantom", "node_next(%s, %s %zu bytes) found the node", hd, what, n);
			vf_count("monitor:node-next", 1);
		}
	}
	vf_xfree(name, bl);
}
static void op_compare(handle *h, vf_rng *r)
{
	static uint8_t tmp[SHMAX];
	size_t n = h->n;
	int nul = n && memchr(h->sh, 0, n);
	char ctx[140];
	hdesc(ctx, sizeof(ctx), h);
	vf_log("compare battery on %s", ctx);
	memcpy(tmp, h->sh, n);
	probe(h, tmp, n, 0, "same");
	if (!nul) probe(h, tmp, n, 1, "same");
	if (n) {
		size_t at = r ? vf_below(r, (uint32_t) n) : n / 2;
		tmp[n - 1] ^= 0x20; probe(h, tmp, n, 0, "last byte changed"); tmp[n - 1] ^= 0x20;
		tmp[0] ^= 0x01; probe(h, tmp, n, 0, "first byte changed"); tmp[0] ^= 0x01;
		tmp[at] ^= 0x80; probe(h, tmp, n, 0, "one byte changed"); tmp[at] ^= 0x80;
		probe(h, tmp, n - 1, 0, "prefix");
		if (!nul) probe(h, tmp, n - 1, 1, "prefix");
	}
	if (n + 1 < 65535) {
		tmp[n] = 'x'; probe(h, tmp, n + 1, 0, "extended");
		if (!nul) probe(h, tmp, n + 1, 1, "extended");
		tmp[n] = 0; probe(h, tmp, n + 1, 0, "extended by NUL");
	}
	probe(h, tmp, 0, 0, "empty");
	probe(h, tmp, 0, 1, "empty");
	if (nul) {
		/* the C string in front of the first embedded NUL is a different name */
		size_t k = (const uint8_t *) memchr(h->sh, 0, n) - h->sh;
		probe(h, tmp, k, 0, "up to embedded NUL");
		probe(h, tmp, k, 1, "up to embedded NUL");
	}
	/* comparison without a name: only watched by the sanitizers */
	vf_at("mpt_identifier_compare"); vf_count("mpt_identifier_compare(NULL)", 1);
	(void) mpt_identifier_compare(h->id, 0, h->id->_len ? h->id->_len - 1 : 0);
	if (h->kind == KNode) {
		vf_at("mpt_node_ident"); vf_count("mpt_node_ident", 1);
		const char *s = mpt_node_ident(h->node);
		if (h->state == SText) {
			VF_CHECK(s && s == mpt_identifier_data(h->id), "model:node_ident:text", "node_ident(%s) = %p, data at %p", ctx, (const void *) s, mpt_identifier_data(h->id));
			vf_count("monitor:node-ident", 1);
		}
	}
	verify_all("compare", ctx);
}
static int model_equal(const handle *a, const handle *b)
{
	int ka = a->state == SText, kb = b->state == SText;
	if (ka != kb) return 0;
	if (a->n != b->n) return 0;
	return !a->n || !memcmp(a->sh, b->sh, a->n);
}
static void op_inequal(handle *a, handle *b)
{
	char ha[100], hb[100];
	hdesc(ha, sizeof(ha), a); hdesc(hb, sizeof(hb), b);
	vf_log("inequal(%s, %s)", ha, hb);
	int want = model_equal(a, b);
	vf_at("mpt_identifier_inequal"); vf_count("mpt_identifier_inequal", 2);
	int r1 = mpt_identifier_inequal(a->id, b->id);
	int r2 = mpt_identifier_inequal(b->id, a->id);
	if (want) {
		VF_CHECK(r1 == 0 && r2 == 0, "model:inequal:equal-reported-different", "inequal(%s, %s) = %d / reversed %d", ha, hb, r1, r2);
		vf_count("monitor:inequal-equal", 1);
	} else {
		VF_CHECK(r1 != 0 && r2 != 0, "model:inequal:different-reported-equal", "inequal(%s, %s) = %d / reversed %d", ha, hb, r1, r2);
		vf_count("monitor:inequal-different", 1);
	}
}
static void inequal_all(void)
{
	for (int i = 0; i < nh; i++) for (int j = i; j < nh; j++) if (H[i].id && H[j].id) op_inequal(&H[i], &H[j]);
}

/* -------------------------------------------------------- content specs */
static void gen_bytes(uint8_t *dst, size_t n, unsigned salt, int with_nul)
{
	for (size_t i = 0; i < n; i++) {
		uint8_t v = (uint8_t) (i * 37 + salt * 101 + (i >> 8) * 13 + 1);
		if (!v) v = 0xa5;
		dst[i] = v;
	}
	if (with_nul && n > 2) dst[n / 2] = 0;
}

/* storages of the grid */
typedef struct { int kind; size_t param; unsigned cap; } storage;
static const storage STOR[] = {
	{ KDefault, 16, 12 }, { KStatic, 16, 12 }, { KCustom, 20, 16 }, { KCustom, 255, 251 }, { KCustom, 256, 252 }, { KCustom, 300, 252 },
	{ KNew, 0, 28 }, { KNew, 28, 28 }, { KNew, 29, 60 }, { KNew, 100, 124 }, { KNew, 252, 252 }, { KNew, 253, 28 },
	{ KNode, 0, 20 }, { KNode, 60, 84 }, { KNode, 200, 212 }, { KTraits, 16, 12 },
};
#define NSTOR (sizeof(STOR) / sizeof(*STOR))

/* content classes relative to a capacity c: kind, length */
typedef struct { int state; size_t n; int with_nul; } content;
#define NPREV 17
#define NNEW 22
static content content_class(unsigned k, unsigned c)
{
	content x = { SText, 0, 0 };
	switch (k) {
	case 0: x.state = SUnset; break;
	case 1: x.n = 0; break;
	case 2: x.n = 1; break;
	case 3: x.n = c - 3; break;
	case 4: x.n = c - 2; break;
	case 5: x.n = c - 1; break;           /* with terminator exactly the capacity */
	case 6: x.n = c; break;               /* first long length */
	case 7: x.n = c + 1; break;
	case 8: x.n = c + 2; break;
	case 9: x.n = 255; break;
	case 10: x.n = 256; break;
	case 11: x.n = 65534; break;          /* with terminator 65535: the limit */
	case 12: x.state = SBinary; x.n = 1; break;
	case 13: x.state = SBinary; x.n = c; break;
	case 14: x.state = SBinary; x.n = c + 1; break;
	case 15: x.state = SBinary; x.n = 65535; break;
	case 16: x.n = c + 4; x.with_nul = 1; break;
	/* only as new content */
	case 17: x.n = 65533; break;
	case 18: x.n = 65535; break;          /* refused */
	case 19: x.n = 65536; break;          /* refused */
	case 20: x.state = SBinary; x.n = 65536; break;   /* refused */
	case 21: x.n = c - 1; x.with_nul = 1; break;
	}
	return x;
}
static void apply_content(handle *h, content x, unsigned salt, int strlen_variant)
{
	static uint8_t tmp[SHMAX];
	gen_bytes(tmp, x.n, salt, x.with_nul);
	switch (x.state) {
	case SUnset: op_clear(h, 0); break;
	case SText: op_set_text(h, tmp, x.n, strlen_variant && !x.with_nul); break;
	case SBinary: op_set_binary(h, tmp, x.n); break;
	}
}
static void content_desc(char *dst, size_t len, content x)
{
	if (x.state == SUnset) snprintf(dst, len, "unset");
	else snprintf(dst, len, "%s[%zu]%s", statename[x.state], x.n, x.with_nul ? "+NUL" : "");
}

/* ---------------------------------------------------------------- grid */
enum { GSet, GCopy, GSingle, GKinds };
static uint64_t g_set(void) { return NSTOR * NPREV * NNEW; }
static uint64_t g_copy(void) { return (uint64_t) NSTOR * NPREV * NSTOR * NPREV; }
static uint64_t g_single(void) { return NSTOR * NPREV * 4; }
static uint64_t n_grid(void) { return g_set() + g_copy() + g_single(); }

static void finish_case(void)
{
	static uint8_t tmp[8];
	/* the resulting objects stay usable */
	for (int i = 0; i < nh; i++) {
		op_compare(&H[i], 0);
	}
	inequal_all();
	gen_bytes(tmp, 3, 77, 0);
	op_set_text(&H[0], tmp, 3, 1);
	release_all();
}
static void case_grid(uint64_t idx)
{
	char d1[40], d2[40];
	int sample = (idx % 30011) == 5;   /* a few grid points among the evidence samples */
	transitions = 0; crosscopies = 0;
	vf_fp_u64(0x16000 + idx);
	if (idx < g_set()) {
		unsigned s = idx / (NPREV * NNEW), p = (idx / NNEW) % NPREV, n = idx % NNEW;
		handle *h = h_new(STOR[s].kind, STOR[s].param);
		VF_CHECK(h->max == STOR[s].cap, "model:create:capacity", "%s(%zu): inline capacity %u, expected %u", kindname[h->kind], STOR[s].param, h->max, STOR[s].cap);
		content cp = content_class(p, h->max), cn = content_class(n, h->max);
		apply_content(h, cp, 1, p & 1);
		apply_content(h, cn, 2, n & 1);
		content_desc(d1, sizeof(d1), cp); content_desc(d2, sizeof(d2), cn);
		if (sample) vf_sample("grid set-after-set: storage %s(%zu) capacity %u: %s then %s", kindname[h->kind], STOR[s].param, h->max, d1, d2);
		if (transitions) vf_nontrivial();
		finish_case();
		return;
	}
	idx -= g_set();
	if (idx < g_copy()) {
		unsigned sd = idx / (NPREV * NSTOR * NPREV), pd = (idx / (NSTOR * NPREV)) % NPREV, ss = (idx / NPREV) % NSTOR, ps = idx % NPREV;
		handle *d = h_new(STOR[sd].kind, STOR[sd].param);
		handle *s = h_new(STOR[ss].kind, STOR[ss].param);
		/* source lengths relative to the target's capacity for half of the classes */
		content cd = content_class(pd, d->max), cs = content_class(ps, (pd & 1) ? s->max : d->max);
		apply_content(d, cd, 3, 0);
		apply_content(s, cs, 4, 1);
		transitions = 0;
		op_copy(d, s);
		if (transitions) vf_nontrivial();
		content_desc(d1, sizeof(d1), cd); content_desc(d2, sizeof(d2), cs);
		if (sample) vf_sample("grid copy: target %s(%zu) cap %u holding %s <- source %s(%zu) cap %u holding %s", kindname[d->kind], STOR[sd].param, d->max, d1,
		          kindname[s->kind], STOR[ss].param, s->max, d2);
		finish_case();
		return;
	}
	idx -= g_copy();
	{
		unsigned s = idx / (NPREV * 4), p = (idx / 4) % NPREV, op = idx % 4;
		handle *h = h_new(STOR[s].kind, STOR[s].param);
		content cp = content_class(p, h->max);
		apply_content(h, cp, 5, 1);
		transitions = 0;
		switch (op) {
		case 0: op_clear(h, 0); break;
		case 1: op_clear(h, 1); break;
		case 2: op_copy(h, h); break;
		case 3:
			op_traits_copy(h);
			if (h->kind == KNode) op_node_clone(h);
			break;
		}
		if (transitions || (op >= 2 && explen(h) > h->max)) vf_nontrivial();
		content_desc(d1, sizeof(d1), cp);
		if (sample) vf_sample("grid %s: storage %s(%zu) capacity %u holding %s", op == 0 ? "clear" : op == 1 ? "copy from NULL" : op == 2 ? "self-copy" : "copy-construct (traits / node_clone)",
		          kindname[h->kind], STOR[s].param, h->max, d1);
		finish_case();
	}
}

/* ------------------------------------------------------------ histories */
static size_t pick_len(vf_rng *r, unsigned cap, unsigned cap2)
{
	switch (vf_below(r, 12)) {
	case 0: return vf_below(r, 4);
	case 1: case 2: case 3: { int v = (int) cap - 4 + (int) vf_below(r, 8); return v < 0 ? 0 : (size_t) v; }
	case 4: case 5: { int v = (int) cap2 - 4 + (int) vf_below(r, 8); return v < 0 ? 0 : (size_t) v; }
	case 6: return 250 + vf_below(r, 10);
	case 7: return vf_chance(r, 1, 3) ? 65530 + vf_below(r, 8) : vf_below(r, 70000);
	case 8: return vf_below(r, 600);
	default: return vf_below(r, 40);
	}
}
static void rand_content(vf_rng *r, uint8_t *dst, size_t n, int *has_nul)
{
	int mode = vf_below(r, 4);
	*has_nul = 0;
	for (size_t i = 0; i < n; i++) {
		uint8_t v;
		switch (mode) {
		case 0: v = 'a' + vf_below(r, 26); break;
		case 1: v = 0x80 + vf_below(r, 128); break;
		case 2: v = (uint8_t) vf_u64(r); if (!v && !vf_chance(r, 1, 4)) v = 1; break;
		default: v = 1 + vf_below(r, 255);
		}
		if (!v) *has_nul = 1;
		dst[i] = v;
	}
}
static handle *rand_handle(vf_rng *r)
{
	static const size_t newlens[] = { 0, 1, 27, 28, 29, 59, 60, 61, 123, 124, 125, 251, 252, 253, 1000, 65535 };
	static const size_t nodelens[] = { 0, 19, 20, 21, 23, 24, 25, 84, 87, 88, 89, 212, 215, 216, 217, 300 };
	switch (vf_below(r, 8)) {
	case 0: return h_new(KDefault, 16);
	case 1: return h_new(KStatic, 16);
	case 2: case 3: return h_new(KCustom, vf_chance(r, 1, 4) ? 250 + vf_below(r, 60) : 16 + vf_below(r, 120));
	case 4: return h_new(KNew, vf_chance(r, 1, 2) ? newlens[vf_below(r, 16)] : vf_below(r, 300));
	case 5: case 6: return h_new(KNode, vf_chance(r, 1, 2) ? nodelens[vf_below(r, 16)] : vf_below(r, 300));
	default: return h_new(KTraits, 16);
	}
}
static void case_history(vf_rng *r)
{
	static uint8_t tmp[SHMAX + 8];
	int nops = vf_range(r, 6, vf_thorough ? 40 : 28);
	int start = vf_range(r, 2, 3);
	char desc[1900];
	size_t dl = 0;
	transitions = 0; crosscopies = 0;
	for (int i = 0; i < start; i++) {
		handle *h = rand_handle(r);
		vf_fp_u64(((uint64_t) h->kind << 32) | h->param);
		dl += snprintf(desc + dl, sizeof(desc) - dl, "%s%s(%zu)cap%u", i ? "," : "ids: ", kindname[h->kind], h->param, h->max);
	}
	for (int i = 0; i < nops; i++) {
		int op = vf_below(r, 16);
		handle *a = &H[vf_below(r, nh)], *b = &H[vf_below(r, nh)];
		int nul;
		size_t n;
		if (!a->id || !b->id) continue;
		vf_fp_u64(((uint64_t) op << 56) ^ ((uint64_t) (a - H) << 48) ^ ((uint64_t) (b - H) << 40));
		switch (op) {
		case 0: case 1: case 2: case 3:
			n = pick_len(r, a->max, b->max);
			if (n > 65540) n = 65540;
			rand_content(r, tmp, n, &nul);
			vf_fp(tmp, n > 64 ? 64 : n); vf_fp_u64(n);
			op_set_text(a, tmp, n, !nul && vf_chance(r, 1, 2));
			if (dl + 30 < sizeof(desc)) dl += snprintf(desc + dl, sizeof(desc) - dl, " %d=text[%zu]", (int) (a - H), n);
			break;
		case 4:
			n = pick_len(r, a->max + 1, b->max + 1);
			if (n > 65540) n = 65540;
			vf_bytes(r, tmp, n);
			vf_fp(tmp, n > 64 ? 64 : n); vf_fp_u64(n);
			op_set_binary(a, tmp, n);
			if (dl + 30 < sizeof(desc)) dl += snprintf(desc + dl, sizeof(desc) - dl, " %d=bin[%zu]", (int) (a - H), n);
			break;
		case 5:
			op_clear(a, vf_chance(r, 1, 2));
			if (dl + 30 < sizeof(desc)) dl += snprintf(desc + dl, sizeof(desc) - dl, " %d=clear", (int) (a - H));
			break;
		case 6: case 7: case 8: case 9:
			op_copy(a, b);
			if (dl + 30 < sizeof(desc)) dl += snprintf(desc + dl, sizeof(desc) - dl, " %d<-%d", (int) (a - H), (int) (b - H));
			break;
		case 10: case 11:
			op_compare(a, r);
			if (dl + 30 < sizeof(desc)) dl += snprintf(desc + dl, sizeof(desc) - dl, " cmp%d", (int) (a - H));
			break;
		case 12: case 13:
			op_inequal(a, b);
			if (dl + 30 < sizeof(desc)) dl += snprintf(desc + dl, sizeof(desc) - dl, " %d==%d?", (int) (a - H), (int) (b - H));
			break;
		case 14:
			if (nh < MAXH) {
				if (a->kind == KNode && vf_chance(r, 1, 2)) op_node_clone(a);
				else op_traits_copy(a);
				if (dl + 30 < sizeof(desc)) dl += snprintf(desc + dl, sizeof(desc) - dl, " new<-%d", (int) (a - H));
			}
			break;
		case 15:
			/* drop one identifier (while it may hold long content), keep at least two */
			if (nh > 2 && a == &H[nh - 1]) {
				h_release(a);
				nh--;
				if (dl + 30 < sizeof(desc)) dl += snprintf(desc + dl, sizeof(desc) - dl, " drop%d", (int) (a - H));
			}
			break;
		}
	}
	inequal_all();
	if (transitions >= 2 && crosscopies >= 1) vf_nontrivial();
	vf_max("max:transitions-per-history", transitions);
	vf_sample("history %s", desc);
	release_all();
}

/* ------------------------------------------------------------------ entry */
/* ------------------------------------------------- locate in node lists */
/*
 * mpt_node_locate() on lists with several equal and near-equal names.
 * Documented meaning (source comment): pos > 0: pos-th match counting from the
 * base node forward, the base node itself included; pos < 0: |pos|-th match
 * before the base node; pos == 0: last match in the list.  A node matches when
 * its name equals the 'len' bytes handed over (charset < 0: text of len bytes;
 * charset >= 0: content of that charset whose stored length, terminator
 * included for text, is len).  Nothing behind those bytes belongs to the name.
 */
#define LMAXN 8
#define LNAME 320
typedef struct { int state; size_t n; uint8_t b[LNAME + 4]; } lname;
static int lname_eq(const lname *a, int state, const uint8_t *q, size_t n)
{
	return a->state == state && a->n == n && (!n || !memcmp(a->b, q, n));
}
static void case_locate(vf_rng *r)
{
	MPT_STRUCT(node) *nd[LMAXN];
	static lname nm[LMAXN], var[6];
	const void *ext[LMAXN];
	int count = vf_range(r, 3, LMAXN);
	size_t cap = 20, n;
	char desc[400];
	size_t dl = 0;

	/* base name length around the inline capacity of a default node, or anything */
	switch (vf_below(r, 6)) {
	case 0: n = 1 + vf_below(r, 4); break;
	case 1: case 2: n = cap - 3 + vf_below(r, 6); break;
	case 3: n = 80 + vf_below(r, 8); break;
	case 4: n = 1 + vf_below(r, 300); break;
	default: n = 2 + vf_below(r, 30);
	}
	/* variants: 0 base, 1 shorter by one, 2 longer by one, 3 last byte changed, 4 first byte changed, 5 unrelated */
	for (int v = 0; v < 6; v++) { var[v].state = SText; var[v].n = n; for (size_t i = 0; i < n + 2; i++) var[v].b[i] = (uint8_t) ('a' + vf_below(r, 26)); }
	for (int v = 1; v < 5; v++) memcpy(var[v].b, var[0].b, n);
	var[1].n = n - 1;
	var[2].n = n + 1; var[2].b[n] = (uint8_t) ('A' + vf_below(r, 26));
	var[3].b[n - 1] ^= 0x20;
	var[4].b[0] ^= 0x20;
	var[5].n = 1 + vf_below(r, 12);

	vf_fp_u64(0x10ca7e); vf_fp(var[0].b, n); vf_fp_u64(count);
	dl += snprintf(desc + dl, sizeof(desc) - dl, "locate: base name of %zu bytes, list:", n);
	int nequal = 0;
	for (int i = 0; i < count; i++) {
		int v = vf_chance(r, 2, 5) ? 0 : (int) vf_below(r, 6);
		int binary = vf_chance(r, 1, 10), unset = !binary && vf_chance(r, 1, 16);
		static const size_t nodelens[] = { 0, 0, 0, 60, 200 };
		vf_at("mpt_node_new"); vf_count("mpt_node_new", 1);
		nd[i] = mpt_node_new(vf_chance(r, 1, 3) ? var[v].n + 1 : nodelens[vf_below(r, 5)]);
		VF_CHECK(nd[i] != 0, "model:node_new:null", "mpt_node_new returned NULL");
		nm[i] = var[v];
		vf_at("mpt_identifier_set"); vf_count("mpt_identifier_set", 1);
		if (unset) {
			nm[i].state = SUnset; nm[i].n = 0;
		} else if (binary) {
			uint8_t *d = mpt_identifier_set(&nd[i]->ident, 0, (int) nm[i].n);
			VF_CHECK(d != 0 || !nm[i].n, "model:set-binary:refused", "set(node, NULL, %zu) returned NULL", nm[i].n);
			if (nm[i].n) memcpy(d, nm[i].b, nm[i].n);
			nm[i].state = nm[i].n ? SBinary : SUnset;
		} else {
			char *src = vf_xalloc(nm[i].n);
			if (nm[i].n) memcpy(src, nm[i].b, nm[i].n);
			VF_CHECK(mpt_identifier_set(&nd[i]->ident, src, (int) nm[i].n) != 0, "model:set:refused", "set(node, text %zu bytes) returned NULL", nm[i].n);
			vf_xfree(src, nm[i].n);
		}
		if (nm[i].state == SText && v == 0) nequal++;
		vf_fp_u64((uint64_t) v << 8 | nm[i].state);
		if (dl + 16 < sizeof(desc)) dl += snprintf(desc + dl, sizeof(desc) - dl, " %s%s", (const char *[]) { "B", "B-1", "B+1", "B~last", "B~first", "other" }[v],
		                                           nm[i].state == SBinary ? "(bin)" : nm[i].state == SUnset ? "(unset)" : "");
	}
	/* the list: public link fields of the node structure */
	for (int i = 0; i < count; i++) {
		nd[i]->prev = i ? nd[i - 1] : 0;
		nd[i]->next = i + 1 < count ? nd[i + 1] : 0;
	}
	/* queries */
	enum { QTerm, QPrefix, QExact, QCharset, QBinary, QModes };
	static const char *qname[QModes] = { "NUL-terminated", "front part of a longer string", "exact-size block", "charset UTF8 incl. terminator", "charset 0 (binary)" };
	for (int qv = 0; qv < 6; qv++) {
		const lname *q = &var[qv];
		for (int mode = 0; mode < QModes; mode++) {
			size_t bl, len = q->n;
			int charset = -1, want_state = SText;
			switch (mode) {
			case QTerm: bl = q->n + 1; break;
			case QPrefix: bl = q->n + 4; break;
			case QExact: bl = q->n; break;
			case QCharset: bl = q->n + 1; len = q->n + 1; charset = MPT_ENUM(CharsetUTF8); break;
			default: bl = q->n; charset = 0; want_state = SBinary; if (!q->n) continue;
			}
			uint8_t *name = vf_xalloc(bl);
			if (q->n) memcpy(name, q->b, q->n);
			if (mode == QTerm || mode == QCharset) name[q->n] = 0;
			if (mode == QPrefix) {
				/* what follows is not part of the name: a path separator, or the bytes a longer stored name continues with */
				name[q->n] = qv == 2 ? '.' : (vf_chance(r, 1, 2) ? '.' : var[2].b[q->n < n + 1 ? q->n : n]);
				name[q->n + 1] = 's'; name[q->n + 2] = 'u'; name[q->n + 3] = 'b';
			}
			for (int start = 0; start < count; start++) {
				for (int pos = -3; pos <= 3; pos++) {
					/* expectation from string equality */
					int exp = -1, left;
					if (pos > 0) {
						left = pos;
						for (int i = start; i < count; i++) if (lname_eq(&nm[i], want_state, q->b, q->n) && !--left) { exp = i; break; }
					} else if (pos < 0) {
						left = -pos;
						for (int i = start - 1; i >= 0; i--) if (lname_eq(&nm[i], want_state, q->b, q->n) && !--left) { exp = i; break; }
					} else {
						for (int i = count - 1; i >= 0; i--) if (lname_eq(&nm[i], want_state, q->b, q->n)) { exp = i; break; }
					}
					vf_at("mpt_node_locate"); vf_count("mpt_node_locate", 1);
					if (vf_logging) vf_log("locate(start %d, pos %d, variant %d, %s)", start, pos, qv, qname[mode]);
					MPT_STRUCT(node) *f = mpt_node_locate(nd[start], pos, name, len, charset);
					int got = -1;
					for (int i = 0; i < count; i++) if (f == nd[i]) got = i;
					if (f && got < 0) vf_fail("model:node_locate:foreign-node", "%s: locate(from node %d, pos %d, name of %zu bytes, %s) returned a node outside the list", desc, start, pos, q->n, qname[mode]);
					if (exp >= 0 && got < 0) {
						vf_fail(pos > 0 ? "model:node_locate:forward-missed" : pos < 0 ? "model:node_locate:backward-missed" : "model:node_locate:last-missed",
						        "%s: locate(from node %d, pos %d, name variant %d of %zu bytes handed over as %s) found nothing, node %d carries exactly these bytes", desc, start, pos, qv, q->n, qname[mode], exp);
					}
					if (exp < 0 && got >= 0) {
						vf_fail(pos > 0 ? "model:node_locate:forward-phantom" : pos < 0 ? "model:node_locate:backward-phantom" : "model:node_locate:last-phantom",
						        "%s: locate(from node %d, pos %d, name variant %d of %zu bytes handed over as %s) returned node %d, no node in reach has that name", desc, start, pos, qv, q->n, qname[mode], got);
					}
					if (exp != got) {
						vf_fail(pos > 0 ? "model:node_locate:forward-wrong-node" : pos < 0 ? "model:node_locate:backward-wrong-node" : "model:node_locate:last-wrong-node",
						        "%s: locate(from node %d, pos %d, name variant %d of %zu bytes handed over as %s) returned node %d, expected node %d", desc, start, pos, qv, q->n, qname[mode], got, exp);
					}
					if (exp >= 0) {
						vf_count(pos > 0 ? "monitor:locate-forward-hit" : pos < 0 ? "monitor:locate-backward-hit" : "monitor:locate-last-hit", 1);
						if (pos <= 0 && (mode == QPrefix || mode == QExact)) vf_count("monitor:locate-back-hit-unterminated-name", 1);
						if (pos < 0 && exp != start - 1) vf_count("monitor:locate-backward-hit-beyond-neighbour", 1);
					} else {
						vf_count("monitor:locate-miss", 1);
					}
				}
			}
			vf_xfree(name, bl);
		}
	}
	/* names and links untouched by the searches */
	for (int i = 0; i < count; i++) {
		const MPT_STRUCT(identifier) *id = &nd[i]->ident;
		size_t want = nm[i].state == SText ? nm[i].n + 1 : nm[i].n;
		VF_CHECK(id->_len == want && (!nm[i].n || !memcmp(mpt_identifier_data(id), nm[i].b, nm[i].n)), "model:node_locate:name-modified", "%s: name of node %d changed", desc, i);
		VF_CHECK(nd[i]->prev == (i ? nd[i - 1] : 0) && nd[i]->next == (i + 1 < count ? nd[i + 1] : 0), "model:node_locate:links-modified", "%s: links of node %d changed", desc, i);
		ext[i] = ext_ptr(id);
	}
	for (int i = 0; i < count; i++) nd[i]->prev = nd[i]->next = 0;
	for (int i = 0; i < count; i++) {
		vf_at("mpt_node_destroy"); vf_count("mpt_node_destroy", 1);
		VF_CHECK(!mpt_node_destroy(nd[i]), "model:node_destroy:refused", "%s: unlinked node %d not destroyed", desc, i);
		check_released("node_destroy", ext[i], 0, desc);
	}
	if (nequal >= 2) vf_nontrivial();
	vf_sample("%s; every start node x pos -3..3 x 6 name variants x 5 ways of handing the name over", desc);
}

static uint64_t n_hist(void) { return vf_thorough ? 1000000 : 20000; }
static uint64_t n_loc(void) { return vf_thorough ? 60000 : 4000; }

/* ------------------------------------------ clones of nodes with values */
/*
 * mpt_node_clone / mpt_list_clone / mpt_tree_clone copy the node name together
 * with the node's value (metatype).  The value here is a harness metatype whose
 * clone() accepts or refuses.  Accepted: names of the copy equal the source's,
 * source untouched.  Refused (anywhere in the list / tree): NULL, source
 * untouched, and nothing of the half-built copy stays allocated - neither a
 * value clone (live count of harness metatypes) nor a name (bytes in use of the
 * allocator before and after the call, and a LeakSanitizer pass in the case).
 */
typedef struct { MPT_INTERFACE(metatype) mt; uintptr_t refs; int accept; int is_clone; } hmeta;
static long hmeta_live, hmeta_clones, hmeta_refused;
static int hm_convert(MPT_INTERFACE(convertable) *val, MPT_TYPE(type) type, void *ptr)
{
	(void) val; (void) ptr;
	return type ? MPT_ERROR(BadType) : 0;
}
static void hm_unref(MPT_INTERFACE(metatype) *mt)
{
	hmeta *h = (hmeta *) mt;
	if (!h->refs) vf_fail("model:clone:value-released-twice", "unref of a value that has no reference left");
	if (--h->refs) return;
	hmeta_live--;
	free(h);
}
static uintptr_t hm_addref(MPT_INTERFACE(metatype) *mt)
{
	return ++((hmeta *) mt)->refs;
}
static MPT_INTERFACE(metatype) *hm_clone(const MPT_INTERFACE(metatype) *mt);
static const MPT_INTERFACE_VPTR(metatype) hm_ctl = { { hm_convert }, hm_unref, hm_addref, hm_clone };
static hmeta *hm_new(int accept)
{
	hmeta *h = malloc(sizeof(*h));
	if (!h) vf_inconclusive("out of memory");
	h->mt._vptr = &hm_ctl; h->refs = 1; h->accept = accept; h->is_clone = 0;
	hmeta_live++;
	return h;
}
static MPT_INTERFACE(metatype) *hm_clone(const MPT_INTERFACE(metatype) *mt)
{
	const hmeta *h = (const hmeta *) mt;
	if (!h->accept) { hmeta_refused++; return 0; }
	hmeta *c = hm_new(1);
	c->is_clone = 1;
	hmeta_clones++;
	return &c->mt;
}

#define CMAXN 8
typedef struct {
	MPT_STRUCT(node) *nd;
	int parent;                      /* index of parent, -1: top level */
	size_t n; uint8_t name[4100];
	uint8_t snap[4 + 256]; size_t snaplen; const void *ext;
	int has_meta, accept;
} cnode;
static cnode CN[CMAXN];
static int ncn;
static const size_t CLONE_LENS[] = { 0, 1, 11, 18, 19, 20, 21, 22, 82, 83, 84, 85, 86, 210, 211, 212, 213, 214, 300, 4000 };
#define NCLONE_LENS (sizeof(CLONE_LENS) / sizeof(*CLONE_LENS))
static int cn_add(int parent, size_t len, unsigned salt, size_t nodesize, int meta)
{
	cnode *c = &CN[ncn];
	vf_at("mpt_node_new"); vf_count("mpt_node_new", 1);
	c->nd = mpt_node_new(nodesize);
	VF_CHECK(c->nd != 0, "model:node_new:null", "mpt_node_new(%zu) returned NULL", nodesize);
	c->parent = parent; c->n = len;
	gen_bytes(c->name, len, salt, 0);
	char *src = vf_xalloc(len);
	if (len) memcpy(src, c->name, len);
	vf_at("mpt_identifier_set"); vf_count("mpt_identifier_set", 1);
	VF_CHECK(mpt_identifier_set(&c->nd->ident, src, (int) len) != 0, "model:set:refused", "set(node, text %zu bytes) returned NULL", len);
	vf_xfree(src, len);
	c->has_meta = meta != 0; c->accept = meta == 1;
	if (meta) c->nd->_meta = &hm_new(meta == 1)->mt;
	return ncn++;
}
static void cn_link(void)
{
	for (int i = 0; i < ncn; i++) {
		MPT_STRUCT(node) *prev = 0;
		for (int j = 0; j < ncn; j++) {
			if (CN[j].parent != i) continue;
			CN[j].nd->parent = CN[i].nd;
			CN[j].nd->prev = prev;
			if (prev) prev->next = CN[j].nd; else CN[i].nd->children = CN[j].nd;
			prev = CN[j].nd;
		}
	}
	/* top level nodes form a list */
	MPT_STRUCT(node) *prev = 0;
	for (int j = 0; j < ncn; j++) {
		if (CN[j].parent >= 0) continue;
		CN[j].nd->prev = prev;
		if (prev) prev->next = CN[j].nd;
		prev = CN[j].nd;
	}
	for (int i = 0; i < ncn; i++) {
		const MPT_STRUCT(identifier) *id = &CN[i].nd->ident;
		CN[i].snaplen = 4 + id->_max;
		memcpy(CN[i].snap, id, CN[i].snaplen);
		CN[i].ext = ext_ptr(id);
	}
}
static void cn_source_unchanged(const char *ctx)
{
	for (int i = 0; i < ncn; i++) {
		const MPT_STRUCT(identifier) *id = &CN[i].nd->ident;
		VF_CHECK(!memcmp(CN[i].snap, id, CN[i].snaplen) && CN[i].ext == ext_ptr(id), "model:clone:source-modified", "%s: name object of source node %d changed", ctx, i);
		VF_CHECK(id->_len == CN[i].n + 1 && (!CN[i].n || !memcmp(mpt_identifier_data(id), CN[i].name, CN[i].n)), "model:clone:source-modified", "%s: name of source node %d changed", ctx, i);
	}
	vf_count("monitor:source-unchanged", 1);
}
/* compare clone subtree with source nodes: names, order, children */
static int cn_compare(const MPT_STRUCT(node) *c, int parent, int only, const char *ctx)
{
	int count = 0;
	for (int i = 0; i < ncn; i++) {
		if (only >= 0 ? i != only : CN[i].parent != parent) continue;
		VF_CHECK(c != 0, "model:clone:node-missing", "%s: copy of source node %d is missing", ctx, i);
		const MPT_STRUCT(identifier) *id = &c->ident;
		VF_CHECK(id->_len == CN[i].n + 1 && (!CN[i].n || !memcmp(mpt_identifier_data(id), CN[i].name, CN[i].n)) && !((const char *) mpt_identifier_data(id))[CN[i].n], "model:clone:name",
		         "%s: copy of source node %d: name of %u bytes %s.., expected %zu bytes %s..", ctx, i, id->_len, vf_hex(hx1, sizeof(hx1), mpt_identifier_data(id), id->_len > 24 ? 24 : id->_len),
		         CN[i].n + 1, vf_hex(hx2, sizeof(hx2), CN[i].name, CN[i].n > 24 ? 24 : CN[i].n));
		VF_CHECK(!mpt_identifier_inequal(id, &CN[i].nd->ident), "model:clone:name", "%s: copy of source node %d: mpt_identifier_inequal reports a difference", ctx, i);
		VF_CHECK(!is_ext(id) || id->_base != CN[i].nd->ident._base, "model:clone:shared-storage", "%s: copy of source node %d shares the name block", ctx, i);
		VF_CHECK((c->_meta != 0) == CN[i].has_meta && (!c->_meta || c->_meta != CN[i].nd->_meta), "model:clone:value", "%s: copy of source node %d: value %p, source value %p", ctx, i, (void *) c->_meta, (void *) CN[i].nd->_meta);
		vf_count("monitor:clone-name-compared", 1);
		count++;
		if (only < 0 || parent == -2) count += cn_compare(c->children, i, -1, ctx);   /* subtrees of list / tree clones */
		if (only >= 0) return count;
		c = c->next;
	}
	if (only < 0) VF_CHECK(c == 0, "model:clone:extra-node", "%s: copy has more nodes than the source", ctx);
	return count;
}
static void cn_destroy_list(MPT_STRUCT(node) *first, const char *ctx)
{
	while (first) {
		MPT_STRUCT(node) *next = first->next;
		first->next = first->prev = first->parent = 0;
		vf_at("mpt_node_destroy"); vf_count("mpt_node_destroy", 1);
		VF_CHECK(!mpt_node_destroy(first), "model:node_destroy:refused", "%s: node not destroyed", ctx);
		first = next;
	}
}
static uint64_t n_clone(void) { return NCLONE_LENS * 4 * 3 * 6; }
static void case_clone(uint64_t idx)
{
	size_t L = CLONE_LENS[idx % NCLONE_LENS];
	int sizing = (idx / NCLONE_LENS) % 4, shape = (idx / (NCLONE_LENS * 4)) % 3, var = (idx / (NCLONE_LENS * 12)) % 6;
	static const char *shapes[] = { "mpt_node_clone", "mpt_list_clone", "mpt_tree_clone" };
	size_t nodesize = sizing == 0 ? 0 : sizing == 1 ? 60 : sizing == 2 ? 200 : L + 1;
	char ctx[200];
	int refuse_at = -1;      /* index of the node whose value refuses to be cloned */
	ncn = 0;
	vf_fp_u64(0xc10e0000 + idx);
	/*
	 * value variants: 0 no values, 1 all accept, 2..5 one refuses (position by shape)
	 * source: node clone: node 0 (with one child that is not part of a node clone);
	 * list: 0,1,2 top level, 3 child of 1; tree: 0 root, 1..3 children, 4 child of 2
	 */
	long live0 = hmeta_live;
	if (shape == 0) {
		refuse_at = var >= 2 ? 0 : -1;
		cn_add(-1, L, 1, nodesize, var == 0 ? 0 : var >= 2 ? 2 : 1);
		cn_add(0, L ? L - 1 : 1, 2, 0, var == 0 ? 0 : 1);
	} else if (shape == 1) {
		refuse_at = var >= 2 ? var - 2 : -1;
		for (int i = 0; i < 3; i++) cn_add(-1, L + (i == 1), 1 + i, i == 2 ? 0 : nodesize, var == 0 ? 0 : refuse_at == i ? 2 : (i == 1 && var == 1) ? 0 : 1);
		cn_add(1, L, 7, nodesize, var == 0 ? 0 : refuse_at == 3 ? 2 : 1);
	} else {
		static const int at[] = { -1, -1, 0, 1, 3, 4 };
		refuse_at = at[var];
		cn_add(-1, L, 1, nodesize, var == 0 ? 0 : refuse_at == 0 ? 2 : 1);
		for (int i = 1; i <= 3; i++) cn_add(0, L + (i == 2), 1 + i, i == 1 ? 0 : nodesize, var == 0 ? 0 : refuse_at == i ? 2 : 1);
		cn_add(2, L, 9, nodesize, var == 0 ? 0 : refuse_at == 4 ? 2 : 1);
	}
	cn_link();
	snprintf(ctx, sizeof(ctx), "%s, names of about %zu bytes in nodes of mpt_node_new(%zu) (inline capacity %u), %s", shapes[shape], L, nodesize, CN[0].nd->ident._max,
	         var == 0 ? "no values" : refuse_at < 0 ? "all values clonable" : "one value refuses to be cloned");
	vf_log("%s (refusing node %d)", ctx, refuse_at);
	long clones0 = hmeta_clones, live1 = hmeta_live;
	size_t heap0 = HEAP_IN_USE();
	MPT_STRUCT(node) *copy;
	vf_at(shapes[shape]); vf_count(shapes[shape], 1);
	switch (shape) {
	case 0: copy = mpt_node_clone(CN[0].nd); break;
	case 1: copy = mpt_list_clone(CN[0].nd); break;
	default: copy = mpt_tree_clone(CN[0].nd);
	}
	size_t heap1 = HEAP_IN_USE();
	cn_source_unchanged(ctx);
	int any_long = 0;
	for (int i = 0; i < ncn; i++) if (is_ext(&CN[i].nd->ident)) any_long = 1;
	if (refuse_at >= 0) {
		VF_CHECK(copy == 0, "model:clone:refusal-ignored", "%s: a copy was returned although the value of node %d cannot be cloned", ctx, refuse_at);
		VF_CHECK(hmeta_live == live1, "model:clone:value-leaked", "%s: refused, but %ld value clone(s) of the abandoned copy are still alive", ctx, hmeta_live - live1);
		if (HAVE_ASAN) VF_CHECK(heap1 == heap0, "model:clone:memory-kept-after-refusal", "%s: refused, but %zd bytes allocated during the call are still in use (name storage of the abandoned copy)", ctx, (ssize_t) (heap1 - heap0));
		vf_count("clone:refused", 1);
		if (is_ext(&CN[refuse_at].nd->ident)) vf_count("clone:refused-node-has-out-of-line-name", 1);
		else if (any_long) vf_count("clone:refused-other-node-has-out-of-line-name", 1);
	} else {
		VF_CHECK(copy != 0, "model:clone:refused", "%s: returned NULL", ctx);
		int expect = shape == 0 ? 1 : ncn, metas = 0;
		for (int i = 0; i < (shape == 0 ? 1 : ncn); i++) metas += CN[i].has_meta;
		int got = shape == 0 ? cn_compare(copy, -1, 0, ctx) : shape == 1 ? cn_compare(copy, -1, -1, ctx) : cn_compare(copy, -2, 0, ctx);
		VF_CHECK(got == expect, "model:clone:node-count", "%s: copy has %d nodes, source %d", ctx, got, expect);
		if (shape == 0) VF_CHECK(!copy->children && !copy->next, "model:clone:extra-node", "%s: copy of a single node has relatives", ctx);
		VF_CHECK(hmeta_clones - clones0 == metas, "model:clone:value", "%s: %ld values cloned for %d nodes with value", ctx, hmeta_clones - clones0, metas);
		cn_destroy_list(copy, ctx);
		VF_CHECK(hmeta_live == live1, "model:clone:value-leaked", "%s: copy destroyed, %ld value clone(s) still alive", ctx, hmeta_live - live1);
		if (HAVE_ASAN) VF_CHECK(HEAP_IN_USE() == heap0, "model:clone:memory-kept-after-destroy", "%s: copy destroyed, %zd bytes of it still in use", ctx, (ssize_t) (HEAP_IN_USE() - heap0));
		vf_count("clone:accepted", 1);
		if (any_long) vf_count("clone:accepted-with-out-of-line-name", 1);
	}
	/* source goes away */
	const void *ext[CMAXN];
	for (int i = 0; i < ncn; i++) ext[i] = ext_ptr(&CN[i].nd->ident);
	MPT_STRUCT(node) *top = CN[0].nd;
	cn_destroy_list(top, ctx);
	for (int i = 0; i < ncn; i++) check_released("node_destroy", ext[i], 0, ctx);
	VF_CHECK(hmeta_live == live0, "model:clone:value-leaked", "%s: source destroyed, %ld value(s) still alive", ctx, hmeta_live - live0);
	if (any_long) vf_nontrivial();
	vf_at("leak-check"); vf_count("monitor:clone-leak-check", 1);
	if (vf_leak_check()) vf_fail("model:clone:leaked-memory", "%s: LeakSanitizer finds unreachable memory after the case", ctx);
	if (idx % 97 == 13) vf_sample("clone: %s", ctx);
}


/* ------------------------------------------------ node_move merges by name */
/*
 * mpt_node_move(&from, dst) merges a source list into a target list: a source
 * node whose name no target node carries is moved (appended), one whose name is
 * present stays and hands its children over (merged the same way when the
 * target node has children, re-parented otherwise).  "Same name" is decided on
 * the stored name: kind, length and every byte - also behind an embedded NUL,
 * for binary and for absent names.  Model: the same procedure on lists of
 * (kind, bytes) names.
 */
#define MMAXN 24
#define MSRC MMAXN
#define MDST (MMAXN + 1)
typedef struct { MPT_STRUCT(node) *nd; int state; size_t n; uint8_t name[340]; int var; const void *ext; } mnode;
static mnode MN[MMAXN];
static int nmn;
static int mlist[MMAXN + 2][MMAXN], mcount[MMAXN + 2];
static long mv_merged, mv_merged_nul, mv_apart_prefix, mv_unnamed_merged, mv_moved;
static int m_eq(const mnode *a, const mnode *b)
{
	int ta = a->state == SText, tb = b->state == SText;
	return ta == tb && a->n == b->n && (!a->n || !memcmp(a->name, b->name, a->n));
}
static void m_append(int list, int node) { mlist[list][mcount[list]++] = node; }
static void m_remove(int list, int node)
{
	int j = 0;
	for (int i = 0; i < mcount[list]; i++) if (mlist[list][i] != node) mlist[list][j++] = mlist[list][i];
	mcount[list] = j;
}
static size_t m_move(int src, int dst)
{
	size_t count = 0;
	int order[MMAXN], n = mcount[src];
	memcpy(order, mlist[src], n * sizeof(int));
	for (int i = 0; i < n; i++) {
		int s = order[i], d = -1;
		for (int j = 0; j < mcount[dst]; j++) if (m_eq(&MN[s], &MN[mlist[dst][j]])) { d = mlist[dst][j]; break; }
		if (d < 0) {
			/* near misses the name comparison has to tell apart */
			for (int j = 0; j < mcount[dst]; j++) {
				const mnode *t = &MN[mlist[dst][j]], *a = &MN[s];
				const mnode *lo = a->n > t->n ? t : a, *hi = a->n > t->n ? a : t;
				if (a->state == SText && t->state == SText && lo->n < hi->n && !memcmp(lo->name, hi->name, lo->n) && !hi->name[lo->n]) { mv_apart_prefix++; break; }
			}
			m_remove(src, s); m_append(dst, s); count++; mv_moved++;
			continue;
		}
		mv_merged++;
		if (MN[s].n && memchr(MN[s].name, 0, MN[s].n)) mv_merged_nul++;
		if (!MN[s].n && MN[s].state != SText) mv_unnamed_merged++;
		if (!mcount[s]) continue;
		if (mcount[d]) count += m_move(s, d);
		else {
			for (int j = 0; j < mcount[s]; j++) { m_append(d, mlist[s][j]); count++; }
			mcount[s] = 0;
		}
	}
	return count;
}
static int m_new(vf_rng *r, const mnode *pool, int npool, size_t nodesize_hint)
{
	static const size_t sizes[] = { 0, 0, 60, 200 };
	mnode *m = &MN[nmn];
	int v = vf_chance(r, 1, 2) ? (int) vf_below(r, 4) : (int) vf_below(r, npool);
	*m = pool[v];
	m->var = v;
	vf_at("mpt_node_new"); vf_count("mpt_node_new", 1);
	m->nd = mpt_node_new(vf_chance(r, 1, 4) ? nodesize_hint : sizes[vf_below(r, 4)]);
	VF_CHECK(m->nd != 0, "model:node_new:null", "mpt_node_new returned NULL");
	vf_at("mpt_identifier_set"); vf_count("mpt_identifier_set", 1);
	if (m->state == SText) {
		char *src = vf_xalloc(m->n);
		if (m->n) memcpy(src, m->name, m->n);
		VF_CHECK(mpt_identifier_set(&m->nd->ident, src, (int) m->n) != 0, "model:set:refused", "set(node, text %zu bytes) returned NULL", m->n);
		vf_xfree(src, m->n);
	} else if (m->state == SBinary) {
		uint8_t *d = mpt_identifier_set(&m->nd->ident, 0, (int) m->n);
		VF_CHECK(d != 0, "model:set-binary:refused", "set(node, NULL, %zu) returned NULL", m->n);
		memcpy(d, m->name, m->n);
	}
	mcount[nmn] = 0;
	return nmn++;
}
static void m_link(int list, MPT_STRUCT(node) *parent)
{
	MPT_STRUCT(node) *prev = 0;
	for (int i = 0; i < mcount[list]; i++) {
		MPT_STRUCT(node) *n = MN[mlist[list][i]].nd;
		n->parent = parent; n->prev = prev; n->next = 0;
		if (prev) prev->next = n; else if (parent) parent->children = n;
		prev = n;
	}
}
static int m_visited[MMAXN];
static void m_verify_list(int list, const MPT_STRUCT(node) *first, const MPT_STRUCT(node) *parent, const char *ctx, const char *lname)
{
	const MPT_STRUCT(node) *prev = 0, *c = first;
	for (int i = 0; i < mcount[list]; i++, prev = c, c = c->next) {
		int want = mlist[list][i], got = -1;
		VF_CHECK(c != 0, "model:node_move:node-lost", "%s: %s ends after %d nodes, model has %d (node %d '%s..' missing)", ctx, lname, i, mcount[list], want, vf_hex(hx1, 40, MN[want].name, MN[want].n > 12 ? 12 : MN[want].n));
		for (int j = 0; j < nmn; j++) if (MN[j].nd == c) got = j;
		VF_CHECK(got >= 0, "model:node_move:foreign-node", "%s: %s holds a node that is not part of the case", ctx, lname);
		if (got != want) {
			int inlist = 0;
			for (int j = 0; j < mcount[list]; j++) if (mlist[list][j] == got) inlist = 1;
			vf_fail(inlist ? "model:node_move:order" : "model:node_move:wrong-place", "%s: position %d of %s holds node %d (name variant %d), model expects node %d (variant %d)", ctx, i, lname, got, MN[got].var, want, MN[want].var);
		}
		VF_CHECK(!m_visited[got]++, "model:node_move:node-twice", "%s: node %d is reachable twice", ctx, got);
		VF_CHECK(c->prev == prev && c->parent == parent, "model:node_move:links", "%s: node %d in %s: prev/parent links do not match its place", ctx, got, lname);
		char sub[48];
		snprintf(sub, sizeof(sub), "children of node %d", got);
		m_verify_list(got, c->children, c, ctx, sub);
	}
	VF_CHECK(c == 0, "model:node_move:extra-node", "%s: %s has more nodes than the model (%d)", ctx, lname, mcount[list]);
}
static uint64_t n_move(void) { return vf_thorough ? 150000 : 8000; }
static void case_move(vf_rng *r)
{
	static mnode pool[12];
	static const size_t lens[] = { 5, 5, 4, 19, 20, 21, 22, 84, 85, 213 };
	size_t n = lens[vf_below(r, 10)], k = vf_chance(r, 1, 2) ? 2 : 1 + vf_below(r, (uint32_t) n - 2);
	char ctx[220];
	int np = 0;
	nmn = 0;
	memset(mcount, 0, sizeof(mcount));
	memset(m_visited, 0, sizeof(m_visited));
	/* name pool: 0 text with embedded NUL, 1 its C-string prefix, 2 same up to the NUL but other tail, 3 plain text of that length,
	 * 4 one byte longer, 5 absent, 6 empty text, 7 binary with the bytes of 0, 8 binary prefix, 9 unrelated */
	for (int v = 0; v < 10; v++) { pool[v].state = SText; pool[v].n = n; for (size_t i = 0; i < n + 1; i++) pool[v].name[i] = (uint8_t) ('a' + vf_below(r, 26)); }
	for (int v = 1; v < 9; v++) memcpy(pool[v].name, pool[0].name, n + 1);
	pool[0].name[k] = 0;
	pool[1].n = k;
	pool[2].name[k] = 0; pool[2].name[n - 1] ^= 0x01;
	pool[4].n = n + 1;
	pool[5].state = SUnset; pool[5].n = 0;
	pool[6].n = 0;
	pool[7].state = SBinary; pool[7].name[k] = 0;
	pool[8].state = SBinary; pool[8].n = k;
	pool[9].n = 2;
	np = 10;
	vf_fp_u64(0x30fe); vf_fp(pool[0].name, n); vf_fp_u64(k);
	/* trees */
	for (int side = 0; side < 2; side++) {
		int top = 1 + vf_below(r, 4);
		for (int i = 0; i < top && nmn < (side ? MMAXN - 6 : 10); i++) {
			int t = m_new(r, pool, np, n + 1);
			m_append(side ? MDST : MSRC, t);
			int nc = vf_chance(r, 1, 3) ? 0 : 1 + vf_below(r, 3);
			for (int c = 0; c < nc && nmn < MMAXN - 3; c++) {
				int ch = m_new(r, pool, np, n + 1);
				m_append(t, ch);
				if (vf_chance(r, 1, 3) && nmn < MMAXN - 2) m_append(ch, m_new(r, pool, np, n + 1));
			}
		}
	}
	for (int i = 0; i < nmn; i++) { m_link(i, MN[i].nd); vf_fp_u64((uint64_t) MN[i].var << 8 | mcount[i]); }
	m_link(MSRC, 0); m_link(MDST, 0);
	for (int i = 0; i < nmn; i++) MN[i].ext = ext_ptr(&MN[i].nd->ident);
	snprintf(ctx, sizeof(ctx), "node_move: %d source and %d target top nodes, %d nodes in all, names from a %zu byte name with NUL at %zu", mcount[MSRC], mcount[MDST], nmn, n, k);
	if (vf_logging) {
		for (int i = 0; i < nmn; i++) vf_log("node %d: name variant %d, %d children", i, MN[i].var, mcount[i]);
	}
	size_t heap0 = HEAP_IN_USE();
	long merged0 = mv_merged, nul0 = mv_merged_nul, apart0 = mv_apart_prefix, un0 = mv_unnamed_merged, moved0 = mv_moved;
	if (!mcount[MSRC] || !mcount[MDST]) vf_inconclusive("harness: empty list in node_move case");
	MPT_STRUCT(node) *from = MN[mlist[MSRC][0]].nd, *dst = MN[mlist[MDST][0]].nd;   /* heads before the call */
	size_t want = m_move(MSRC, MDST);
	vf_at("mpt_node_move"); vf_count("mpt_node_move", 1);
	size_t got = mpt_node_move(&from, dst);
	VF_CHECK(got == want, "model:node_move:count", "%s: returned %zu, model moves %zu nodes", ctx, got, want);
	VF_CHECK(HEAP_IN_USE() == heap0, "model:node_move:allocation", "%s: allocator bytes in use changed by %zd during the call", ctx, (ssize_t) (HEAP_IN_USE() - heap0));
	VF_CHECK(from == (mcount[MSRC] ? MN[mlist[MSRC][0]].nd : 0), "model:node_move:source-head", "%s: source list head after the call does not match the model (%d nodes stay)", ctx, mcount[MSRC]);
	m_verify_list(MSRC, from, 0, ctx, "source list");
	m_verify_list(MDST, dst, 0, ctx, "target list");
	for (int i = 0; i < nmn; i++) {
		const MPT_STRUCT(identifier) *id = &MN[i].nd->ident;
		size_t len = MN[i].state == SText ? MN[i].n + 1 : MN[i].n;
		VF_CHECK(m_visited[i] == 1, "model:node_move:node-lost", "%s: node %d is no longer reachable", ctx, i);
		VF_CHECK(id->_len == len && (!MN[i].n || !memcmp(mpt_identifier_data(id), MN[i].name, MN[i].n)) && ext_ptr(id) == MN[i].ext, "model:node_move:name-modified", "%s: name of node %d changed", ctx, i);
	}
	vf_count("move:moved", mv_moved - moved0);
	vf_count("move:merged", mv_merged - merged0);
	vf_count("move:merged-name-with-embedded-nul", mv_merged_nul - nul0);
	vf_count("move:kept-apart-from-c-string-prefix", mv_apart_prefix - apart0);
	vf_count("move:merged-unnamed", mv_unnamed_merged - un0);
	vf_count("monitor:move-structure-verified", 1);
	if (mv_merged_nul - nul0 || mv_apart_prefix - apart0 || mv_unnamed_merged - un0) vf_nontrivial();
	/* release audit */
	cn_destroy_list(from, ctx);
	cn_destroy_list(dst, ctx);
	for (int i = 0; i < nmn; i++) check_released("node_destroy", MN[i].ext, 0, ctx);
	vf_sample("%s: %zu moved", ctx, want);
}

uint64_t vf_cases(void) { return n_grid() + n_hist() + n_loc() + n_clone() + n_move(); }

void vf_case(uint64_t idx, vf_rng *r)
{
	nh = 0;
	if (idx < n_grid()) { case_grid(idx); return; }
	idx -= n_grid();
	if (idx < n_hist()) { case_history(r); return; }
	idx -= n_hist();
	if (idx < n_loc()) { case_locate(r); return; }
	idx -= n_loc();
	if (idx < n_clone()) { case_clone(idx); return; }
	case_move(r);
}
