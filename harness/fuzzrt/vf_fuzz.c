/*
 * vf runtime for libFuzzer targets: same reporting API as vf.c, no main().
 * A violation prints "VF_FAIL key=<key> :: <detail>" and aborts, so libFuzzer
 * stores the input as artifact; counters are written at exit to $VF_FUZZ_STATS.
 */
#define _GNU_SOURCE
#include "vf.h"
#include <stdarg.h>
#include <stdlib.h>
#include <unistd.h>

int vf_thorough = 1;
int vf_logging = 0;
uint64_t vf_seed = 1;

#define MAXC 256
static struct { char name[56]; uint64_t val; int ismax; } cnt[MAXC];
static int ncnt;
static char at[64];

static void dump(void)
{
	const char *p = getenv("VF_FUZZ_STATS");
	FILE *f;
	if (!p || !(f = fopen(p, "w"))) return;
	for (int i = 0; i < ncnt; i++) fprintf(f, "%s %llu\n", cnt[i].name, (unsigned long long) cnt[i].val);
	fclose(f);
}
static int slot(const char *name, int ismax)
{
	static int reg;
	if (!reg) { reg = 1; atexit(dump); vf_logging = getenv("VF_FUZZ_LOG") != 0; }
	for (int i = 0; i < ncnt; i++) if (!strncmp(cnt[i].name, name, sizeof(cnt[i].name) - 1)) return i;
	if (ncnt >= MAXC) return -1;
	strncpy(cnt[ncnt].name, name, sizeof(cnt[ncnt].name) - 1);
	cnt[ncnt].ismax = ismax;
	return ncnt++;
}
void vf_count(const char *name, uint64_t add) { int s = slot(name, 0); if (s >= 0) cnt[s].val += add; }
void vf_max(const char *name, uint64_t v) { int s = slot(name, 1); if (s >= 0 && cnt[s].val < v) cnt[s].val = v; }
void vf_at(const char *api) { strncpy(at, api, sizeof(at) - 1); }
void vf_log(const char *fmt, ...)
{
	va_list ap;
	if (!vf_logging) return;
	va_start(ap, fmt); vfprintf(stderr, fmt, ap); va_end(ap); fputc('\n', stderr);
}
void vf_fp(const void *p, size_t n) { (void) p; (void) n; }
void vf_fp_u64(uint64_t v) { (void) v; }
void vf_nontrivial(void) { }
void vf_sample(const char *fmt, ...) { (void) fmt; }
int vf_known(const char *key)
{
	const char *p = getenv("VF_KNOWN");
	size_t n = strlen(key);
	while (p && *p) {
		const char *e = strchr(p, ',');
		size_t l = e ? (size_t) (e - p) : strlen(p);
		if (l == n && !memcmp(p, key, n)) { char nm[56]; snprintf(nm, sizeof(nm), "known:%s", key); vf_count(nm, 1); return 1; }
		p = e ? e + 1 : 0;
	}
	return 0;
}
void vf_fail(const char *key, const char *fmt, ...)
{
	va_list ap;
	fprintf(stderr, "VF_FAIL key=%s @%s :: ", key, at);
	va_start(ap, fmt); vfprintf(stderr, fmt, ap); va_end(ap);
	fputc('\n', stderr);
	fflush(stderr);
	dump();
	abort();
}
void vf_inconclusive(const char *fmt, ...)
{
	va_list ap;
	fprintf(stderr, "VF_INCONCLUSIVE ");
	va_start(ap, fmt); vfprintf(stderr, fmt, ap); va_end(ap);
	fputc('\n', stderr);
	_exit(4);
}
char *vf_hex(char *dst, size_t dstlen, const void *p, size_t n)
{
	static const char hx[] = "0123456789abcdef";
	const uint8_t *b = p;
	size_t o = 0;
	for (size_t i = 0; i < n; i++) {
		if (o + 6 >= dstlen) { if (o + 3 < dstlen) { dst[o++] = '.'; dst[o++] = '.'; } break; }
		dst[o++] = hx[b[i] >> 4]; dst[o++] = hx[b[i] & 15];
	}
	if (dstlen) dst[o < dstlen ? o : dstlen - 1] = 0;
	return dst;
}
void *vf_xalloc(size_t n)
{
	void *p = malloc(n ? n : 1);
	if (!p) vf_inconclusive("out of memory");
	return p;
}
void vf_xfree(void *p, size_t n) { (void) n; free(p); }
int vf_leak_check(void) { return 0; }
/* PRNG for targets that derive structure from a seed inside the input */
static uint64_t sm(uint64_t *x) { uint64_t z = (*x += 0x9e3779b97f4a7c15ULL); z = (z ^ (z >> 30)) * 0xbf58476d1ce4e5b9ULL; z = (z ^ (z >> 27)) * 0x94d049bb133111ebULL; return z ^ (z >> 31); }
void vf_seed_rng(vf_rng *r, uint64_t a, uint64_t b) { uint64_t x = a * 0x9e3779b97f4a7c15ULL ^ (b + 0x632be59bd9b4e019ULL); for (int i = 0; i < 4; i++) r->s[i] = sm(&x); }
static inline uint64_t rotl(uint64_t x, int k) { return (x << k) | (x >> (64 - k)); }
uint64_t vf_u64(vf_rng *r) { uint64_t *s = r->s, result = rotl(s[1] * 5, 7) * 9, t = s[1] << 17; s[2] ^= s[0]; s[3] ^= s[1]; s[1] ^= s[2]; s[0] ^= s[3]; s[2] ^= t; s[3] = rotl(s[3], 45); return result; }
uint32_t vf_below(vf_rng *r, uint32_t n) { return n <= 1 ? 0 : (uint32_t) (((vf_u64(r) >> 32) * (uint64_t) n) >> 32); }
int vf_range(vf_rng *r, int lo, int hi) { return hi <= lo ? lo : lo + (int) vf_below(r, (uint32_t) (hi - lo) + 1u); }
int vf_chance(vf_rng *r, unsigned num, unsigned den) { return vf_below(r, den) < num; }
void vf_bytes(vf_rng *r, void *dst, size_t n) { uint8_t *d = dst; while (n) { uint64_t v = vf_u64(r); size_t k = n < 8 ? n : 8; memcpy(d, &v, k); d += k; n -= k; } }
double vf_unit(vf_rng *r) { return (double) (vf_u64(r) >> 11) * (1.0 / 9007199254740992.0); }
