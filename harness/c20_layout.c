/*
 * C20: layout object properties round-trip and do not interfere (C leg).
 *
 * Objects axis/line/text/graph/world are driven through mpt_<kind>_set/get/
 * init/fini with a harness convertable that holds one typed value and
 * answers conversion requests exactly or refuses (it records what it
 * delivered).  After every call the complete property list of the object
 * (get by index) and the raw object bytes are compared with a snapshot:
 *
 *   refused (< 0)     nothing changed (properties, raw bytes)
 *   accepted          the target property equals the value the convertable
 *                     delivered last (converted to the declared type); when
 *                     nothing was delivered (NULL source = reset, or the
 *                     source answered "no value") it equals the value of a
 *                     freshly initialised object; every other property is
 *                     unchanged
 *   copy              ("" / NULL name with an object typed source) all
 *                     properties equal the source's, strings are separate
 *                     allocations, the source is unchanged
 * The same through mpt_object_set_string() on an object interface wrapped
 * around the structure (text values), and mpt_color_parse against a
 * reference parser.
 */
#define _GNU_SOURCE
#include <stdlib.h>
#include <stdarg.h>
#include <errno.h>
#include <math.h>
#include <float.h>
#include <limits.h>
#include <ctype.h>
#include <sys/uio.h>

#include "meta.h"
#include "convert.h"
#include "types.h"
#include "object.h"
#include "node.h"
#include "values.h"
#include "layout.h"
#include "vf.h"

const char *vf_name = "c20_layout";

/* ------------------------------------------------------------------- kinds */
enum { KAxis, KLine, KText, KGraph, KWorld, NKinds };
static const char *kname[NKinds] = { "axis", "line", "text", "graph", "world" };
typedef union {
	MPT_STRUCT(axis) axis;
	MPT_STRUCT(line) line;
	MPT_STRUCT(text) text;
	MPT_STRUCT(graph) graph;
	MPT_STRUCT(world) world;
} ostore;
static size_t osize(int k)
{
	switch (k) {
	case KAxis: return sizeof(MPT_STRUCT(axis));
	case KLine: return sizeof(MPT_STRUCT(line));
	case KText: return sizeof(MPT_STRUCT(text));
	case KGraph: return sizeof(MPT_STRUCT(graph));
	default: return sizeof(MPT_STRUCT(world));
	}
}
static char apibuf[3][32];
static const char *api(int k, const char *fcn)
{
	static int n;
	char *s = apibuf[n++ % 3];
	snprintf(s, 32, "mpt_%s_%s", kname[k], fcn);
	return s;
}
static const char *api_set[NKinds] = { "mpt_axis_set", "mpt_line_set", "mpt_text_set", "mpt_graph_set", "mpt_world_set" };
static const char *api_get[NKinds] = { "mpt_axis_get", "mpt_line_get", "mpt_text_get", "mpt_graph_get", "mpt_world_get" };

static int o_set(int k, ostore *o, const char *name, MPT_INTERFACE(convertable) *src)
{
	vf_at(api_set[k]);
	vf_count(api_set[k], 1);
	switch (k) {
	case KAxis: return mpt_axis_set(&o->axis, name, src);
	case KLine: return mpt_line_set(&o->line, name, src);
	case KText: return mpt_text_set(&o->text, name, src);
	case KGraph: return mpt_graph_set(&o->graph, name, src);
	default: return mpt_world_set(&o->world, name, src);
	}
}
static int o_get(int k, const ostore *o, MPT_STRUCT(property) *pr)
{
	vf_at(api_get[k]);
	switch (k) {
	case KAxis: return mpt_axis_get(&o->axis, pr);
	case KLine: return mpt_line_get(&o->line, pr);
	case KText: return mpt_text_get(&o->text, pr);
	case KGraph: return mpt_graph_get(&o->graph, pr);
	default: return mpt_world_get(&o->world, pr);
	}
}
static void o_init(int k, ostore *o, const ostore *from)
{
	vf_at(api(k, "init"));
	memset(o, 0, sizeof(*o));
	switch (k) {
	case KAxis: mpt_axis_init(&o->axis, from ? &from->axis : 0); break;
	case KLine: if (from) o->line = from->line; else mpt_line_init(&o->line); break;
	case KText: mpt_text_init(&o->text, from ? &from->text : 0); break;
	case KGraph: mpt_graph_init(&o->graph, from ? &from->graph : 0); break;
	default: mpt_world_init(&o->world, from ? &from->world : 0);
	}
}
static void o_fini(int k, ostore *o)
{
	vf_at(api(k, "fini"));
	switch (k) {
	case KAxis: mpt_axis_fini(&o->axis); break;
	case KLine: break;
	case KText: mpt_text_fini(&o->text); break;
	case KGraph: mpt_graph_fini(&o->graph); break;
	default: mpt_world_fini(&o->world);
	}
}
static int ptr_typeid(int k)
{
	switch (k) {
	case KAxis: return mpt_axis_pointer_typeid();
	case KLine: return mpt_line_typeid();
	case KText: return mpt_text_pointer_typeid();
	case KGraph: return mpt_graph_pointer_typeid();
	default: return mpt_world_pointer_typeid();
	}
}

/* ------------------------------------------------------ harness convertable */
enum { VNone, VInt, VUint, VFlt, VChar, VStr, VColor, VLattr, VFpoint, VLine, VPtr, VIter };
typedef struct {
	MPT_INTERFACE(convertable) _conv;
	int vclass;
	int origin;            /* scalar type the value "has" (rendering only) */
	__int128 i;            /* VInt / VUint / VChar */
	double f;              /* VFlt */
	const char *str;       /* VStr */
	int as_vector;         /* VStr: answer char vector requests, too */
	uint8_t raw[32];       /* VColor, VLattr, VFpoint, VLine */
	size_t rawlen;
	int rawtype;
	const void *ptr;       /* VPtr: object address */
	MPT_INTERFACE(metatype) *iter;   /* VIter: value list iterator (mpt_iterator_values) */
	int ptrtype;
	int empty;             /* answer "no value" (0) instead of delivering */
	/* record */
	int nreq, ndeliv;
	int dtype;             /* type of the last delivery */
	uint8_t dbytes[32];
	size_t dlen;
	const char *dstr;
} hconv;

static int scalar_size(int type)
{
	switch (type) {
	case 'c': case 'b': case 'y': return 1;
	case 'n': case 'q': return 2;
	case 'i': case 'u': case 'f': return 4;
	case 'x': case 't': case 'd': return 8;
	case 'l': return sizeof(long);
	default: return 0;
	}
}
static int deliver(hconv *h, int type, void *ptr, const void *data, size_t len)
{
	if (h->empty) return 0;
	if (ptr) memcpy(ptr, data, len);
	h->ndeliv++;
	h->dtype = type;
	h->dlen = len < sizeof(h->dbytes) ? len : sizeof(h->dbytes);
	memcpy(h->dbytes, data, h->dlen);
	h->dstr = 0;
	return type > 0 && type < 0x100 ? type : 1;
}
static int hconv_convert(MPT_INTERFACE(convertable) *conv, MPT_TYPE(type) type, void *ptr)
{
	hconv *h = (hconv *) conv;
	int sz;
	h->nreq++;
	if (!type) {
		static const uint8_t fmt[] = { 0 };
		if (ptr) *(const uint8_t **) ptr = fmt;
		return 0;
	}
	if ((sz = scalar_size(type))) {
		/* exact or refused */
		if (h->vclass == VInt || h->vclass == VUint || h->vclass == VChar) {
			__int128 v = h->i;
			switch (type) {
			case 'c': { char x = (char) v; if (v < CHAR_MIN || v > CHAR_MAX) return MPT_ERROR(BadValue); return deliver(h, type, ptr, &x, 1); }
			case 'b': { int8_t x = (int8_t) v; if (v < INT8_MIN || v > INT8_MAX) return MPT_ERROR(BadValue); return deliver(h, type, ptr, &x, 1); }
			case 'y': { uint8_t x = (uint8_t) v; if (v < 0 || v > UINT8_MAX) return MPT_ERROR(BadValue); return deliver(h, type, ptr, &x, 1); }
			case 'n': { int16_t x = (int16_t) v; if (v < INT16_MIN || v > INT16_MAX) return MPT_ERROR(BadValue); return deliver(h, type, ptr, &x, 2); }
			case 'q': { uint16_t x = (uint16_t) v; if (v < 0 || v > UINT16_MAX) return MPT_ERROR(BadValue); return deliver(h, type, ptr, &x, 2); }
			case 'i': { int32_t x = (int32_t) v; if (v < INT32_MIN || v > INT32_MAX) return MPT_ERROR(BadValue); return deliver(h, type, ptr, &x, 4); }
			case 'u': { uint32_t x = (uint32_t) v; if (v < 0 || v > UINT32_MAX) return MPT_ERROR(BadValue); return deliver(h, type, ptr, &x, 4); }
			case 'x': { int64_t x = (int64_t) v; if (v < INT64_MIN || v > INT64_MAX) return MPT_ERROR(BadValue); return deliver(h, type, ptr, &x, 8); }
			case 't': { uint64_t x = (uint64_t) v; if (v < 0 || v > (__int128) UINT64_MAX) return MPT_ERROR(BadValue); return deliver(h, type, ptr, &x, 8); }
			case 'l': { long x = (long) v; if (v < LONG_MIN || v > LONG_MAX) return MPT_ERROR(BadValue); return deliver(h, type, ptr, &x, sizeof(x)); }
			case 'f': { float x = (float) v; if ((__int128) x != v || fabsf(x) > 16777216.f) return MPT_ERROR(BadValue); return deliver(h, type, ptr, &x, 4); }
			case 'd': { double x = (double) v; if ((__int128) x != v || fabs(x) > 9007199254740992.) return MPT_ERROR(BadValue); return deliver(h, type, ptr, &x, 8); }
			}
		}
		if (h->vclass == VFlt) {
			double v = h->f;
			if (type == 'd') return deliver(h, type, ptr, &v, 8);
			if (type == 'f') { float x = (float) v; if (!isnan(v) && (double) x != v) return MPT_ERROR(BadValue); return deliver(h, type, ptr, &x, 4); }
			/* integer targets: integral and in range */
			if (!isfinite(v) || v != floor(v) || fabs(v) > 9e18) return MPT_ERROR(BadValue);
			{
				hconv tmp = *h;
				int r;
				tmp.vclass = VInt; tmp.i = (__int128) v;
				r = hconv_convert(&tmp._conv, type, ptr);
				h->ndeliv = tmp.ndeliv; h->dtype = tmp.dtype; h->dlen = tmp.dlen; memcpy(h->dbytes, tmp.dbytes, sizeof(h->dbytes)); h->dstr = tmp.dstr;
				return r;
			}
		}
		return MPT_ERROR(BadType);
	}
	if (type == 's' || type == 'k') {
		if (h->vclass != VStr) return MPT_ERROR(BadType);
		if (h->empty) return 0;
		if (ptr) *(const char **) ptr = h->str;
		h->ndeliv++; h->dtype = 's'; h->dstr = h->str; h->dlen = 0;
		return 's';
	}
	if (type == MPT_type_toVector('c')) {
		if (h->vclass != VStr || !h->as_vector || !h->str) return MPT_ERROR(BadType);
		if (h->empty) return 0;
		if (ptr) { struct iovec *vec = ptr; vec->iov_base = (void *) h->str; vec->iov_len = strlen(h->str); }
		h->ndeliv++; h->dtype = 's'; h->dstr = h->str; h->dlen = 0;
		return 's';
	}
	if ((h->vclass == VColor || h->vclass == VLattr || h->vclass == VFpoint || h->vclass == VLine) && (int) type == h->rawtype) {
		return deliver(h, type, ptr, h->raw, h->rawlen);
	}
	if (h->vclass == VIter) {
		int r;
		if (type != MPT_ENUM(TypeIteratorPtr) || !h->iter) return MPT_ERROR(BadType);
		r = MPT_metatype_convert(h->iter, type, ptr);
		if (r >= 0) { h->ndeliv++; h->dtype = (int) type; h->dlen = 0; h->dstr = 0; }
		return r < 0 ? r : 1;
	}
	if (h->vclass == VPtr && (int) type == h->ptrtype) {
		return deliver(h, type, ptr, &h->ptr, sizeof(h->ptr));
	}
	return MPT_ERROR(BadType);
}
static const MPT_INTERFACE_VPTR(convertable) hconv_vptr = { hconv_convert };
static void hconv_init(hconv *h)
{
	memset(h, 0, sizeof(*h));
	h->_conv._vptr = &hconv_vptr;
}
static const char *hconv_str(const hconv *h)
{
	static char buf[2][200];
	static int n;
	char *s = buf[n++ & 1];
	switch (h->vclass) {
	case VInt: case VUint: snprintf(s, 200, "%s%lld '%c'", h->empty ? "empty " : "", (long long) h->i, h->origin); break;
	case VChar: snprintf(s, 200, "%schar %d", h->empty ? "empty " : "", (int) h->i); break;
	case VFlt: snprintf(s, 200, "%s%.17g '%c'", h->empty ? "empty " : "", h->f, h->origin); break;
	case VStr: snprintf(s, 200, "%sstring%s \"%.60s\"(%zu)", h->empty ? "empty " : "", h->as_vector ? "+vector" : "", h->str ? h->str : "(null)", h->str ? strlen(h->str) : 0); break;
	case VColor: snprintf(s, 200, "%scolor a=%u r=%u g=%u b=%u", h->empty ? "empty " : "", h->raw[0], h->raw[1], h->raw[2], h->raw[3]); break;
	case VLattr: snprintf(s, 200, "lineattr %u %u %u %u", h->raw[0], h->raw[1], h->raw[2], h->raw[3]); break;
	case VFpoint: { float p[2]; memcpy(p, h->raw, 8); snprintf(s, 200, "%sfpoint (%.9g, %.9g)", h->empty ? "empty " : "", p[0], p[1]); break; }
	case VLine: snprintf(s, 200, "line struct"); break;
	case VPtr: snprintf(s, 200, "%sobject pointer (type %d)", h->empty ? "empty " : "", h->ptrtype); break;
	case VIter: snprintf(s, 200, "value list iterator"); break;
	default: snprintf(s, 200, "nothing");
	}
	return s;
}

/* ---------------------------------------------------------------- snapshot */
#define MAXPROP 12
typedef struct {
	const char *name;
	int type;
	size_t len;
	uint8_t bytes[16];
	int isstr;
	char *str;            /* copy of string content (NULL: no string) */
	const char *straddr;  /* address of the library's string */
} pval;
typedef struct {
	int n;
	pval p[MAXPROP];
	uint8_t raw[sizeof(ostore)];
} snap;

static int type_len(int type)
{
	int sz = scalar_size(type);
	if (sz) return sz;
	if (type == mpt_color_typeid()) return 4;
	if (type == mpt_lattr_typeid()) return 4;
	if (type == mpt_fpoint_typeid()) return 8;
	return -1;
}
static void snap_free(snap *s)
{
	for (int i = 0; i < s->n; i++) free(s->p[i].str);
	s->n = 0;
}
static void snap_take(int k, const ostore *o, snap *s)
{
	s->n = 0;
	memcpy(s->raw, o, osize(k));
	for (int i = 0; i <= MAXPROP; i++) {
		MPT_STRUCT(property) pr;
		pval *v;
		int r;
		memset(&pr, 0, sizeof(pr));
		pr.name = 0;
		pr.desc = (const char *) (intptr_t) i;
		r = o_get(k, o, &pr);
		if (r == MPT_ERROR(BadArgument)) break;
		VF_CHECK(r >= 0, "model:get:listed-property-unreadable", "mpt_%s_get(index %d) returns %d ('%s')", kname[k], i, r, pr.name ? pr.name : "?");
		VF_CHECK(i < MAXPROP, "model:get:too-many", "%s lists more than %d properties", kname[k], MAXPROP);
		v = &s->p[s->n++];
		memset(v, 0, sizeof(*v));
		v->name = pr.name;
		v->type = pr.val._type;
		VF_CHECK(pr.name && pr.val._addr, "model:get:incomplete", "%s property %d: name %p address %p", kname[k], i, (void *) pr.name, pr.val._addr);
		if (pr.val._type == 's') {
			const char *str = *(const char * const *) pr.val._addr;
			v->isstr = 1;
			v->straddr = str;
			v->str = str ? strdup(str) : 0;
			continue;
		}
		r = type_len(pr.val._type);
		VF_CHECK(r > 0, "model:get:type", "%s property '%s' is reported with type %d (no scalar, string, color, lineattr or fpoint)", kname[k], pr.name, pr.val._type);
		v->len = (size_t) r;
		memcpy(v->bytes, pr.val._addr, v->len);
	}
	vf_count("monitor:snapshots", 1);
}
static int pval_eq(const pval *a, const pval *b)
{
	if (a->isstr != b->isstr || strcmp(a->name, b->name)) return 0;
	if (a->isstr) {
		if (!a->str || !b->str) return a->str == b->str || (!a->str && !*b->str) || (!b->str && !*a->str);
		return !strcmp(a->str, b->str);
	}
	return a->type == b->type && a->len == b->len && !memcmp(a->bytes, b->bytes, a->len);
}
static const char *pval_str(const pval *v)
{
	static char buf[4][120];
	static int n;
	char *s = buf[n++ & 3], hx[40];
	if (v->isstr) { if (v->str) snprintf(s, 120, "\"%.80s\"(%zu)", v->str, strlen(v->str)); else snprintf(s, 120, "(no string)"); return s; }
	switch (v->type) {
	case 'd': { double d; memcpy(&d, v->bytes, 8); snprintf(s, 120, "%.17g", d); break; }
	case 'f': { float f; memcpy(&f, v->bytes, 4); snprintf(s, 120, "%.9g", f); break; }
	case 'n': { int16_t x; memcpy(&x, v->bytes, 2); snprintf(s, 120, "%d", x); break; }
	case 'u': { uint32_t x; memcpy(&x, v->bytes, 4); snprintf(s, 120, "%u", x); break; }
	case 'y': snprintf(s, 120, "%u", v->bytes[0]); break;
	case 'c': snprintf(s, 120, "char %d", (signed char) v->bytes[0]); break;
	default: snprintf(s, 120, "[%d] %s", v->type, vf_hex(hx, sizeof(hx), v->bytes, v->len));
	}
	return s;
}
static int snap_find(const snap *s, const char *name)
{
	for (int i = 0; i < s->n; i++) if (!strcmp(s->p[i].name, name)) return i;
	return -1;
}

/* --------------------------------------------------------- property tables */
/* setter names (documented aliases in the *_set functions) -> name reported by *_get */
typedef struct { const char *set, *get; int sub; } pname;   /* sub: 1 = x part, 2 = y part of an fpoint */
static const pname names_axis[] = {
	{ "title", "title", 0 }, { "begin", "begin", 0 }, { "end", "end", 0 }, { "tlen", "tlen", 0 },
	{ "exp", "exponent", 0 }, { "exponent", "exponent", 0 }, { "int", "intervals", 0 }, { "intv", "intervals", 0 }, { "intervals", "intervals", 0 },
	{ "sub", "subtick", 0 }, { "subtick", "subtick", 0 }, { "dec", "decimals", 0 }, { "decimals", "decimals", 0 },
	{ "lpos", "lpos", 0 }, { "labelpos", "lpos", 0 }, { "label position", "lpos", 0 }, { "tpos", "tpos", 0 }, { "titlepos", "tpos", 0 }, { "title position", "tpos", 0 }
};
static const pname names_line[] = {
	{ "color", "color", 0 }, { "x1", "x1", 0 }, { "x2", "x2", 0 }, { "y1", "y1", 0 }, { "y2", "y2", 0 },
	{ "width", "width", 0 }, { "style", "style", 0 }, { "symbol", "symbol", 0 }, { "size", "size", 0 }
};
static const pname names_text[] = {
	{ "color", "color", 0 }, { "pos", "pos", 0 }, { "x", "pos", 1 }, { "y", "pos", 2 }, { "size", "size", 0 }, { "align", "align", 0 },
	{ "angle", "angle", 0 }, { "value", "value", 0 }, { "font", "font", 0 }
};
static const pname names_graph[] = {
	{ "axes", "axes", 0 }, { "worlds", "worlds", 0 }, { "fg", "foreground", 0 }, { "foreground", "foreground", 0 }, { "bg", "background", 0 }, { "background", "background", 0 },
	{ "pos", "pos", 0 }, { "position", "pos", 0 }, { "scale", "scale", 0 }, { "type", "grid", 0 }, { "gridtype", "grid", 0 },
	{ "align", "align", 0 }, { "alignment", "align", 0 }, { "clip", "clip", 0 }, { "clipping", "clip", 0 }, { "lpos", "lpos", 0 }
};
static const pname names_world[] = {
	{ "color", "color", 0 }, { "colour", "color", 0 }, { "cyc", "cycles", 0 }, { "cycles", "cycles", 0 }, { "width", "width", 0 }, { "style", "style", 0 },
	{ "sym", "symbol", 0 }, { "symbol", "symbol", 0 }, { "size", "size", 0 }, { "alias", "alias", 0 }
};
static const struct { const pname *n; int cnt; } names[NKinds] = {
	{ names_axis, sizeof(names_axis) / sizeof(pname) }, { names_line, sizeof(names_line) / sizeof(pname) }, { names_text, sizeof(names_text) / sizeof(pname) },
	{ names_graph, sizeof(names_graph) / sizeof(pname) }, { names_world, sizeof(names_world) / sizeof(pname) }
};
static int total_names(void) { int t = 0; for (int k = 0; k < NKinds; k++) t += names[k].cnt; return t; }

/* ----------------------------------------------------------- value classes */
/* value class c for a property whose declared type is `ptype` (from a fresh snapshot) */
#define NVCLASS 44
static char strbuf[400];
static const char *coltexts[] = { "black", "red", "green", "blue", "cyan", "magenta", "yellow", "white", "RED", "Blue", "#000000", "#ff8000", "#FF8000", "#01020304", "#ffffff00",
	"#fff", "#12", "#gg0000", "#1234567", "", "reddish", "red ", " red", "#", "#1g0000", "purple", "#ff80000", "#ff8000ffaa" };
#define NCOLTEXT (sizeof(coltexts) / sizeof(*coltexts))
static void make_value(hconv *h, int cls, int ptype, int isstr, vf_rng *r)
{
	static const long long ints[] = { 0, 1, 2, 5, 7, 10, 20, 21, 100, 127, 128, 255, 256, 32767, 32768, 65535, 65536, -1, -128, -129, -32768, -32769, 2147483647LL, 2147483648LL, 4294967295LL, 4294967296LL };
	static const double flts[] = { 0, 0.5, 0.25, 1, 1.5, 0.1, 0.3, -0.5, 2, 100.5, 1e10, 1e-10, 3.4e38, 3.5e38, 1e300, -1e300, 16777217, 255, 256, 3 };
	static const char origin_i[] = "bynqiuxtl", origin_f[] = "fd";
	hconv_init(h);
	(void) ptype;
	if (cls < 14) {
		h->vclass = VInt;
		h->i = ints[vf_below(r, sizeof(ints) / sizeof(*ints))];
		if (cls < 6) h->i = ints[cls * 2 + vf_below(r, 2)];
		h->origin = origin_i[vf_below(r, 9)];
	}
	else if (cls < 24) {
		h->vclass = VFlt;
		h->f = flts[(cls - 14) * 2 + vf_below(r, 2)];
		if (vf_chance(r, 1, 6)) h->f = vf_chance(r, 1, 2) ? INFINITY : NAN;
		h->origin = origin_f[vf_below(r, 2)];
	}
	else if (cls < 27) {
		static const char chars[] = "xXyz5ntblr \t0";
		h->vclass = VChar;
		h->i = cls == 24 ? chars[vf_below(r, sizeof(chars) - 1)] : cls == 25 ? (int) vf_below(r, 128) : 0;
		h->origin = 'c';
	}
	else if (cls < 34) {
		/* strings of length 0..300, also single characters and key words */
		static const char *words[] = { "", "x", "log", "LOG10", "xy", "xyz", "bez", "hello world", "title with \"quotes\"", "5", "12", "0.5 0.25", "1" };
		size_t l;
		h->vclass = VStr;
		h->as_vector = (int) vf_below(r, 2);
		if (cls < 30) h->str = words[vf_below(r, sizeof(words) / sizeof(*words))];
		else {
			l = cls == 30 ? vf_below(r, 5) : cls == 31 ? 250 + vf_below(r, 12) : cls == 32 ? 300 : vf_below(r, 301);
			for (size_t i = 0; i < l; i++) strbuf[i] = (char) ('a' + vf_below(r, 26));
			strbuf[l] = 0;
			h->str = strbuf;
		}
		if (cls == 33 && vf_chance(r, 1, 3)) { h->str = 0; h->as_vector = 0; }
	}
	else if (cls < 38) {
		/* colour texts */
		h->vclass = VStr;
		h->as_vector = (int) vf_below(r, 2);
		h->str = coltexts[vf_below(r, NCOLTEXT)];
	}
	else if (cls < 40) {
		h->vclass = VColor;
		h->rawtype = mpt_color_typeid(); h->rawlen = 4;
		vf_bytes(r, h->raw, 4);
		if (cls == 38) h->raw[0] = 0xff;
	}
	else if (cls == 40) {
		h->vclass = VLattr;
		h->rawtype = mpt_lattr_typeid(); h->rawlen = 4;
		for (int i = 0; i < 4; i++) h->raw[i] = (uint8_t) vf_below(r, 6);
	}
	else if (cls < 43) {
		static const float pv[] = { 0, 1, 0.5f, 0.25f, -0.5f, 1.5f, 100, 3.4e38f };
		float p[2];
		h->vclass = VFpoint;
		h->rawtype = mpt_fpoint_typeid(); h->rawlen = 8;
		p[0] = pv[vf_below(r, cls == 41 ? 4 : 8)]; p[1] = pv[vf_below(r, cls == 41 ? 4 : 8)];
		memcpy(h->raw, p, 8);
	}
	else {
		/* "no value" answer of a typed source */
		make_value(h, (int) vf_below(r, 43), ptype, isstr, r);
		h->empty = 1;
	}
}

/* ------------------------------------------------------- colour reference */
/* documented forms: the eight names (case-insensitive), "#rrggbb", "#rrggbbaa"; returns 1 well-formed, 0 not */
static int ref_color(const char *t, uint8_t c[4])
{
	static const struct { const char *n; uint8_t c[4]; } col[] = {
		{ "black", { 255, 0, 0, 0 } }, { "red", { 255, 255, 0, 0 } }, { "green", { 255, 0, 255, 0 } }, { "blue", { 255, 0, 0, 255 } },
		{ "cyan", { 255, 0, 255, 255 } }, { "magenta", { 255, 255, 0, 255 } }, { "yellow", { 255, 255, 255, 0 } }, { "white", { 255, 255, 255, 255 } }
	};
	size_t l = strlen(t);
	for (size_t i = 0; i < 8; i++) if (!strcasecmp(t, col[i].n)) { memcpy(c, col[i].c, 4); return 1; }
	if (t[0] != '#' || (l != 7 && l != 9)) return 0;
	for (size_t i = 1; i < l; i++) if (!isxdigit((unsigned char) t[i])) return 0;
	{
		unsigned v[4] = { 0, 0, 0, 255 };
		sscanf(t + 1, "%2x%2x%2x%2x", &v[0], &v[1], &v[2], &v[3]);
		c[0] = (uint8_t) v[3]; c[1] = (uint8_t) v[0]; c[2] = (uint8_t) v[1]; c[3] = (uint8_t) v[2];
	}
	return 1;
}

/* ------------------------------------------------------ read back by name */
/*
 * Aliases the setters accept but the getters do not resolve to the same
 * property (documented in notes/C20.md as finding): not read back.
 */
static int readable_spelling(int k, const char *name)
{
	static const char *axis_no[] = { "labelpos", "label position", "titlepos", "title position", 0 };
	static const char *graph_no[] = { "fg", "bg", "type", 0 };
	const char **no = k == KAxis ? axis_no : k == KGraph ? graph_no : 0;
	for (; no && *no; no++) if (!strcasecmp(*no, name)) return 0;
	return 1;
}
/* get(name) has to answer the property `want` (from a snapshot taken by index) */
static void check_read(int k, const ostore *o, const char *name, const pval *want, int sub, const char *ctx)
{
	MPT_STRUCT(property) pr;
	int ret;
	memset(&pr, 0, sizeof(pr));
	pr.name = name;
	ret = o_get(k, o, &pr);
	VF_CHECK(ret >= 0, "model:get:accepted-name-unreadable", "%s: mpt_%s_get(\"%s\") returns %d, the same spelling is accepted by the setter for '%s'", ctx, kname[k], name, ret, want->name);
	if (sub) {
		/* text x / y: one coordinate of pos */
		VF_CHECK(pr.val._type == 'f' && pr.val._addr && !memcmp(pr.val._addr, want->bytes + (sub == 2 ? 4 : 0), 4), "model:get:wrong-property", "%s: mpt_%s_get(\"%s\") does not answer the %s coordinate of 'pos'", ctx, kname[k], name, sub == 2 ? "y" : "x");
	} else {
		VF_CHECK(pr.name && !strcmp(pr.name, want->name), "model:get:wrong-property", "%s: mpt_%s_get(\"%s\") answers '%s', the setter changes '%s'", ctx, kname[k], name, pr.name ? pr.name : "(null)", want->name);
		if (want->isstr) {
			const char *str = pr.val._type == 's' && pr.val._addr ? *(const char * const *) pr.val._addr : 0;
			VF_CHECK(pr.val._type == 's' && ((!str && !want->str) || (str && want->str && !strcmp(str, want->str)) || (!str && want->str && !*want->str) || (str && !*str && !want->str)), "model:get:wrong-property", "%s: mpt_%s_get(\"%s\") reads another string than the listing by index (%s)", ctx, kname[k], name, pval_str(want));
		} else {
			VF_CHECK((int) pr.val._type == want->type && pr.val._addr && !memcmp(pr.val._addr, want->bytes, want->len), "model:get:wrong-property", "%s: mpt_%s_get(\"%s\") reads another value than the listing by index (%s)", ctx, kname[k], name, pval_str(want));
		}
	}
	vf_count("monitor:read-by-spelling", 1);
}

/* ------------------------------------------------ uninitialised memory monitor */
/*
 * Every set operation is executed a second time on a twin (copy of the
 * object made before the operation) after the stack was filled with another
 * byte pattern.  Return value and all properties have to agree: a difference
 * means the result depends on memory nobody initialised.  (The heap is not
 * varied: under ASan fresh blocks always hold the same fill byte.)
 */
static void __attribute__((noinline)) fill_stack(int pattern)
{
	volatile char pad[8000];
	memset((void *) pad, pattern, sizeof(pad));
	__asm__ volatile ("" : : "r"(pad) : "memory");
}
static void twin_compare(int k, const ostore *o, const ostore *tw, int r1, int r2, const char *ctx)
{
	snap a, b;
	VF_CHECK(r1 == r2, "model:set:depends-on-uninitialised-memory", "%s: returns %d with a zero filled and %d with a 0xff filled stack", ctx, r1, r2);
	snap_take(k, o, &a); snap_take(k, tw, &b);
	VF_CHECK(a.n == b.n, "model:set:depends-on-uninitialised-memory", "%s: property count differs between the twins", ctx);
	for (int i = 0; i < a.n; i++) {
		if (!pval_eq(&a.p[i], &b.p[i])) vf_fail("model:set:depends-on-uninitialised-memory", "%s: '%s' is %s with a zero filled and %s with a 0xff filled stack", ctx, a.p[i].name, pval_str(&a.p[i]), pval_str(&b.p[i]));
	}
	if (k == KLine && memcmp(o, tw, osize(k))) vf_fail("model:set:depends-on-uninitialised-memory", "%s: line bytes differ between the twins", ctx);
	snap_free(&a); snap_free(&b);
	vf_count("monitor:twin-comparisons", 1);
}

/* ------------------------------------------------------------------ oracle */
static const char *clipnames[8] = { "", "x", "y", "xy", "z", "xz", "yz", "xyz" };

/* expected bytes of the target property (declared type of `cur`) from the last delivery; 0: not decidable (adopt) */
static int expect_from_delivery(const hconv *h, const pval *before, const pval *cur, int sub, pval *want, const char **why)
{
	*want = *before;
	want->str = 0;
	*why = "";
	if (h->dtype == 's') {
		/* string delivered */
		if (before->isstr && cur->isstr && strcmp(before->name, "intervals") && strcmp(before->name, "clip")) {
			want->isstr = 1;
			want->str = (char *) h->dstr;
			return 1;
		}
		if (before->type == mpt_color_typeid() || cur->type == mpt_color_typeid()) {
			uint8_t c[4];
			if (!h->dstr || !*h->dstr) return 0;          /* empty colour text: not documented */
			if (!ref_color(h->dstr, c)) { *why = "lenient"; return 0; }
			want->isstr = 0; want->type = mpt_color_typeid(); want->len = 4; memcpy(want->bytes, c, 4);
			return 1;
		}
		if (cur->type == 'c' && !cur->isstr && h->dstr && *h->dstr) {
			/* label/title/legend position from a key word: its first character */
			want->bytes[0] = (uint8_t) h->dstr[0];
			return 1;
		}
		return 0;   /* string coded numbers (align, clip, intervals = "log"): adopt */
	}
	if (cur->isstr) {
		/* numeric delivery shown as string: graph clip names, axis "log" */
		if (!strcmp(cur->name, "clip") && h->dtype == 'y' && h->dbytes[0] < 8) {
			want->isstr = 1; want->str = (char *) clipnames[h->dbytes[0]];
			return 1;
		}
		return 0;
	}
	want->isstr = 0; want->type = cur->type; want->len = cur->len;
	if (h->dtype == cur->type && h->dlen == cur->len) {
		if (sub) {
			memcpy(want->bytes, before->bytes, 8);
			memcpy(want->bytes + (sub == 2 ? 4 : 0), h->dbytes, 4);
			return 1;
		}
		memcpy(want->bytes, h->dbytes, cur->len);
		return 1;
	}
	if (sub && h->dtype == 'f' && cur->len == 8) {
		memcpy(want->bytes, before->bytes, 8);
		memcpy(want->bytes + (sub == 2 ? 4 : 0), h->dbytes, 4);
		return 1;
	}
	if (h->dtype == 'd' && cur->type == 'f') {
		double d; float f;
		memcpy(&d, h->dbytes, 8);
		/* precision of the narrower type is not a defect, a finite value turned into infinity is */
		if (isfinite(d) && fabs(d) > FLT_MAX) { volatile float g = (float) (d < 0 ? -INFINITY : INFINITY); f = g; memcpy(want->bytes, &f, 4); *why = "finite value beyond the float range accepted"; return -1; }
		f = (float) d; memcpy(want->bytes, &f, 4); return 1;
	}
	if (h->dtype == 'i' && cur->type == 'y') { int32_t v; memcpy(&v, h->dbytes, 4); if (v < 0 || v > 255) { *why = "out of range accepted"; want->bytes[0] = (uint8_t) v; return -1; } want->bytes[0] = (uint8_t) v; return 1; }
	if ((h->dtype == 'c' || h->dtype == 'y') && (cur->type == 'c' || cur->type == 'y')) { want->bytes[0] = h->dbytes[0]; return 1; }
	return 0;
}

static snap fresh[NKinds];
static void fresh_init(void)
{
	static int done;
	if (done) return;
	done = 1;
	for (int k = 0; k < NKinds; k++) {
		ostore o;
		o_init(k, &o, 0);
		snap_take(k, &o, &fresh[k]);
		o_fini(k, &o);
	}
}

/* compare all properties except index `skip` */
static void check_others(int k, const snap *a, const snap *b, int skip, const char *ctx)
{
	char key[80];
	VF_CHECK(a->n == b->n, "model:get:count-changed", "%s: %d properties before, %d after", ctx, a->n, b->n);
	for (int i = 0; i < a->n; i++) {
		if (i == skip) continue;
		if (!pval_eq(&a->p[i], &b->p[i])) {
			snprintf(key, sizeof(key), "model:set:other-property-changed");
			vf_fail(key, "%s: %s property '%s' changed from %s to %s", ctx, kname[k], a->p[i].name, pval_str(&a->p[i]), pval_str(&b->p[i]));
		}
		vf_count("monitor:untouched-properties-compared", 1);
	}
}
static void check_unchanged(int k, const ostore *o, const snap *before, const char *key, const char *ctx)
{
	snap now;
	snap_take(k, o, &now);
	if (memcmp(before->raw, o, osize(k))) {
		char h1[200], h2[200];
		vf_fail(key, "%s: object bytes changed: %s -> %s", ctx, vf_hex(h1, sizeof(h1), before->raw, osize(k)), vf_hex(h2, sizeof(h2), o, osize(k)));
	}
	VF_CHECK(before->n == now.n, key, "%s: property count changed", ctx);
	for (int i = 0; i < now.n; i++) {
		if (!pval_eq(&before->p[i], &now.p[i])) vf_fail(key, "%s: %s property '%s' changed from %s to %s", ctx, kname[k], now.p[i].name, pval_str(&before->p[i]), pval_str(&now.p[i]));
	}
	snap_free(&now);
	vf_count("monitor:refusals-compared", 1);
}

/* one set(name, value) with full comparison; returns the result of the call */
static int do_set(int k, ostore *o, const pname *pn, hconv *h, const char *spelled)
{
	snap before, after;
	char ctx[400];
	int r, t;
	const char *why;
	pval want;

	ostore tw;
	hconv h2;
	fresh_init();
	snap_take(k, o, &before);
	snprintf(ctx, sizeof(ctx), "mpt_%s_set(\"%s\", %s)", kname[k], spelled, h ? hconv_str(h) : "NULL");
	vf_log("%s", ctx);
	o_init(k, &tw, o);
	if (h) h2 = *h;
	fill_stack(0x00);
	r = o_set(k, o, spelled, h ? &h->_conv : 0);
	{
		int r2;
		fill_stack(0xff);
		r2 = o_set(k, &tw, spelled, h ? &h2._conv : 0);
		twin_compare(k, o, &tw, r, r2, ctx);
		o_fini(k, &tw);
	}
	vf_log("  -> %d (requests %d, delivered %d, last type %d)", r, h ? h->nreq : 0, h ? h->ndeliv : 0, h ? h->dtype : 0);
	if (r < 0) {
		check_unchanged(k, o, &before, "model:set:refused-modified", ctx);
		snap_free(&before);
		vf_count("set:refused", 1);
		return r;
	}
	vf_count("set:accepted", 1);
	snap_take(k, o, &after);
	t = snap_find(&before, pn->get);
	VF_CHECK(t >= 0 && t == snap_find(&after, pn->get), "model:get:name-missing", "%s: property '%s' is not listed by get", ctx, pn->get);
	check_others(k, &before, &after, t, ctx);
	if (h && !h->ndeliv && h->vclass == VStr && !strcmp(pn->get, "intervals")) {
		/* empty text for the number-or-"log" property: accepted, not documented what it means */
		vf_count("set:adopted-string-coded", 1);
	}
	else if (h && !h->ndeliv && fresh[k].p[t].type == mpt_color_typeid() && !fresh[k].p[t].isstr) {
		/* mpt_color_pset has no default to fall back to: 'no value' is not decided for colours (see notes) */
		vf_count("set:adopted-colour-no-value", 1);
	}
	else if (!h || !h->ndeliv) {
		/* reset: value of a freshly initialised object */
		const pval *d = &fresh[k].p[t];
		if (pn->sub) {
			/* one coordinate of a point */
			int off = pn->sub == 2 ? 4 : 0;
			if (memcmp(after.p[t].bytes + off, d->bytes + off, 4) || memcmp(after.p[t].bytes + 4 - off, before.p[t].bytes + 4 - off, 4))
				vf_fail("model:reset:not-default", "%s: '%s' is %s after reset of one coordinate (before %s, default %s)", ctx, pn->get, pval_str(&after.p[t]), pval_str(&before.p[t]), pval_str(d));
		}
		else if (!pval_eq(&after.p[t], d)) {
			vf_fail(h ? "model:set:accepted-without-value" : "model:reset:not-default", "%s: returned %d, '%s' is %s, a fresh %s has %s%s", ctx, r, pn->get, pval_str(&after.p[t]), kname[k], pval_str(d), h ? " (the source delivered nothing)" : "");
		}
		vf_count(h ? "monitor:no-value-resets-compared" : "monitor:resets-compared", 1);
	}
	else {
		int e = expect_from_delivery(h, &before.p[t], &after.p[t], pn->sub, &want, &why);
		if (e < 0 && !vf_known("model:set:accepted-out-of-range")) vf_fail("model:set:accepted-out-of-range", "%s: %s: stored %s", ctx, why, pval_str(&after.p[t]));
		if (e > 0) {
			if (!pval_eq(&after.p[t], &want)) vf_fail("model:set:readback", "%s: returned %d, '%s' reads %s, delivered value is %s", ctx, r, pn->get, pval_str(&after.p[t]), pval_str(&want));
			if (want.isstr && after.p[t].straddr && h->dstr) VF_CHECK(after.p[t].straddr != h->dstr, "model:set:string-shared", "%s: object keeps the caller's string pointer", ctx);
			vf_count("monitor:readbacks-compared", 1);
		}
		else vf_count(*why ? "set:adopted-lenient-colour" : "set:adopted-string-coded", 1);
	}
	/* read back through the spelling used to set and through the listed name */
	if (readable_spelling(k, spelled) && !(pn->sub && strcmp(spelled, pn->set))) check_read(k, o, spelled, &after.p[t], pn->sub, ctx);
	check_read(k, o, pn->get, &after.p[t], 0, ctx);
	snap_free(&before); snap_free(&after);
	return r;
}

/* put an object into a state where (almost) nothing is default */
static void scramble(int k, ostore *o, vf_rng *r)
{
	for (int i = 0; i < names[k].cnt; i++) {
		const pname *pn = &names[k].n[i];
		hconv h;
		int t = snap_find(&fresh[k], pn->get);
		if (t < 0 || vf_chance(r, 1, 5)) continue;
		hconv_init(&h);
		if (fresh[k].p[t].isstr) { static const char *s[] = { "abc", "some text", "q" }; h.vclass = VStr; h.str = s[vf_below(r, 3)]; if (!strcmp(pn->get, "intervals") || !strcmp(pn->get, "clip")) continue; }
		else if (fresh[k].p[t].type == mpt_color_typeid()) { h.vclass = VColor; h.rawtype = mpt_color_typeid(); h.rawlen = 4; vf_bytes(r, h.raw, 4); }
		else if (fresh[k].p[t].type == mpt_fpoint_typeid()) { float p[2] = { 0.25f * (1 + vf_below(r, 3)), 0.125f * (1 + vf_below(r, 7)) }; if (pn->sub) { h.vclass = VFlt; h.f = p[0]; } else { h.vclass = VFpoint; h.rawtype = mpt_fpoint_typeid(); h.rawlen = 8; memcpy(h.raw, p, 8); } }
		else if (fresh[k].p[t].type == 'd' || fresh[k].p[t].type == 'f') { h.vclass = VFlt; h.f = 0.25 * (1 + vf_below(r, 20)); }
		else if (fresh[k].p[t].type == 'c') { h.vclass = VChar; h.i = "abrtlxy"[vf_below(r, 7)]; }
		else { h.vclass = VInt; h.i = 1 + vf_below(r, 5); }
		o_set(k, o, pn->set, &h._conv);
	}
}

/* ------------------------------------------------------ object interface wrap */
typedef struct { MPT_INTERFACE(object) _obj; int k; ostore *o; } owrap;
static int owrap_prop(const MPT_INTERFACE(object) *obj, MPT_STRUCT(property) *pr) { const owrap *w = (const owrap *) obj; return o_get(w->k, w->o, pr); }
static int owrap_set(MPT_INTERFACE(object) *obj, const char *name, MPT_INTERFACE(convertable) *src) { owrap *w = (owrap *) obj; return o_set(w->k, w->o, name, src); }
static const MPT_INTERFACE_VPTR(object) owrap_vptr = { owrap_prop, owrap_set };

/* numeral / text for a property set through mpt_object_set_string */
static void do_set_string(int k, ostore *o, const pname *pn, const char *text, vf_rng *r)
{
	owrap w;
	snap before, after, again;
	char ctx[300];
	int ret, t;
	(void) r;
	w._obj._vptr = &owrap_vptr; w.k = k; w.o = o;
	snap_take(k, o, &before);
	snprintf(ctx, sizeof(ctx), "mpt_object_set_string(%s, \"%s\", \"%.80s\")", kname[k], pn->set, text ? text : "(null)");
	vf_log("%s", ctx);
	{
		ostore tw;
		owrap w2;
		int r2;
		o_init(k, &tw, o);
		w2._obj._vptr = &owrap_vptr; w2.k = k; w2.o = &tw;
		fill_stack(0x00);
		vf_at("mpt_object_set_string");
		ret = mpt_object_set_string(&w._obj, pn->set, text, 0);
		fill_stack(0xff);
		r2 = mpt_object_set_string(&w2._obj, pn->set, text, 0);
		twin_compare(k, o, &tw, ret, r2, ctx);
		o_fini(k, &tw);
	}
	vf_count("mpt_object_set_string", 1);
	vf_log("  -> %d", ret);
	if (ret < 0) {
		check_unchanged(k, o, &before, "model:set_string:refused-modified", ctx);
		snap_free(&before);
		vf_count("set_string:refused", 1);
		return;
	}
	vf_count("set_string:accepted", 1);
	snap_take(k, o, &after);
	t = snap_find(&before, pn->get);
	VF_CHECK(t >= 0, "model:get:name-missing", "%s: property '%s' is not listed by get", ctx, pn->get);
	check_others(k, &before, &after, t, ctx);
	/* what the text denotes, where that is plain: numerals for numeric fields, the text for string fields, colour forms */
	if (text && *text) {
		const pval *a = &after.p[t];
		char *end;
		if (a->isstr && before.p[t].isstr && strcmp(pn->get, "intervals") && strcmp(pn->get, "clip")) {
			VF_CHECK(a->str && !strcmp(a->str, text), "model:set_string:readback", "%s: '%s' reads %s", ctx, pn->get, pval_str(a));
			vf_count("monitor:string-readbacks-compared", 1);
		}
		else if (!a->isstr && (a->type == 'd' || a->type == 'f') && !pn->sub) {
			double v;
			errno = 0;
			v = strtod(text, &end);
			if (end != text && !*end && isfinite(v)) {
				if (a->type == 'd') { double g; memcpy(&g, a->bytes, 8); VF_CHECK(g == v, "model:set_string:readback", "%s: '%s' reads %s", ctx, pn->get, pval_str(a)); }
				else {
					float g; memcpy(&g, a->bytes, 4);
					if (fabs(v) > FLT_MAX) { if (!vf_known("model:set_string:accepted-out-of-range")) vf_fail("model:set_string:accepted-out-of-range", "%s: finite numeral beyond the float range accepted, '%s' reads %s", ctx, pn->get, pval_str(a)); }
					else VF_CHECK(g == (float) v, "model:set_string:readback", "%s: '%s' reads %s", ctx, pn->get, pval_str(a));
				}
				vf_count("monitor:string-readbacks-compared", 1);
			}
		}
		else if (!a->isstr && (a->type == 'y' || a->type == 'n' || a->type == 'u') && strcmp(pn->get, "align") && strcmp(pn->get, "grid") && strcmp(pn->get, "intervals")) {
			long long v;
			errno = 0;
			v = strtoll(text, &end, 10);
			if (end != text && !*end && isdigit((unsigned char) text[0])) {
				long long g = a->type == 'y' ? a->bytes[0] : 0;
				if (a->type == 'n') { int16_t x; memcpy(&x, a->bytes, 2); g = x; }
				if (a->type == 'u') { uint32_t x; memcpy(&x, a->bytes, 4); g = x; }
				VF_CHECK(g == v, "model:set_string:readback", "%s: '%s' reads %s", ctx, pn->get, pval_str(a));
				vf_count("monitor:string-readbacks-compared", 1);
			}
		}
		else if (!a->isstr && a->type == mpt_color_typeid()) {
			uint8_t c[4];
			if (ref_color(text, c)) {
				VF_CHECK(!memcmp(a->bytes, c, 4), "model:set_string:readback", "%s: '%s' reads %s", ctx, pn->get, pval_str(a));
				vf_count("monitor:string-readbacks-compared", 1);
			}
		}
	}
	/* same text again: same object */
	vf_at("mpt_object_set_string");
	ret = mpt_object_set_string(&w._obj, pn->set, text, 0);
	snap_take(k, o, &again);
	VF_CHECK(ret >= 0, "model:set_string:not-repeatable", "%s: accepted once, then returned %d", ctx, ret);
	for (int i = 0; i < after.n; i++) VF_CHECK(pval_eq(&after.p[i], &again.p[i]), "model:set_string:not-repeatable", "%s: second identical call changes '%s' from %s to %s", ctx, after.p[i].name, pval_str(&after.p[i]), pval_str(&again.p[i]));
	snap_free(&before); snap_free(&after); snap_free(&again);
}

/* -------------------------------------------------------------------- copy */
static void do_copy(int k, ostore *dst, ostore *src, int how, vf_rng *r)
{
	hconv h;
	snap sb, sa, da;
	char ctx[200];
	int ret;
	const char *name = how == 0 ? "" : 0;

	hconv_init(&h);
	if (k == KLine) { h.vclass = VLine; h.rawtype = mpt_line_typeid(); h.rawlen = sizeof(MPT_STRUCT(line)); memcpy(h.raw, &src->line, h.rawlen); }
	else { h.vclass = VPtr; h.ptr = src; h.ptrtype = ptr_typeid(k); }
	if (how == 2) h.empty = 1;     /* typed source without object: reset */
	(void) r;
	snap_take(k, src, &sb);
	snprintf(ctx, sizeof(ctx), "mpt_%s_set(%s, %s%s)", kname[k], how == 0 ? "\"\"" : "NULL", k == KLine ? "line value" : "object pointer", how == 2 ? " answering 'no value'" : "");
	vf_log("%s", ctx);
	{
		snap before;
		snap_take(k, dst, &before);
		ret = o_set(k, dst, how == 2 ? "" : name, &h._conv);
		vf_log("  -> %d", ret);
		if (ret < 0) {
			check_unchanged(k, dst, &before, "model:copy:refused-modified", ctx);
			check_unchanged(k, src, &sb, "model:copy:source-changed", ctx);
			snap_free(&before); snap_free(&sb);
			vf_count("copy:refused", 1);
			return;
		}
		snap_free(&before);
	}
	vf_count("copy:accepted", 1);
	snap_take(k, src, &sa);
	snap_take(k, dst, &da);
	for (int i = 0; i < sb.n; i++) VF_CHECK(pval_eq(&sb.p[i], &sa.p[i]), "model:copy:source-changed", "%s: source property '%s' changed from %s to %s", ctx, sb.p[i].name, pval_str(&sb.p[i]), pval_str(&sa.p[i]));
	if (how == 2) {
		for (int i = 0; i < da.n; i++) VF_CHECK(pval_eq(&da.p[i], &fresh[k].p[i]), "model:reset:not-default", "%s: '%s' is %s, a fresh %s has %s", ctx, da.p[i].name, pval_str(&da.p[i]), kname[k], pval_str(&fresh[k].p[i]));
	} else {
		for (int i = 0; i < da.n; i++) {
			VF_CHECK(pval_eq(&da.p[i], &sa.p[i]), "model:copy:unequal", "%s: '%s' is %s in the copy, %s in the source", ctx, da.p[i].name, pval_str(&da.p[i]), pval_str(&sa.p[i]));
			if (da.p[i].isstr && da.p[i].straddr && dst != src && fresh[k].p[i].isstr && strcmp(da.p[i].name, "clip") && strcmp(da.p[i].name, "intervals")) VF_CHECK(da.p[i].straddr != sa.p[i].straddr, "model:copy:string-shared", "%s: '%s' of copy and source are the same allocation", ctx, da.p[i].name);
		}
		vf_count("monitor:copies-compared", 1);
	}
	snap_free(&sb); snap_free(&sa); snap_free(&da);
}

/* ------------------------------------------ "" assignment from foreign sources */
/*
 * set("", src) copies from a sibling object.  Sources that are no sibling
 * (object of another kind, plain text, numbers, colours, through a typed
 * source and through mpt_object_set_string(obj, "", text)) are refused - and
 * a refused assignment leaves the (non-default) target as it was.
 */
static void do_foreign(int k, ostore *o, vf_rng *r)
{
	static ostore other[NKinds];
	snap before;
	hconv h;
	char ctx[200];
	int how = (int) vf_below(r, 6), ret;

	snap_take(k, o, &before);
	hconv_init(&h);
	if (how == 0) {
		/* object of another kind */
		int ok = (int) ((k + 1 + vf_below(r, NKinds - 1)) % NKinds);
		o_init(ok, &other[ok], 0);
		if (ok == KLine) { h.vclass = VLine; h.rawtype = mpt_line_typeid(); h.rawlen = sizeof(MPT_STRUCT(line)); memcpy(h.raw, &other[ok].line, h.rawlen); }
		else { h.vclass = VPtr; h.ptr = &other[ok]; h.ptrtype = ptr_typeid(ok); }
		snprintf(ctx, sizeof(ctx), "mpt_%s_set(\"\", %s object)", kname[k], kname[ok]);
		vf_log("%s", ctx);
		ret = o_set(k, o, "", &h._conv);
		o_fini(ok, &other[ok]);
	}
	else if (how < 4) {
		make_value(&h, how == 1 ? 28 : how == 2 ? (int) vf_below(r, 24) : 40, 0, 0, r);   /* text, number, line attributes */
		h.empty = 0;
		snprintf(ctx, sizeof(ctx), "mpt_%s_set(\"\", %s)", kname[k], hconv_str(&h));
		vf_log("%s", ctx);
		ret = o_set(k, o, "", &h._conv);
	}
	else {
		static const char *texts[] = { "some text", "1", "red", "0.5 0.5" };
		const char *txt = texts[vf_below(r, 4)];
		owrap w;
		w._obj._vptr = &owrap_vptr; w.k = k; w.o = o;
		snprintf(ctx, sizeof(ctx), "mpt_object_set_string(%s, \"\", \"%s\")", kname[k], txt);
		vf_log("%s", ctx);
		vf_at("mpt_object_set_string");
		ret = mpt_object_set_string(&w._obj, "", txt, 0);
		vf_count("mpt_object_set_string", 1);
	}
	vf_log("  -> %d", ret);
	vf_count("monitor:foreign-source-assignments", 1);
	if (ret < 0) {
		check_unchanged(k, o, &before, "model:copy:refused-modified", ctx);
		vf_count("foreign:refused", 1);
	} else vf_count("foreign:accepted", 1);   /* e.g. a colour offered to a line: what is taken over is not claimed */
	snap_free(&before);
}

/* ---------------------------------- identifier / node entry points */
/*
 * mpt_object_set_property(obj, mask, identifier, value) and
 * mpt_object_set_nodes(obj, mask, node list): an entry without value resets
 * the named property to its default; an entry with a value does what the
 * direct setter (typed source) / mpt_object_set_string (text source) does on
 * a twin object.
 */
static void do_entry(int k, ostore *o, vf_rng *r)
{
	const int mask = MPT_ENUM(TraverseAll) | MPT_ENUM(TraverseChange) | MPT_ENUM(TraverseDefault);
	const pname *pn = &names[k].n[vf_below(r, (uint32_t) names[k].cnt)];
	int mode = (int) vf_below(r, 4), t, ret;
	MPT_STRUCT(identifier) id;
	owrap w, w2;
	ostore tw;
	snap before, after;
	char ctx[300];
	hconv h, h2;

	fresh_init();
	w._obj._vptr = &owrap_vptr; w.k = k; w.o = o;
	w2._obj._vptr = &owrap_vptr; w2.k = k; w2.o = &tw;
	snap_take(k, o, &before);
	t = snap_find(&before, pn->get);
	VF_CHECK(t >= 0, "model:get:name-missing", "%s: property '%s' is not listed by get", kname[k], pn->get);
	mpt_identifier_init(&id, sizeof(id));
	if (!mpt_identifier_set(&id, pn->set, -1)) vf_inconclusive("mpt_identifier_set failed");
	vf_fp_u64(0xe9 + mode); vf_fp(pn->set, strlen(pn->set));
	if (mode == 0 || mode == 3) {
		/* no value: reset */
		MPT_STRUCT(node) *n = 0;
		if (mode == 0) {
			snprintf(ctx, sizeof(ctx), "mpt_object_set_property(%s, \"%s\", no value)", kname[k], pn->set);
			vf_log("%s", ctx);
			vf_at("mpt_object_set_property");
			ret = mpt_object_set_property(&w._obj, mask, &id, 0);
			vf_count("mpt_object_set_property", 1);
		} else {
			snprintf(ctx, sizeof(ctx), "mpt_object_set_nodes(%s, node \"%s\" without value)", kname[k], pn->set);
			vf_log("%s", ctx);
			if (!(n = mpt_node_new(strlen(pn->set) + 1)) || !mpt_identifier_set(&n->ident, pn->set, -1)) vf_inconclusive("node creation failed");
			vf_at("mpt_object_set_nodes");
			ret = mpt_object_set_nodes(&w._obj, mask, n, 0);
			vf_count("mpt_object_set_nodes", 1);
			mpt_node_destroy(n);
			ret = ret == 1 ? 0 : ret < 0 ? ret : -1000;   /* one entry processed */
		}
		vf_log("  -> %d", ret);
		VF_CHECK(ret == 0, "model:entry:reset-refused", "%s: returned %d", ctx, ret);
		snap_take(k, o, &after);
		check_others(k, &before, &after, t, ctx);
		if (pn->sub) {
			int off = pn->sub == 2 ? 4 : 0;
			VF_CHECK(!memcmp(after.p[t].bytes + off, fresh[k].p[t].bytes + off, 4), "model:entry:reset-not-default", "%s: '%s' is %s, a fresh %s has %s", ctx, pn->get, pval_str(&after.p[t]), kname[k], pval_str(&fresh[k].p[t]));
		}
		else if (!pval_eq(&after.p[t], &fresh[k].p[t])) vf_fail("model:entry:reset-not-default", "%s: returned %d, '%s' is %s, a fresh %s has %s", ctx, ret, pn->get, pval_str(&after.p[t]), kname[k], pval_str(&fresh[k].p[t]));
		snap_free(&after);
		vf_count("monitor:entry-resets-compared", 1);
	} else {
		/* with value: same as the direct route on a twin */
		int r2, cls = (int) vf_below(r, NVCLASS - 1);
		make_value(&h, cls, 0, 0, r);
		if (h.vclass == VStr && !h.str) h.str = "";
		h2 = h;
		o_init(k, &tw, o);
		snprintf(ctx, sizeof(ctx), "mpt_object_set_property(%s, \"%s\", %s)", kname[k], pn->set, hconv_str(&h));
		vf_log("%s", ctx);
		vf_fp(&h.i, sizeof(h.i)); vf_fp(&h.f, sizeof(h.f)); if (h.str) vf_fp(h.str, strlen(h.str));
		vf_at("mpt_object_set_property");
		ret = mpt_object_set_property(&w._obj, mask, &id, &h._conv);
		vf_count("mpt_object_set_property", 1);
		if (h.vclass == VStr) { vf_at("mpt_object_set_string"); r2 = mpt_object_set_string(&w2._obj, pn->set, *h.str ? h.str : 0, 0); }
		else r2 = o_set(k, &tw, pn->set, &h2._conv);
		vf_log("  -> %d (direct route %d)", ret, r2);
		VF_CHECK((ret < 0) == (r2 < 0), "model:entry:differs-from-direct-set", "%s: returns %d, the direct route %d", ctx, ret, r2);
		snap_take(k, o, &after);
		{
			snap b;
			snap_take(k, &tw, &b);
			for (int i = 0; i < after.n; i++) if (!pval_eq(&after.p[i], &b.p[i])) vf_fail("model:entry:differs-from-direct-set", "%s: '%s' is %s, after the direct route %s", ctx, after.p[i].name, pval_str(&after.p[i]), pval_str(&b.p[i]));
			snap_free(&b);
		}
		if (ret < 0) check_unchanged(k, o, &before, "model:entry:refused-modified", ctx);
		snap_free(&after);
		o_fini(k, &tw);
		vf_count("monitor:entry-values-compared", 1);
	}
	mpt_identifier_set(&id, 0, 0);   /* release a long name */
	snap_free(&before);
}

static const char *numtexts[] = { "1e39", "-3.5e38", "1e300", "3.4e38", "0", "1", "5", "7", "10", "255", "256", "300", "-1", "70000", "0.5", "0.25", "1.5", "2.5e3", "1e-3", "abc", "", "x", "12abc", " 3", "1 2", "0.25 0.75" };

/* ------------------------------------------------ set A, then set B */
/*
 * The value a property had before does not influence what an accepted set
 * makes of it: "set A; set B" on an object equals "set B" on its twin (typed
 * and text sources, every setter name).
 */
static void do_set_twice(int k, ostore *o, vf_rng *r)
{
	static const char *cliptexts[] = { "x", "y", "z", "xy", "xz", "yz", "xyz", "" };
	const pname *pn = &names[k].n[vf_below(r, (uint32_t) names[k].cnt)];
	int t = snap_find(&fresh[k], pn->get), text = (int) vf_below(r, 2), ra, rb, rt;
	ostore tw;
	owrap w, w2;
	char ctx[400];

	VF_CHECK(t >= 0, "model:get:name-missing", "%s: property '%s' is not listed by get", kname[k], pn->get);
	w._obj._vptr = &owrap_vptr; w.k = k; w.o = o;
	w2._obj._vptr = &owrap_vptr; w2.k = k; w2.o = &tw;
	o_init(k, &tw, o);
	vf_fp_u64(0x2b + text); vf_fp(pn->set, strlen(pn->set));
	if (text) {
		const char *a, *b;
		for (int i = 0; i < 2; i++) {
			const char *txt;
			if (!strcmp(pn->get, "clip")) txt = cliptexts[vf_below(r, 8)];
			else if (!strcmp(pn->get, "align")) txt = vf_chance(r, 1, 2) ? "be" : "zzb";
			else if (!strcmp(pn->get, "intervals")) txt = vf_chance(r, 1, 3) ? "log" : numtexts[4 + vf_below(r, 6)];
			else if (fresh[k].p[t].isstr) txt = vf_chance(r, 1, 2) ? "first text" : "another, longer text for the second assignment";
			else if (fresh[k].p[t].type == mpt_color_typeid()) txt = coltexts[vf_below(r, 15)];
			else txt = numtexts[vf_below(r, sizeof(numtexts) / sizeof(*numtexts))];
			if (!i) a = txt; else b = txt;
		}
		snprintf(ctx, sizeof(ctx), "%s \"%s\": text \"%.40s\" then \"%.40s\"", kname[k], pn->set, a, b);
		vf_log("%s", ctx);
		vf_fp(a, strlen(a)); vf_fp(b, strlen(b));
		vf_at("mpt_object_set_string");
		ra = mpt_object_set_string(&w._obj, pn->set, a, 0);
		rb = mpt_object_set_string(&w._obj, pn->set, b, 0);
		rt = mpt_object_set_string(&w2._obj, pn->set, b, 0);
		vf_count("mpt_object_set_string", 3);
	} else {
		hconv ha, hb, hb2;
		make_value(&ha, (int) vf_below(r, NVCLASS - 1), 0, 0, r);
		if (ha.vclass == VStr && ha.str == strbuf) { static char keep[400]; snprintf(keep, sizeof(keep), "%s", strbuf); ha.str = keep; }
		make_value(&hb, (int) vf_below(r, NVCLASS - 1), 0, 0, r);
		/* text that the number-or-"log" property accepts without effect (finding in the notes) is no second value */
		if (!strcmp(pn->get, "intervals") && hb.vclass == VStr) { hconv_init(&hb); hb.vclass = VInt; hb.i = 1 + vf_below(r, 9); hb.origin = 'y'; }
		hb2 = hb;
		snprintf(ctx, sizeof(ctx), "%s \"%s\": %.80s then %.80s", kname[k], pn->set, hconv_str(&ha), hconv_str(&hb));
		vf_log("%s", ctx);
		vf_fp(&ha.i, sizeof(ha.i)); vf_fp(&ha.f, sizeof(ha.f)); vf_fp(&hb.i, sizeof(hb.i)); vf_fp(&hb.f, sizeof(hb.f));
		ra = o_set(k, o, pn->set, &ha._conv);
		rb = o_set(k, o, pn->set, &hb._conv);
		rt = o_set(k, &tw, pn->set, &hb2._conv);
	}
	vf_log("  -> A %d, B %d, B alone %d", ra, rb, rt);
	VF_CHECK((rb < 0) == (rt < 0), "model:set:depends-on-previous-value", "%s: the second set returns %d, the same set on the twin that did not get the first one %d", ctx, rb, rt);
	if (rb >= 0) {
		snap a, b;
		snap_take(k, o, &a); snap_take(k, &tw, &b);
		for (int i = 0; i < a.n; i++) if (!pval_eq(&a.p[i], &b.p[i])) vf_fail("model:set:depends-on-previous-value", "%s: '%s' is %s, on the twin that did not get the first value %s", ctx, a.p[i].name, pval_str(&a.p[i]), pval_str(&b.p[i]));
		snap_free(&a); snap_free(&b);
		if (ra >= 0) vf_count("monitor:set-twice-both-accepted", 1);
	}
	vf_count("monitor:set-twice", 1);
	o_fini(k, &tw);
}

/* ---------------------------------------------------------------- get by name */
static void do_get_names(int k, const ostore *o, vf_rng *r)
{
	snap s;
	snap_take(k, o, &s);
	for (int i = 0; i < s.n; i++) {
		MPT_STRUCT(property) pr;
		int ret;
		memset(&pr, 0, sizeof(pr));
		pr.name = s.p[i].name;
		ret = o_get(k, o, &pr);
		VF_CHECK(ret >= 0, "model:get:listed-name-refused", "mpt_%s_get: name '%s' (listed at index %d) returns %d", kname[k], s.p[i].name, i, ret);
		VF_CHECK(pr.name && !strcmp(pr.name, s.p[i].name), "model:get:wrong-property", "mpt_%s_get(\"%s\") answers '%s'", kname[k], s.p[i].name, pr.name ? pr.name : "(null)");
		if (!s.p[i].isstr) VF_CHECK(pr.val._type == s.p[i].type && pr.val._addr && !memcmp(pr.val._addr, s.p[i].bytes, s.p[i].len), "model:get:wrong-property", "mpt_%s_get(\"%s\"): value differs from the one listed by index", kname[k], s.p[i].name);
		vf_count("monitor:get-by-name", 1);
	}
	/* partial matching kinds: every prefix of a listed name from the significant length on */
	{
		int mlen = k == KAxis ? 3 : k == KWorld ? 3 : k == KGraph ? 2 : 0;
		for (int i = 0; mlen && i < s.n; i++) {
			char pre[40];
			size_t l = strlen(s.p[i].name);
			for (size_t n = (size_t) mlen; n <= l && n < sizeof(pre); n++) {
				memcpy(pre, s.p[i].name, n); pre[n] = 0;
				if (vf_chance(r, 1, 3)) pre[0] = (char) toupper((unsigned char) pre[0]);
				check_read(k, o, pre, &s.p[i], 0, "unique prefix");
				vf_count("monitor:get-by-prefix", 1);
			}
		}
	}
	/* names that share no prefix with any property are unknown */
	{
		static const char *unknown[] = { "qqq", "zzzz", "0", "#", "?unknown", "Qx" };
		MPT_STRUCT(property) pr;
		int ret;
		memset(&pr, 0, sizeof(pr));
		pr.name = unknown[vf_below(r, 6)];
		ret = o_get(k, o, &pr);
		VF_CHECK(ret < 0, "model:get:unknown-accepted", "mpt_%s_get(\"%s\") returns %d", kname[k], pr.name ? pr.name : "?", ret);
	}
	snap_free(&s);
}

/* ------------------------------------------------------------------- cases */
/* (kind, setter name, value class) grid */
static uint64_t grid_count(void) { return (uint64_t) total_names() * NVCLASS; }
static void case_grid(uint64_t idx, vf_rng *r)
{
	int cls = (int) (idx % NVCLASS), ni = (int) (idx / NVCLASS), k = 0, t;
	const pname *pn;
	ostore o;
	hconv h;
	char spelled[40];

	fresh_init();
	while (ni >= names[k].cnt) { ni -= names[k].cnt; k++; }
	pn = &names[k].n[ni];
	o_init(k, &o, 0);
	scramble(k, &o, r);
	t = snap_find(&fresh[k], pn->get);
	VF_CHECK(t >= 0, "model:get:name-missing", "%s: property '%s' is not listed by get", kname[k], pn->get);
	make_value(&h, cls, fresh[k].p[t].type, fresh[k].p[t].isstr, r);
	snprintf(spelled, sizeof(spelled), "%s", pn->set);
	vf_fp_u64(0x20); vf_fp_u64(idx);
	vf_nontrivial();
	if (do_set(k, &o, pn, &h, spelled) >= 0) {
		/* then reset and an unknown name */
		do_set(k, &o, pn, 0, spelled);
	}
	{
		snap before;
		int ret;
		snap_take(k, &o, &before);
		ret = o_set(k, &o, "no such property", &h._conv);
		VF_CHECK(ret < 0, "model:set:unknown-accepted", "mpt_%s_set(\"no such property\") returned %d", kname[k], ret);
		check_unchanged(k, &o, &before, "model:set:refused-modified", "unknown property name");
		snap_free(&before);
	}
	o_fini(k, &o);
	vf_sample("grid: %s property '%s' (reads as '%s') := %s, then reset, then an unknown name", kname[k], pn->set, pn->get, hconv_str(&h));
}
/* PRNG sequences */
static void case_sequence(vf_rng *r)
{
	int k = (int) vf_below(r, NKinds), steps = vf_range(r, 5, 40);
	ostore o[2];
	char desc[900];
	size_t l = 0;

	fresh_init();
	o_init(k, &o[0], 0); o_init(k, &o[1], 0);
	l += snprintf(desc, sizeof(desc), "%s:", kname[k]);
	vf_fp_u64(0x21); vf_fp_u64(k);
	for (int s = 0; s < steps; s++) {
		int w = (int) vf_below(r, 2), op = (int) vf_below(r, 20), ni = (int) vf_below(r, (uint32_t) names[k].cnt);
		const pname *pn = &names[k].n[ni];
		int t = snap_find(&fresh[k], pn->get);
		hconv h;
		char spelled[40];
		VF_CHECK(t >= 0, "model:get:name-missing", "%s: property '%s' is not listed by get", kname[k], pn->get);
		snprintf(spelled, sizeof(spelled), "%s", pn->set);
		if (vf_chance(r, 1, 12)) for (char *c = spelled; *c; c++) *c = (char) toupper((unsigned char) *c);   /* most names are matched without case */
		vf_fp_u64(((uint64_t) op << 32) | ((uint64_t) ni << 8) | (uint64_t) w);
		if (op < 9) {
			int cls = (int) vf_below(r, NVCLASS), ret;
			make_value(&h, cls, fresh[k].p[t].type, fresh[k].p[t].isstr, r);
			vf_fp_u64(cls); vf_fp(&h.i, sizeof(h.i)); vf_fp(&h.f, sizeof(h.f)); if (h.str) vf_fp(h.str, strlen(h.str));
			ret = do_set(k, &o[w], pn, &h, spelled);
			if (l + 60 < sizeof(desc)) l += snprintf(desc + l, sizeof(desc) - l, " %d.%s=%.30s%s", w, spelled, hconv_str(&h), ret < 0 ? "!" : "");
		}
		else if (op < 11) {
			do_set(k, &o[w], pn, 0, spelled);
			if (l + 30 < sizeof(desc)) l += snprintf(desc + l, sizeof(desc) - l, " %d.%s=reset", w, spelled);
		}
		else if (op < 14) {
			int how = (int) vf_below(r, 3);
			do_copy(k, &o[w], &o[!w], how, r);
			if (l + 30 < sizeof(desc)) l += snprintf(desc + l, sizeof(desc) - l, " %d:=%s(%d)", w, how == 0 ? "copy\"\"" : how == 1 ? "copyNULL" : "clear", !w);
		}
		else if (op < 15) {
			/* whole object reset: "" with NULL source */
			snap now;
			int ret = o_set(k, &o[w], "", 0);
			vf_log("mpt_%s_set(\"\", NULL) -> %d", kname[k], ret);
			VF_CHECK(ret >= 0, "model:reset:refused", "mpt_%s_set(\"\", NULL) returned %d", kname[k], ret);
			snap_take(k, &o[w], &now);
			for (int i = 0; i < now.n; i++) VF_CHECK(pval_eq(&now.p[i], &fresh[k].p[i]), "model:reset:not-default", "mpt_%s_set(\"\", NULL): '%s' is %s, a fresh %s has %s", kname[k], now.p[i].name, pval_str(&now.p[i]), kname[k], pval_str(&fresh[k].p[i]));
			snap_free(&now);
			vf_count("monitor:object-resets-compared", 1);
			if (l + 30 < sizeof(desc)) l += snprintf(desc + l, sizeof(desc) - l, " %d=clear", w);
		}
		else if (op < 16) {
			switch (vf_below(r, 6)) {
			case 0: do_get_names(k, &o[w], r); break;
			case 1: do_foreign(k, &o[w], r); vf_fp_u64(0xf0); break;
			case 2: do_entry(k, &o[w], r); break;
			default: do_set_twice(k, &o[w], r);
			}
		}
		else if (op < 17) {
			/* unknown names, prefixes of setter names */
			static const char *bad[] = { "no such property", "t", "ti", "xx", "colo", "colors", "begi", "al", " color", "color " };
			snap before;
			const char *nm = bad[vf_below(r, 10)];
			int ret;
			make_value(&h, (int) vf_below(r, NVCLASS), 0, 0, r);
			snap_take(k, &o[w], &before);
			ret = o_set(k, &o[w], nm, &h._conv);
			vf_log("mpt_%s_set(\"%s\", %s) -> %d", kname[k], nm, hconv_str(&h), ret);
			/* not a setter name of this kind: refused and nothing changes (a name of this kind would have been accepted or refused by do_set rules) */
			{
				int known = 0;
				for (int i = 0; i < names[k].cnt; i++) if (!strcasecmp(names[k].n[i].set, nm)) known = 1;
				if (!known) {
					VF_CHECK(ret < 0, "model:set:unknown-accepted", "mpt_%s_set(\"%s\", %s) returned %d", kname[k], nm, hconv_str(&h), ret);
					check_unchanged(k, &o[w], &before, "model:set:refused-modified", "unknown property name");
				}
			}
			snap_free(&before);
		}
		else {
			static const char *strtexts[] = { "hello", "two words", "", "a", "title: x", "1" };
			const char *txt;
			if (fresh[k].p[t].isstr) txt = strtexts[vf_below(r, 6)];
			else if (fresh[k].p[t].type == mpt_color_typeid()) txt = coltexts[vf_below(r, NCOLTEXT)];
			else txt = numtexts[vf_below(r, sizeof(numtexts) / sizeof(*numtexts))];
			if (vf_chance(r, 1, 20)) txt = 0;
			vf_fp(txt ? txt : "\1", txt ? strlen(txt) : 1);
			do_set_string(k, &o[w], pn, txt, r);
			if (l + 50 < sizeof(desc)) l += snprintf(desc + l, sizeof(desc) - l, " %d.%s=\"%.20s\"", w, pn->set, txt ? txt : "(null)");
		}
	}
	o_fini(k, &o[0]); o_fini(k, &o[1]);
	vf_nontrivial();
	vf_sample("%s", desc);
}
/* mpt_color_parse against the reference */
static void case_color(uint64_t idx, vf_rng *r)
{
	char txt[40];
	MPT_STRUCT(color) c = MPT_COLOR_INIT, before;
	uint8_t want[4];
	int ret, wf;

	if (idx < NCOLTEXT) snprintf(txt, sizeof(txt), "%s", coltexts[idx]);
	else {
		static const char hexd[] = "0123456789abcdefABCDEF";
		int n = vf_chance(r, 1, 2) ? 6 : vf_chance(r, 1, 2) ? 8 : (int) vf_below(r, 11);
		txt[0] = '#';
		for (int i = 0; i < n; i++) txt[1 + i] = hexd[vf_below(r, 22)];
		txt[1 + n] = 0;
		if (vf_chance(r, 1, 8) && n) txt[1 + vf_below(r, (uint32_t) n)] = "gz -+x"[vf_below(r, 6)];
	}
	vf_bytes(r, &c, sizeof(c));
	before = c;
	vf_fp(txt, strlen(txt)); vf_fp_u64(0x22);
	vf_log("mpt_color_parse(\"%s\")", txt);
	vf_at("mpt_color_parse");
	ret = mpt_color_parse(&c, txt);
	vf_count("mpt_color_parse", 1);
	wf = ref_color(txt, want);
	if (wf) vf_nontrivial();
	if (ret < 0) {
		VF_CHECK(!memcmp(&c, &before, sizeof(c)), "model:color_parse:refused-modified", "mpt_color_parse(\"%s\") = %d changed the colour", txt, ret);
		VF_CHECK(!wf, "model:color_parse:refused-wellformed", "mpt_color_parse(\"%s\") = %d", txt, ret);
		vf_count("color:refused", 1);
	} else if (wf) {
		VF_CHECK(!memcmp(&c, want, 4), "model:color_parse:value", "mpt_color_parse(\"%s\") gives a=%u r=%u g=%u b=%u, expected a=%u r=%u g=%u b=%u", txt, c.alpha, c.red, c.green, c.blue, want[0], want[1], want[2], want[3]);
		vf_count("color:wellformed-compared", 1);
	} else vf_count("color:lenient-accepted", 1);
	vf_sample("mpt_color_parse(\"%s\") -> %d", txt, ret);
}

/* ----------------------------------------------- two-coordinate properties */
/*
 * graph pos / position ([0,1] per coordinate), graph scale ([0,FLT_MAX]), text
 * pos ([0,1]): the ranges are the ones written in the setters.  Each
 * coordinate independently below / at / inside / above its range, through a
 * typed point source and through text ("x y", "x"): accepted exactly when
 * every coordinate is in range (the same coordinate pair swapped is decided
 * the same way), an accepted pair reads back, a refused one changes nothing.
 */
static const struct { int k; const char *set, *get; float min, max; } fprops[] = {
	{ KGraph, "pos", "pos", 0, 1 }, { KGraph, "position", "pos", 0, 1 }, { KGraph, "scale", "scale", 0, FLT_MAX }, { KText, "pos", "pos", 0, 1 }
};
#define NFPROP 4
#define NFVAL 7
static float fp_value(int p, int i)
{
	static const float unit[NFVAL] = { -0.5f, -1e-6f, 0, 0.5f, 1, 1.0000001f, 1.5f };
	static const float scale[NFVAL] = { -1, -1e-30f, 0, 2, 1e30f, FLT_MAX, 0.25f };
	return fprops[p].max > 1 ? scale[i] : unit[i];
}
static uint64_t fpoint_count(void) { return (uint64_t) NFPROP * NFVAL * NFVAL * 5; }
static void case_fpoint(uint64_t idx, vf_rng *r)
{
	int via = (int) (idx % 5), yi = (int) (idx / 5 % NFVAL), xi = (int) (idx / 5 / NFVAL % NFVAL), p = (int) (idx / 5 / NFVAL / NFVAL);
	int k = fprops[p].k, t, ret, expect_ok;
	float x = fp_value(p, xi), y = fp_value(p, yi), got[2];
	ostore o;
	snap before, after;
	char ctx[200], txt[80];
	pname pn = { fprops[p].set, fprops[p].get, 0 };

	if (via == 2 || via == 3) y = x;    /* single value: both coordinates (comment in mpt_fpoint_set) */
	expect_ok = x >= fprops[p].min && x <= fprops[p].max && y >= fprops[p].min && y <= fprops[p].max;
	fresh_init();
	o_init(k, &o, 0);
	scramble(k, &o, r);
	vf_fp_u64(0x2f); vf_fp_u64(idx);
	vf_nontrivial();
	snap_take(k, &o, &before);
	t = snap_find(&before, pn.get);
	VF_CHECK(t >= 0, "model:get:name-missing", "%s: property '%s' is not listed by get", kname[k], pn.get);
	if (via == 0) {
		hconv h;
		float pt[2] = { x, y };
		hconv_init(&h);
		h.vclass = VFpoint; h.rawtype = mpt_fpoint_typeid(); h.rawlen = 8; memcpy(h.raw, pt, 8);
		snprintf(ctx, sizeof(ctx), "mpt_%s_set(\"%s\", fpoint (%.9g, %.9g))", kname[k], pn.set, x, y);
		vf_log("%s", ctx);
		ret = o_set(k, &o, pn.set, &h._conv);
	} else if (via >= 3) {
		/* source that offers an iterator over one / two values */
		hconv h, h2;
		ostore tw;
		int r2;
		if (via == 3) snprintf(txt, sizeof(txt), "%.9g", x); else snprintf(txt, sizeof(txt), "%.9g %.9g", x, y);
		hconv_init(&h); h.vclass = VIter; h.iter = mpt_iterator_values(txt);
		hconv_init(&h2); h2.vclass = VIter; h2.iter = mpt_iterator_values(txt);
		if (!h.iter || !h2.iter) vf_inconclusive("mpt_iterator_values(\"%s\") failed", txt);
		snprintf(ctx, sizeof(ctx), "mpt_%s_set(\"%s\", iterator over \"%s\")", kname[k], pn.set, txt);
		vf_log("%s", ctx);
		o_init(k, &tw, &o);
		fill_stack(0x00);
		ret = o_set(k, &o, pn.set, &h._conv);
		fill_stack(0xff);
		r2 = o_set(k, &tw, pn.set, &h2._conv);
		twin_compare(k, &o, &tw, ret, r2, ctx);
		o_fini(k, &tw);
		h.iter->_vptr->unref(h.iter); h2.iter->_vptr->unref(h2.iter);
		vf_count("fpoint:iterator-source", 1);
	} else {
		owrap w;
		w._obj._vptr = &owrap_vptr; w.k = k; w.o = &o;
		if (via == 1) snprintf(txt, sizeof(txt), "%.9g %.9g", x, y); else snprintf(txt, sizeof(txt), "%.9g", x);
		snprintf(ctx, sizeof(ctx), "mpt_object_set_string(%s, \"%s\", \"%s\")", kname[k], pn.set, txt);
		vf_log("%s", ctx);
		{
			ostore tw;
			owrap w2;
			int r2;
			o_init(k, &tw, &o);
			w2._obj._vptr = &owrap_vptr; w2.k = k; w2.o = &tw;
			fill_stack(0x00);
			vf_at("mpt_object_set_string");
			ret = mpt_object_set_string(&w._obj, pn.set, txt, 0);
			fill_stack(0xff);
			r2 = mpt_object_set_string(&w2._obj, pn.set, txt, 0);
			twin_compare(k, &o, &tw, ret, r2, ctx);
			o_fini(k, &tw);
		}
		vf_count("mpt_object_set_string", 1);
	}
	vf_log("  -> %d", ret);
	vf_count("monitor:fpoint-grid", 1);
	if (ret < 0) {
		/* a single numeral as TEXT is refused on this tree (the text iterator reports BadType instead of MissingData for
		 * the missing second element): not claimed either way; from an iterator source see via 3 */
		if (via != 2) VF_CHECK(!expect_ok, "model:set:refused-in-range-point", "%s: returned %d, both coordinates are inside [%.9g,%.9g]", ctx, ret, fprops[p].min, fprops[p].max);
		check_unchanged(k, &o, &before, "model:set:refused-modified", ctx);
		vf_count("fpoint:refused", 1);
	} else {
		snap_take(k, &o, &after);
		memcpy(got, after.p[t].bytes, 8);
		if (!expect_ok) vf_fail("model:set:accepted-out-of-range", "%s: returned %d although a coordinate is outside [%.9g,%.9g]; '%s' reads (%.9g, %.9g)", ctx, ret, fprops[p].min, fprops[p].max, pn.get, got[0], got[1]);
		if (via != 2) VF_CHECK(got[0] == x && got[1] == y, "model:set:readback", "%s: '%s' reads (%.9g, %.9g)", ctx, pn.get, got[0], got[1]);
		check_others(k, &before, &after, t, ctx);
		snap_free(&after);
		vf_count("fpoint:accepted", 1);
	}
	snap_free(&before);
	o_fini(k, &o);
	vf_sample("%s -> %d", ctx, ret);
}

/* ------------------------------------------------------------------- entry */
static uint64_t n_seq(void) { return vf_thorough ? 1000000 : 50000; }
static uint64_t n_col(void) { return vf_thorough ? 200000 : 5000; }

uint64_t vf_cases(void) { return grid_count() + n_seq() + n_col() + fpoint_count(); }
void vf_case(uint64_t idx, vf_rng *r)
{
	if (idx < grid_count()) { case_grid(idx, r); return; }
	idx -= grid_count();
	if (idx < n_seq()) { case_sequence(r); return; }
	idx -= n_seq();
	if (idx < n_col()) { case_color(idx, r); return; }
	case_fpoint(idx - n_col(), r);
}
