/*
 * C02 leg (a): message stream integrity under arbitrary segmentation, queue level.
 *
 * producer:  mpt_queue_push() into an encode_queue (chosen capacity / start offset),
 * transport: finished bytes (_state.done) are taken from its front in PRNG-chosen
 *            cuts (what encode_queue::trim / mpt_stream_flush do: crop + done -= k)
 *            and appended with mpt_qpush() to the ring of a decode_queue,
 * consumer:  mpt_queue_recv() / mpt_message_get() / mpt_queue_shift() / mpt_queue_peek();
 * both rings are rotated now and then (mpt_queue_align) so that the open encoder
 * block / the decoded data straddle the wrap.
 *
 * Monitors (after every operation):
 *   - sent log vs. received log: exactly once, in order, byte-equal; the decoded part
 *     of the message in progress is a prefix of the next message to come,
 *   - bounded progress: a complete frame is in the decode queue (counted by
 *     delimiters moved) and the reader got the space it asked for -> a bounded
 *     number of further receive attempts has to deliver it,
 *   - queue invariants: len <= max, done + scratch == encode queue length,
 *     decoder offsets inside the queue,
 *   - ASan/UBSan on everything (exact-size blocks for rings and message pieces).
 * Queues grow only through mpt_queue_prepare() and only after the library reported
 * MissingBuffer / the ring is full.
 */
#include <stdlib.h>
#include <errno.h>
#include <sys/uio.h>

#include "queue.h"
#include "message.h"
#include "convert.h"
#include "vf.h"

const char *vf_name = "c02_queue";

#define KNOWN_ZPE_STALL "model:queue_recv:stall"

static const struct {
	const char *name;
	MPT_TYPE(data_encoder) enc;
	MPT_TYPE(data_decoder) dec;
} framing[4] = {
	{ "cobs",       mpt_encode_cobs,       mpt_decode_cobs },
	{ "cobs/r",     mpt_encode_cobs_r,     mpt_decode_cobs_r },
	{ "cobs/zpe",   mpt_encode_cobs_zpe,   mpt_decode_cobs_zpe },
	{ "cobs/zpe+r", mpt_encode_cobs_zpe_r, mpt_decode_cobs_zpe_r }
};

/* ------------------------------------------------------------------ case state */
#define MAXMSG   400
#define MAXLEN   4200
#define WIREMAX  (1u << 21)

typedef struct {
	uint8_t *d;
	size_t   n;
} msg_t;

static struct {
	int fr;
	MPT_STRUCT(encode_queue) eq;
	MPT_STRUCT(decode_queue) dq;
	msg_t   msg[MAXMSG];
	int     nmsg;
	/* producer */
	int     cur;          /* message being pushed */
	size_t  curpos;       /* bytes of it accepted so far */
	int     terminated;   /* messages terminated */
	int     push_fail;    /* consecutive refused pushes */
	/* transport */
	uint8_t *wire;        /* every byte moved, in order */
	size_t  nwire;
	size_t  frame_end[MAXMSG + 1]; /* wire offset after delimiter of frame j */
	int     delivered;    /* delimiters moved into the decode queue */
	size_t  cuts_in_frame;
	int     split_frames;
	/* consumer */
	int     received;
	int     pending;      /* last recv returned 1: message `received-1` is current */
	int     futile;       /* receive attempts since a complete frame waits */
	int     gave_space;
	/* coverage */
	int     enc_wrapped, dec_wrapped, msg_split;
	size_t  egrow, dgrow;
	unsigned long steps;
} C;

static char hx1[400], hx2[400], hx3[400];

static const char *errname(long r)
{
	static char b[32];
	switch (r) {
	case MPT_ERROR(BadArgument):   return "BadArgument";
	case MPT_ERROR(BadValue):      return "BadValue";
	case MPT_ERROR(BadType):       return "BadType";
	case MPT_ERROR(BadOperation):  return "BadOperation";
	case MPT_ERROR(BadEncoding):   return "BadEncoding";
	case MPT_ERROR(MissingData):   return "MissingData";
	case MPT_ERROR(MissingBuffer): return "MissingBuffer";
	}
	snprintf(b, sizeof(b), "%ld", r);
	return b;
}
static const char *qdesc(const MPT_STRUCT(queue) *q)
{
	static char b[2][96];
	static int i;
	i ^= 1;
	snprintf(b[i], sizeof(b[i]), "max=%zu off=%zu len=%zu", q->max, q->off, q->len);
	return b[i];
}
static const char *ddesc(void)
{
	static char b[200];
	const MPT_STRUCT(decode_state) *s = &C.dq._state;
	snprintf(b, sizeof(b), "dq{%s curr=%zu pos=%zu len=%zu msg=%zd ctx=%#lx}", qdesc(&C.dq.data),
	         s->curr, s->data.pos, s->data.len, s->data.msg, (unsigned long) s->_ctx);
	return b;
}
static const char *edesc(void)
{
	static char b[200];
	snprintf(b, sizeof(b), "eq{%s done=%zu scratch=%zu}", qdesc(&C.eq.data), C.eq._state.done, C.eq._state.scratch);
	return b;
}
static int wrapped(const MPT_STRUCT(queue) *q)
{
	return q->max && q->len && (q->max - q->len) < q->off;
}

/* ------------------------------------------------------------------ invariants */
static void inv_enc(const char *after)
{
	const MPT_STRUCT(queue) *q = &C.eq.data;
	vf_count("monitor:enc-invariant", 1);
	VF_CHECK(q->len <= q->max, "model:encode_queue:len-exceeds-max", "after %s: %s", after, edesc());
	VF_CHECK(q->off <= q->max, "model:encode_queue:offset-outside", "after %s: %s", after, edesc());
	VF_CHECK(C.eq._state.done + C.eq._state.scratch == q->len, "model:encode_queue:done-scratch-mismatch",
	         "after %s: done + scratch != queue length: %s", after, edesc());
	if (wrapped(q)) { C.enc_wrapped = 1; vf_count("state:enc-wrapped", 1); }
}
static void inv_dec(const char *after)
{
	const MPT_STRUCT(queue) *q = &C.dq.data;
	const MPT_STRUCT(decode_state) *s = &C.dq._state;
	vf_count("monitor:dec-invariant", 1);
	VF_CHECK(q->len <= q->max, "model:decode_queue:len-exceeds-max", "after %s: %s", after, ddesc());
	VF_CHECK(q->off <= q->max, "model:decode_queue:offset-outside", "after %s: %s", after, ddesc());
	VF_CHECK(s->curr <= q->len, "model:decode_queue:curr-outside", "after %s: %s", after, ddesc());
	VF_CHECK(s->data.pos <= s->curr && s->data.len <= s->curr - s->data.pos, "model:decode_queue:data-outside",
	         "after %s: decoded area not in front of input position: %s", after, ddesc());
	if (s->data.msg >= 0)
		VF_CHECK((size_t) s->data.msg <= s->data.len, "model:decode_queue:msg-exceeds-data", "after %s: %s", after, ddesc());
	if (wrapped(q)) { C.dec_wrapped = 1; vf_count("state:dec-wrapped", 1); }
}

/* ------------------------------------------------------------------ messages */
static size_t pick_msglen(vf_rng *r)
{
	static const uint16_t edge[] = { 4, 5, 29, 30, 31, 32, 33, 221, 222, 223, 224, 225, 226, 252, 253, 254, 255, 256, 257,
	                                 445, 446, 447, 508, 509, 510, 511, 668, 669, 762, 763, 764, 765 };
	uint32_t k = vf_below(r, 100);
	if (k < 3)  return 0;
	if (k < 8)  return 1 + vf_below(r, 3);
	if (k < 50) return 4 + vf_below(r, 44);
	if (k < 65) return 4 + vf_below(r, 200);
	if (k < 90) return edge[vf_below(r, sizeof(edge) / sizeof(*edge))];
	if (k < 98) return 4 + vf_below(r, 800);
	return 4 + vf_below(r, vf_thorough ? MAXLEN - 4 : 1600);
}
static void fill_msg(vf_rng *r, uint8_t *d, size_t n, uint32_t id)
{
	size_t i = 0;
	uint32_t style = vf_below(r, 10);
	switch (style) {
	case 0: /* uniform */
		vf_bytes(r, d, n);
		break;
	case 1: /* no zero at all: long blocks */
		for (i = 0; i < n; i++) d[i] = 1 + vf_below(r, 255);
		break;
	case 2: /* zero pairs between single bytes: a 00 00 b 00 00 ... */
		for (i = 0; i < n; i++) d[i] = (i % 3) ? 0 : 0x41 + (i / 3) % 26;
		break;
	case 3: /* zeros only */
		memset(d, 0, n);
		break;
	case 4: /* high values (tail inline candidates, 0xdf/0xe0/0xff neighbourhood) */
		for (i = 0; i < n; i++) { static const uint8_t v[] = { 0xde, 0xdf, 0xe0, 0xe1, 0xfe, 0xff, 0, 1, 2 }; d[i] = v[vf_below(r, sizeof(v))]; }
		break;
	default: /* runs */
		while (i < n) {
			static const uint16_t runs[] = { 1, 1, 2, 3, 7, 29, 30, 31, 32, 221, 222, 223, 224, 253, 254, 255 };
			size_t run = runs[vf_below(r, sizeof(runs) / sizeof(*runs))];
			size_t z = 1 + vf_below(r, 4);
			if (vf_chance(r, 1, 3)) run = 1 + vf_below(r, 12);
			for (; run && i < n; run--) d[i++] = 1 + vf_below(r, 255);
			if (vf_chance(r, 1, 6)) z = 0;
			for (; z && i < n; z--) d[i++] = 0;
		}
	}
	/* unique id in front */
	if (n >= 4 && style != 3 && style != 2) {
		d[0] = id >> 24; d[1] = id >> 16; d[2] = id >> 8; d[3] = id;
		if (vf_chance(r, 1, 2)) { d[0] = 0x80 | (id >> 8); d[1] = id; d[2] = 1 + vf_below(r, 255); }
	} else if (n >= 4) {
		/* keep the pattern, id in bytes that are data in the pattern */
		d[0] = 1 + (id % 255);
		if (style == 2) d[3] = 1 + ((id / 255) % 255);
	}
	/* final byte class (tail inline: last byte <,=,> open block code) */
	if (n > 4 && style >= 5) {
		switch (vf_below(r, 5)) {
		case 0: d[n - 1] = 0; break;
		case 1: d[n - 1] = 1 + vf_below(r, 8); break;
		case 2: d[n - 1] = 0xdf + vf_below(r, 3); break;
		case 3: d[n - 1] = 0xff; break;
		default: break;
		}
	}
}

/* ------------------------------------------------------------------ producer */
static void grow(MPT_STRUCT(queue) *q, size_t want, const char *which)
{
	size_t before = q->len, left;
	vf_at("mpt_queue_prepare");
	vf_count("mpt_queue_prepare", 1);
	left = mpt_queue_prepare(q, want);
	vf_log("  prepare(%s, %zu) -> %zu: %s", which, want, left, qdesc(q));
	if (!left) vf_inconclusive("mpt_queue_prepare(%zu) failed (out of memory?)", want);
	VF_CHECK(left >= want && left == q->max - q->len && q->len == before, "model:queue_prepare:space",
	         "prepare(%s, %zu) returned %zu: %s (len before %zu)", which, want, left, qdesc(q), before);
}
/* which branch of mpt_queue_push the state selects (coverage only) */
static void push_path(void)
{
	const MPT_STRUCT(queue) *q = &C.eq.data;
	size_t low;
	if (!q->off) { vf_count("push-path:aligned", 1); return; }
	low = q->max - q->off;
	if (C.eq._state.done >= low) { vf_count("push-path:upper-part", 1); return; }
	if (low - C.eq._state.done >= C.eq._state.scratch) { vf_count("push-path:lower-part", 1); return; }
	if (C.eq._state.scratch >= 256) { vf_count("push-path:align-retry", 1); return; }
	vf_count("push-path:out-of-band", 1);
}
/* returns 1 on progress, 0 when the queue refused (needs drain or growth) */
static int do_push(vf_rng *r)
{
	msg_t *m = &C.msg[C.cur];
	size_t left = m->n - C.curpos, n;
	ssize_t ret;
	uint8_t *piece = 0;
	size_t before_len = C.eq.data.len;

	if (left) {
		switch (vf_below(r, 8)) {
		case 0: n = 1; break;
		case 1: n = 1 + vf_below(r, 4); break;
		case 2: n = 1 + vf_below(r, 40); break;
		case 3: case 4: n = left; break;
		default: n = 1 + vf_below(r, (uint32_t) left); break;
		}
		if (n > left) n = left;
		piece = vf_xalloc(n);
		memcpy(piece, m->d + C.curpos, n);
	} else {
		n = 0;
	}
	push_path();
	/* finished frames partly taken by the transport (offset moved), push larger than the room behind the queued data */
	if (C.eq.data.off && C.eq._state.done && n > C.eq.data.max - C.eq.data.len) {
		vf_count("state:large-push-behind-queued-frames-at-offset", 1);
		if (C.eq.data.max - C.eq.data.off > C.eq._state.done + C.eq._state.scratch) vf_count("state:large-push-partial-append-in-lower-part", 1);
	}
	vf_at("mpt_queue_push");
	vf_count("mpt_queue_push", 1);
	ret = mpt_queue_push(&C.eq, n, piece);
	vf_fp_u64(0x1000000 | n);
	vf_log("push(msg %d @%zu, %zu) = %s | %s", C.cur, C.curpos, n, ret < 0 ? errname(ret) : "ok", edesc());
	if (piece) {
		VF_CHECK(!memcmp(piece, m->d + C.curpos, n), "model:queue_push:source-modified", "push of %zu bytes changed the caller's data", n);
		vf_xfree(piece, n);
	}
	inv_enc("mpt_queue_push");
	if (ret == MPT_ERROR(MissingBuffer)) {
		vf_count("push:MissingBuffer", 1);
		/* a refused push may re-arrange, but not add or drop bytes */
		VF_CHECK(C.eq.data.len == before_len, "model:queue_push:refused-changed-length",
		         "push(%zu) = MissingBuffer but queue length %zu -> %zu", n, before_len, C.eq.data.len);
		return 0;
	}
	VF_CHECK(ret >= 0, "model:queue_push:error", "push(msg %d of %zu bytes @%zu, %zu) = %s on %s (%s)", C.cur, m->n, C.curpos, n,
	         errname(ret), edesc(), framing[C.fr].name);
	VF_CHECK((size_t) ret <= n, "model:queue_push:consumed-too-much", "push(%zu) returned %zd", n, ret);
	if (!n) {
		VF_CHECK(C.eq._state.scratch == 0, "model:queue_push:terminate-left-open-block", "terminate returned %zd but %s", ret, edesc());
		vf_count("push:terminate", 1);
		C.terminated++;
		C.cur++;
		C.curpos = 0;
		C.push_fail = 0;
		return 1;
	}
	if (!ret) {
		vf_count("push:zero", 1);
		return 0;
	}
	if ((size_t) ret < n) vf_count("push:short", 1);
	C.curpos += ret;
	C.push_fail = 0;
	return 1;
}
static void push_refused(vf_rng *r)
{
	size_t nfree = C.eq.data.max - C.eq.data.len;
	C.push_fail++;
	/* refusal with plenty of room and nothing to wait for: the writer is stuck */
	if (nfree >= 1024 && C.push_fail > 2) {
		vf_fail("model:queue_push:stall", "push refused %d times in a row although %zu bytes are free: %s (%s)",
		        C.push_fail, nfree, edesc(), framing[C.fr].name);
	}
	/* stream_push enlarges at once; a transport with flow control drains first */
	if (!C.eq._state.done || vf_chance(r, 1, 6) || C.push_fail > 3) {
		size_t want = nfree + C.egrow;
		if (C.push_fail > 3) want = nfree + 64 * (C.push_fail - 2);
		grow(&C.eq.data, want, "enc");
		inv_enc("mpt_queue_prepare");
		vf_count("enc:grown", 1);
	}
}

/* ------------------------------------------------------------------ transport */
static int do_move(vf_rng *r)
{
	size_t done = C.eq._state.done, room = C.dq.data.max - C.dq.data.len, k, i, z;
	uint8_t *buf;
	int ret;

	if (!done || !room) return 0;
	/* where the next delimiter sits */
	buf = vf_xalloc(done);
	vf_at("mpt_queue_get");
	ret = mpt_queue_get(&C.eq.data, 0, done, buf);
	VF_CHECK(ret >= 0, "model:queue_get:refused", "get(0,%zu) = %d on %s", done, ret, edesc());
	for (z = 0; z < done && buf[z]; z++) ;
	switch (vf_below(r, 10)) {
	case 0: case 1: k = 1; break;
	case 2: k = z < done ? z + 1 : done; break;          /* right after the delimiter */
	case 3: k = z + 2; break;                            /* right after the next code byte */
	case 4: k = z ? z : 1; break;                        /* right before the delimiter */
	case 5: case 6: k = done; break;                     /* everything finished */
	case 7: k = 1 + vf_below(r, 8); break;
	default: k = 1 + vf_below(r, (uint32_t) done); break;
	}
	if (k > done) k = done;
	if (k > room) k = room;
	vf_fp_u64(0x2000000 | k);

	vf_at("mpt_queue_crop");
	ret = mpt_queue_crop(&C.eq.data, 0, k);
	VF_CHECK(ret >= 0, "model:queue_crop:refused", "crop(0,%zu) = %d on %s", k, ret, edesc());
	C.eq._state.done -= k;
	inv_enc("mpt_queue_crop");

	vf_at("mpt_qpush");
	vf_count("mpt_qpush", 1);
	ret = mpt_qpush(&C.dq.data, k, buf);
	VF_CHECK(ret >= 0, "model:qpush:refused", "qpush(%zu) = %d with %zu free", k, ret, room);
	vf_log("move %zu bytes (%s) | %s | %s", k, vf_hex(hx1, 60, buf, k), edesc(), ddesc());
	inv_dec("mpt_qpush");

	if (C.nwire + k > WIREMAX) vf_inconclusive("wire log too small");
	for (i = 0; i < k; i++) {
		C.wire[C.nwire++] = buf[i];
		if (!buf[i]) {
			VF_CHECK(C.delivered < C.terminated, "model:wire:extra-delimiter",
			         "delimiter %d on the wire but only %d messages terminated (wire offset %zu)", C.delivered + 1, C.terminated, C.nwire - 1);
			C.frame_end[C.delivered++] = C.nwire;
			if (C.cuts_in_frame) C.split_frames++;
			C.cuts_in_frame = 0;
		}
	}
	if (k && buf[k - 1]) C.cuts_in_frame++;
	vf_xfree(buf, done);
	vf_count("move:bytes", k);
	vf_count("move:segments", 1);
	return 1;
}

/* ------------------------------------------------------------------ consumer */
static size_t frame_start(int j) { return j ? C.frame_end[j - 1] : 0; }
static const char *frame_hex(int j)
{
	if (j >= C.delivered) return "(frame not complete)";
	return vf_hex(hx3, sizeof(hx3), C.wire + frame_start(j), C.frame_end[j] - frame_start(j));
}
/* read current message through mpt_message_get and compare with sent[idx] */
static void check_message(int idx, const char *when)
{
	MPT_STRUCT(message) msg;
	struct iovec vec;
	const MPT_STRUCT(decode_state) *s = &C.dq._state;
	static uint8_t got[MAXLEN + 16];
	size_t n = 0, len = s->data.msg;
	int ret, j;

	memset(&msg, 0, sizeof(msg));
	vec.iov_base = 0; vec.iov_len = 0;
	vf_at("mpt_message_get");
	vf_count("mpt_message_get", 1);
	ret = mpt_message_get(&C.dq.data, s->data.pos, len, &msg, &vec);
	VF_CHECK(ret >= 0, "model:message_get:refused", "%s: message_get(pos=%zu, len=%zu) = %d on %s", when, s->data.pos, len, ret, ddesc());
	if (ret > 0) { C.msg_split = 1; vf_count("state:message-split", 1); }
	/* the description covers exactly the message and lies inside the ring */
	{
		const uint8_t *b = C.dq.data.base, *p = msg.base;
		size_t described = msg.used + ((ret > 0 && msg.clen) ? vec.iov_len : 0);
		VF_CHECK(described == len && (ret > 0) == (msg.clen > 0) && msg.clen <= 1 && (!msg.clen || msg.cont == &vec),
		         "model:message_get:length", "%s: message_get(pos=%zu, len=%zu) = %d describes %zu + %zu bytes in 1 + %zu parts; %s",
		         when, s->data.pos, len, ret, msg.used, msg.clen ? vec.iov_len : 0, msg.clen, ddesc());
		VF_CHECK(!msg.used || (p >= b && p + msg.used <= b + C.dq.data.max), "model:message_get:outside-ring",
		         "%s: first part %zd..+%zu outside ring of %zu", when, (ssize_t) (p - b), msg.used, C.dq.data.max);
		p = vec.iov_base;
		VF_CHECK(!msg.clen || !vec.iov_len || (p >= b && p + vec.iov_len <= b + C.dq.data.max), "model:message_get:outside-ring",
		         "%s: second part %zd..+%zu outside ring of %zu", when, (ssize_t) (p - b), vec.iov_len, C.dq.data.max);
	}
	if (len > MAXLEN) len = MAXLEN + 1;
	if (msg.used) {
		size_t t = msg.used < len ? msg.used : len;
		memcpy(got, msg.base, t);
		n = t;
	}
	if (ret > 0 && msg.clen) {
		size_t t = vec.iov_len < len - n ? vec.iov_len : len - n;
		memcpy(got + n, vec.iov_base, t);
		n += t;
	}
	VF_CHECK(n == (size_t) s->data.msg || n > MAXLEN, "model:message_get:length", "%s: message_get describes %zu bytes for a message of %zd",
	         when, n, s->data.msg);

	vf_count("monitor:message-compare", 1);
	if (idx >= C.terminated) {
		vf_fail("model:queue_recv:phantom-message", "%s: message %d received (%zu bytes: %s) but only %d were terminated by the sender; %s",
		        when, idx, n, vf_hex(hx1, sizeof(hx1), got, n), C.terminated, ddesc());
	}
	if (n == C.msg[idx].n && !memcmp(got, C.msg[idx].d, n)) return;
	/* classify */
	for (j = 0; j < C.nmsg; j++) {
		if (j == idx || C.msg[j].n < 4 || C.msg[j].n != n || memcmp(got, C.msg[j].d, n)) continue;
		vf_fail(j < idx ? "model:queue_recv:duplicate-message" : "model:queue_recv:skipped-message",
		        "%s: delivery %d is message %d (%zu bytes), expected message %d (%zu bytes); %s", when, idx, j, n, idx, C.msg[idx].n, ddesc());
	}
	vf_fail(n == C.msg[idx].n ? "model:queue_recv:message-content" : "model:queue_recv:message-length",
	        "%s (%s): message %d: got %zu bytes %s, sent %zu bytes %s; wire frame %s; %s", when, framing[C.fr].name, idx,
	        n, vf_hex(hx1, sizeof(hx1), got, n), C.msg[idx].n, vf_hex(hx2, sizeof(hx2), C.msg[idx].d, C.msg[idx].n), frame_hex(idx), ddesc());
}
static void check_partial(const char *when);
static void stall_check(const char *what)
{
	int j = C.received; /* frame that should come next */
	size_t flen;
	if (C.delivered <= C.received) { C.futile = 0; return; }
	flen = C.frame_end[j] - frame_start(j);
	C.futile++;
	vf_count("monitor:progress-check", 1);
	if ((size_t) C.futile > 2 * flen + 16) {
		if (vf_known(KNOWN_ZPE_STALL)) { C.futile = -1; return; }
		vf_fail(KNOWN_ZPE_STALL, "%s: frame %d (%zu bytes: %s) is completely in the decode queue, reader was given space %d times, "
		        "but %d receive attempts delivered nothing; message %s; %s (%s)", what, j, flen, frame_hex(j), C.gave_space, C.futile,
		        vf_hex(hx1, sizeof(hx1), C.msg[j].d, C.msg[j].n), ddesc(), framing[C.fr].name);
	}
}
/* returns 1 when a message was delivered, -1 when the reader asked for space and got it */
static int recv_once(void)
{
	int ret;
	size_t before = C.dq.data.len;

	vf_at("mpt_queue_recv");
	vf_count("mpt_queue_recv", 1);
	ret = mpt_queue_recv(&C.dq);
	vf_fp_u64(0x3000000 | (ret & 0xff));
	vf_log("recv = %s | %s", ret < 0 ? errname(ret) : ret ? "1" : "0", ddesc());
	if (ret == MPT_ERROR(MissingData) && !before) {
		vf_count("recv:empty", 1);
		/* Appendix A: the call after "1" consumes the message */
		VF_CHECK(C.dq._state.data.msg < 0, "model:queue_recv:message-not-consumed", "recv on empty queue = MissingData, message of %zd bytes still current; %s",
		         C.dq._state.data.msg, ddesc());
		C.pending = 0; /* an empty queue keeps nothing to look at */
		return 0;
	}
	inv_dec("mpt_queue_recv");
	if (ret == MPT_ERROR(MissingBuffer)) {
		vf_count("recv:MissingBuffer", 1);
		C.pending = 0;
		/* the reader asks for space: enlarge when the ring is full (mpt_stream_poll) */
		if (C.dq.data.len >= C.dq.data.max) {
			grow(&C.dq.data, C.dgrow, "dec");
			inv_dec("mpt_queue_prepare");
			C.gave_space++;
			vf_count("dec:grown-on-MissingBuffer", 1);
			stall_check("mpt_queue_recv = MissingBuffer");
			return C.futile < 0 ? 0 : -1;
		}
		stall_check("mpt_queue_recv = MissingBuffer");
		return 0;
	}
	VF_CHECK(ret >= 0, "model:queue_recv:error", "recv = %s on a well-formed stream (%s); next frame %s; %s", errname(ret), framing[C.fr].name,
	         frame_hex(C.received), ddesc());
	VF_CHECK(ret == (C.dq._state.data.msg >= 0), "model:queue_recv:return-vs-state", "recv = %d but %s", ret, ddesc());
	if (!ret) {
		vf_count("recv:incomplete", 1);
		C.pending = 0;
		check_partial("after mpt_queue_recv = 0");
		stall_check("mpt_queue_recv = 0");
		return 0;
	}
	vf_count("recv:message", 1);
	VF_CHECK(C.received < C.delivered, "model:queue_recv:message-before-delimiter",
	         "delivery %d although only %d delimiters reached the decode queue; %s", C.received, C.delivered, ddesc());
	check_message(C.received, "after mpt_queue_recv");
	C.received++;
	C.pending = 1;
	C.futile = 0;
	return 1;
}
/* decoded part of the message in progress is a prefix of the next message to come
 * (Appendix A: [data.pos, +data.len) = decoded bytes of the current message) */
static void check_partial(const char *when)
{
	const MPT_STRUCT(decode_state) *s = &C.dq._state;
	static uint8_t got[MAXLEN + 16];
	size_t n = s->data.len;
	int idx = C.received, ret;

	if (s->data.msg >= 0 || !n) return;
	vf_count("monitor:partial-prefix", 1);
	if (idx >= C.nmsg) {
		vf_fail("model:queue_recv:phantom-message", "%s: %zu decoded bytes of a message %d, only %d were sent; %s", when, n, idx, C.nmsg, ddesc());
	}
	VF_CHECK(n <= C.msg[idx].n, "model:queue_recv:partial-too-long", "%s (%s): %zu bytes decoded for message %d of %zu bytes; wire frame %s; %s",
	         when, framing[C.fr].name, n, idx, C.msg[idx].n, frame_hex(idx), ddesc());
	vf_at("mpt_queue_get");
	ret = mpt_queue_get(&C.dq.data, s->data.pos, n, got);
	VF_CHECK(ret >= 0, "model:queue_get:refused", "%s: get(%zu,%zu) = %d on %s", when, s->data.pos, n, ret, ddesc());
	if (memcmp(got, C.msg[idx].d, n)) {
		size_t i;
		for (i = 0; i < n && got[i] == C.msg[idx].d[i]; i++) ;
		vf_fail("model:queue_recv:partial-content", "%s (%s): decoded part of message %d differs at byte %zu of %zu: got ..%s, sent ..%s; %s", when,
		        framing[C.fr].name, idx, i, n, vf_hex(hx1, 100, got + (i > 8 ? i - 8 : 0), n - (i > 8 ? i - 8 : 0)),
		        vf_hex(hx2, 100, C.msg[idx].d + (i > 8 ? i - 8 : 0), C.msg[idx].n - (i > 8 ? i - 8 : 0)), ddesc());
	}
}
/* preview: mpt_queue_peek() may decode the next block of the message in progress.
 * Asserted: returns the decoded length (== state), copies nothing but a prefix of the
 * message to come, does not touch a message that waits to be fetched. */
static void do_peek(vf_rng *r)
{
	MPT_STRUCT(decode_state) before = C.dq._state;
	const MPT_STRUCT(decode_state) *s = &C.dq._state;
	size_t qlen = C.dq.data.len, max, n, i, copied = 0, kept = 0;
	uint8_t *dst = 0;
	const msg_t *m = 0;
	ssize_t ret;
	int idx = before.data.msg >= 0 ? C.received - 1 : C.received;

	switch (vf_below(r, 4)) {
	case 0: max = 0; break;
	case 1: max = 1 + vf_below(r, 8); break;
	default: max = 1 + vf_below(r, 600); break;
	}
	if (idx >= 0 && idx < C.nmsg) m = &C.msg[idx];
	if (vf_chance(r, 3, 4)) {
		dst = vf_xalloc(max);
		/* complement of what may be copied: tells "untouched" from "copied" */
		for (i = 0; i < max; i++) dst[i] = (m && i < m->n) ? (uint8_t) ~m->d[i] : 0xEE;
	}
	vf_at("mpt_queue_peek");
	vf_count("mpt_queue_peek", 1);
	ret = mpt_queue_peek(&C.dq, max, dst);
	vf_fp_u64(0x4000000 | max);
	vf_log("peek(%zu,%s) = %s | %s", max, dst ? "buf" : "null", ret < 0 ? errname(ret) : "len", ddesc());
	VF_CHECK(C.dq.data.len == qlen, "model:queue_peek:queue-length-changed", "peek changed queue length %zu -> %zu", qlen, C.dq.data.len);
	if (!qlen) {
		VF_CHECK(ret == MPT_ERROR(MissingData), "model:queue_peek:empty", "peek on empty queue = %zd", ret);
		vf_xfree(dst, max);
		return;
	}
	inv_dec("mpt_queue_peek");
	/* with a target the number of bytes copied comes back, else the decoded length */
	VF_CHECK(ret >= 0 && ((size_t) ret == s->data.len || (dst && (size_t) ret == max && max < s->data.len)),
	         "model:queue_peek:return", "peek(%zu) = %zd, decoded length is %zu; %s", max, ret, s->data.len, ddesc());
	if (before.data.msg >= 0) {
		VF_CHECK(!memcmp(&before, s, sizeof(before)), "model:queue_peek:pending-message-state-changed",
		         "peek with a message waiting changed the decoder state: pos %zu->%zu len %zu->%zu msg %zd->%zd curr %zu->%zu",
		         before.data.pos, s->data.pos, before.data.len, s->data.len, before.data.msg, s->data.msg, before.curr, s->curr);
		vf_count("peek:message-waiting", 1);
	} else {
		VF_CHECK(s->data.msg < 0 && s->data.pos == before.data.pos && s->data.len >= before.data.len && s->curr >= before.curr,
		         "model:queue_peek:state", "peek moved the decoder backwards / made a message: pos %zu->%zu len %zu->%zu msg %zd->%zd curr %zu->%zu",
		         before.data.pos, s->data.pos, before.data.len, s->data.len, before.data.msg, s->data.msg, before.curr, s->curr);
		if (s->data.len > before.data.len) vf_count("peek:decoded-more", 1);
	}
	if (dst) {
		n = (size_t) ret < max ? (size_t) ret : max;
		for (i = 0; i < max; i++) {
			uint8_t exp = (m && i < m->n) ? m->d[i] : 0x11, keep = (m && i < m->n) ? (uint8_t) ~m->d[i] : 0xEE;
			if (i < n && dst[i] == exp && m && i < m->n) copied++;
			else if (dst[i] == keep) kept++;
			else vf_fail("model:queue_peek:copied-data", "peek(%zu) = %zd: target byte %zu is %02x, message %d has %02x there (untouched would be %02x); %s",
			             max, ret, i, dst[i], idx, exp, keep, ddesc());
		}
		VF_CHECK(!copied || copied == n, "model:queue_peek:copied-partly", "peek(%zu) = %zd copied %zu bytes", max, ret, copied);
		if (copied) vf_count("peek:copied", 1);
		vf_count("monitor:peek-data", 1);
	}
	vf_xfree(dst, max);
	check_partial("after mpt_queue_peek");
	if (C.pending && s->data.msg >= 0) check_message(C.received - 1, "after mpt_queue_peek");
}
/* the rings are the caller's: rotating content to another offset keeps all positions (relative to queue start) */
static void do_rotate(vf_rng *r, int enc)
{
	MPT_STRUCT(queue) *q = enc ? &C.eq.data : &C.dq.data;
	size_t pos;
	if (!q->max) return;
	pos = vf_below(r, (uint32_t) q->max);
	if (vf_chance(r, 1, 3) && q->len) pos = q->max - 1 - vf_below(r, (uint32_t) (q->len < q->max ? q->len : q->max - 1));
	vf_at("mpt_queue_align");
	vf_count(enc ? "mpt_queue_align(enc)" : "mpt_queue_align(dec)", 1);
	mpt_queue_align(q, pos);
	vf_fp_u64(0x5000000 | pos);
	vf_log("align(%s, %zu) | %s", enc ? "enc" : "dec", pos, enc ? edesc() : ddesc());
	if (enc) inv_enc("mpt_queue_align");
	else {
		inv_dec("mpt_queue_align");
		check_partial("after mpt_queue_align");
		if (C.pending && C.dq._state.data.msg >= 0) check_message(C.received - 1, "after mpt_queue_align");
	}
}
static int do_recv(void)
{
	int ret, tries = 0;
	/* space the reader asked for is his: let him use it before the transport fills it */
	while ((ret = recv_once()) < 0 && ++tries < 8) vf_count("recv:retry-with-space", 1);
	return ret > 0;
}
static void do_shift(void)
{
	vf_at("mpt_queue_shift");
	vf_count("mpt_queue_shift", 1);
	mpt_queue_shift(&C.dq);
	vf_log("shift | %s", ddesc());
	inv_dec("mpt_queue_shift");
	check_partial("after mpt_queue_shift");
	if (C.pending && C.dq._state.data.msg >= 0) check_message(C.received - 1, "after mpt_queue_shift");
}
static void do_reget(void)
{
	if (C.pending && C.dq._state.data.msg >= 0) {
		vf_count("monitor:message-still-there", 1);
		check_message(C.received - 1, "re-read before next receive");
	}
}
/* incomplete frame fills the ring: the reader cannot go on without space */
static void dec_full(void)
{
	if (C.dq.data.len < C.dq.data.max) return;
	grow(&C.dq.data, C.dgrow, "dec");
	inv_dec("mpt_queue_prepare");
	vf_count("dec:grown-when-full", 1);
}

/* ------------------------------------------------------------------ case */
static void setup_queue(MPT_STRUCT(queue) *q, size_t max, size_t off)
{
	q->base = max ? vf_xalloc(max) : 0;
	if (max) memset(q->base, 0xEE, max);
	q->max = max;
	q->off = max ? off % max : 0;
	q->len = 0;
}
static size_t pick_cap(vf_rng *r)
{
	static const uint16_t caps[] = { 4, 5, 6, 7, 8, 9, 11, 12, 15, 16, 17, 24, 31, 32, 33, 48, 63, 64, 65, 100, 128, 200, 255, 256, 257, 300, 512, 1000, 1024, 4096 };
	if (vf_chance(r, 1, 40)) return 0;
	if (vf_thorough && vf_chance(r, 1, 3)) return 4 + vf_below(r, 4093);
	return caps[vf_below(r, sizeof(caps) / sizeof(*caps))];
}
static void case_free(void)
{
	int i;
	for (i = 0; i < C.nmsg; i++) free(C.msg[i].d);
	free(C.eq.data.base);
	free(C.dq.data.base);
	free(C.wire);
}
static void run_case(uint64_t idx, vf_rng *r, int fr, size_t ecap, size_t eoff, size_t dcap, size_t doff, int nmsg, const msg_t *fixed)
{
	static const uint16_t grows[] = { 1, 2, 7, 16, 64, 256 };
	unsigned wp, wm, wr, ws;   /* step weights: push, move, recv, shift/reget */
	size_t total = 0;
	int i, abandoned = 0, rot;
	unsigned long limit;

	memset(&C, 0, sizeof(C));
	C.fr = fr;
	C.eq._enc = framing[fr].enc;
	C.dq._dec = framing[fr].dec;
	C.dq._state.data.msg = -1;
	setup_queue(&C.eq.data, ecap, eoff);
	setup_queue(&C.dq.data, dcap, doff);
	C.egrow = grows[vf_below(r, 6)];
	C.dgrow = grows[vf_below(r, 6)];
	C.nmsg = nmsg;
	for (i = 0; i < nmsg; i++) {
		size_t n = fixed ? fixed[i].n : pick_msglen(r);
		C.msg[i].n = n;
		C.msg[i].d = malloc(n + 1);
		if (fixed) memcpy(C.msg[i].d, fixed[i].d, n);
		else fill_msg(r, C.msg[i].d, n, (uint32_t) (idx * 1000 + i + 1));
		vf_fp(C.msg[i].d, n);
		total += n;
	}
	C.wire = malloc(WIREMAX);
	/* schedule mood */
	wp = 1 + vf_below(r, 8); wm = 1 + vf_below(r, 8); wr = 1 + vf_below(r, 8); ws = vf_below(r, 4);
	rot = vf_chance(r, 1, 2);
	vf_fp_u64(fr); vf_fp_u64(ecap); vf_fp_u64(C.eq.data.off); vf_fp_u64(dcap); vf_fp_u64(C.dq.data.off);
	vf_log("case: %s enc{max=%zu off=%zu grow=%zu} dec{max=%zu off=%zu grow=%zu} %d messages, %zu bytes, weights %u/%u/%u/%u",
	       framing[fr].name, ecap, C.eq.data.off, C.egrow, dcap, C.dq.data.off, C.dgrow, nmsg, total, wp, wm, wr, ws);
	limit = 64 * (total + 16 * nmsg) + 4096;

	while (C.received < C.nmsg) {
		unsigned sum = wp + wm + wr + ws, k = vf_below(r, sum);
		int can_push = C.cur < C.nmsg;
		if (++C.steps > limit)
			vf_fail("model:schedule:no-termination", "%lu steps: sent %d/%d, delimiters moved %d, received %d; %s | %s", C.steps,
			        C.terminated, C.nmsg, C.delivered, C.received, edesc(), ddesc());
		if (k < wp) {
			if (!can_push) continue;
			if (!do_push(r)) push_refused(r);
		} else if (k < wp + wm) {
			if (!do_move(r)) {
				/* nothing moved: ring of the reader is full, or nothing finished */
				if (C.eq._state.done && C.dq.data.len >= C.dq.data.max) {
					do_reget();
					if (!do_recv() && C.futile >= 0) dec_full();
				}
			}
		} else if (k < wp + wm + wr) {
			/* an empty ring has nothing to say: look at it only now and then */
			if (!C.dq.data.len && !vf_chance(r, 1, 16)) continue;
			do_reget();
			do_recv();
		} else switch (vf_below(r, 8)) {
			case 0: case 1: do_shift(); break;
			case 2: do_reget(); break;
			case 3: case 4: case 5: do_peek(r); break;
			case 6: if (rot) do_rotate(r, 1); break;
			default: if (rot) do_rotate(r, 0); break;
		}
		if (C.futile < 0) { abandoned = 1; break; }
	}
	if (!abandoned) {
		/* everything sent has been received; nothing may be left or appear */
		int ret;
		VF_CHECK(C.cur == C.nmsg && C.terminated == C.nmsg, "model:schedule:received-more-than-sent", "received %d, terminated %d", C.received, C.terminated);
		VF_CHECK(!C.eq.data.len && C.nwire == C.frame_end[C.nmsg - 1], "model:wire:bytes-after-last-delimiter",
		         "all %d messages received but %zu bytes remain in the encode queue / %zu bytes moved after the last delimiter",
		         C.nmsg, C.eq.data.len, C.nwire - C.frame_end[C.nmsg - 1]);
		do_reget();
		vf_at("mpt_queue_recv");
		vf_count("mpt_queue_recv", 1);
		ret = mpt_queue_recv(&C.dq);
		vf_log("final recv = %s | %s", ret < 0 ? errname(ret) : ret ? "1" : "0", ddesc());
		VF_CHECK(ret <= 0, "model:queue_recv:phantom-message", "recv = %d after all %d messages were received; %s", ret, C.nmsg, ddesc());
		VF_CHECK(ret == 0 || ret == MPT_ERROR(MissingData), "model:queue_recv:error-at-end", "recv = %s on drained stream; %s", errname(ret), ddesc());
		vf_count("monitor:conservation-at-end", 1);
		vf_count("messages:delivered", C.received);
		if (C.received >= 3 && (C.enc_wrapped || C.dec_wrapped) && C.split_frames) vf_nontrivial();
		if (C.enc_wrapped) vf_count("history:enc-wrapped", 1);
		if (C.dec_wrapped) vf_count("history:dec-wrapped", 1);
		if (C.msg_split) vf_count("history:message-split", 1);
		if (C.split_frames) vf_count("history:frame-in-several-segments", 1);
	} else {
		vf_count("history:abandoned-known-finding", 1);
	}
	vf_max("max:enc-capacity", C.eq.data.max);
	vf_max("max:dec-capacity", C.dq.data.max);
	vf_sample("%s enc{max=%zu off=%zu} dec{max=%zu off=%zu} %d messages / %zu bytes, %zu wire bytes in %lu steps, frames cut: %d, first message %s",
	          framing[fr].name, ecap, eoff, dcap, doff, nmsg, total, C.nwire, C.steps, C.split_frames,
	          vf_hex(hx1, 80, C.msg[0].d, C.msg[0].n));
	case_free();
}


/* ------------------------------------------------------------------ raw (codec-less) encode queue */
/*
 * Without encoder mpt_queue_push() appends as much as fits (pending part = scratch),
 * push(0,0) commits pending to finished, push(1,NULL) rolls the pending part back.
 * Byte model: finished F, pending P; queue content == F+P, done == |F|, scratch == |P|;
 * the transport (crop + done -= k) sees the committed bytes exactly once and in order.
 */
#define RAWMAX 70000
static struct {
	MPT_STRUCT(encode_queue) eq;
	uint8_t m[RAWMAX];   /* F + P */
	size_t nf, np;
	uint8_t *commit;     /* everything committed so far */
	size_t ncommit, ntaken;
	uint8_t next;
} R;
static const char *rdesc_raw(void)
{
	static char b[200];
	snprintf(b, sizeof(b), "raw eq{%s done=%zu scratch=%zu} model{finished=%zu pending=%zu}", qdesc(&R.eq.data), R.eq._state.done, R.eq._state.scratch, R.nf, R.np);
	return b;
}
static void raw_check(const char *op)
{
	const MPT_STRUCT(queue) *q = &R.eq.data;
	const uint8_t *b = q->base;
	size_t i, n = R.nf + R.np;
	vf_count("monitor:raw-model-compare", 1);
	VF_CHECK(q->len <= q->max && q->off <= q->max, "model:raw_queue:range", "after %s: %s", op, rdesc_raw());
	VF_CHECK(R.eq._state.done == R.nf && R.eq._state.scratch == R.np && q->len == n, "model:raw_push:accounting",
	         "after %s: finished/pending sizes differ from the byte model: %s", op, rdesc_raw());
	for (i = 0; i < n; i++) {
		uint8_t v = b[(q->off + i) % q->max];
		if (v != R.m[i]) vf_fail("model:raw_push:content", "after %s: byte %zu is %02x, model %02x; %s", op, i, v, R.m[i], rdesc_raw());
	}
	if (wrapped(q)) vf_count("state:raw-wrapped", 1);
}
static void raw_push(vf_rng *r, size_t n, const char *why)
{
	size_t nfree = R.eq.data.max - R.eq.data.len, exp = n < nfree ? n : nfree, i;
	size_t off = R.eq.data.off, len = R.eq.data.len, max = R.eq.data.max;
	uint8_t *d = vf_xalloc(n);
	ssize_t ret;
	(void) r;
	for (i = 0; i < n; i++) { if (!++R.next) R.next = 1; d[i] = R.next; }
	vf_at("mpt_queue_push");
	vf_count("mpt_queue_push(raw)", 1);
	ret = mpt_queue_push(&R.eq, n, d);
	vf_fp_u64(0x6000000 | n);
	vf_log("raw push(%zu) [%s] = %s%zd | %s", n, why, ret < 0 ? errname(ret) : "", ret < 0 ? (ssize_t) 0 : ret, rdesc_raw());
	if (!nfree) {
		VF_CHECK(ret == MPT_ERROR(MissingBuffer), "model:raw_push:full-queue", "push(%zu) on a full queue = %zd; %s", n, ret, rdesc_raw());
		vf_count("raw:MissingBuffer", 1);
	} else {
		/* accepts what fits and says how much */
		VF_CHECK(ret == (ssize_t) exp, "model:raw_push:return", "push(%zu) with %zu bytes free = %s%zd, expected %zu; %s", n, nfree,
		         ret < 0 ? errname(ret) : "", ret < 0 ? (ssize_t) 0 : ret, exp, rdesc_raw());
		if (R.nf + R.np + exp > RAWMAX) vf_inconclusive("raw model too small");
		memcpy(R.m + R.nf + R.np, d, exp);
		R.np += exp;
		if (exp < n) {
			vf_count("state:raw-partial-accept", 1);
			if (max && off + len < max && off + len + exp > max) vf_count("state:raw-partial-accept-wrapping", 1);
			else if (max && off + len >= max) vf_count("state:raw-partial-accept-in-upper-part", 1);
		}
	}
	vf_xfree(d, n);
	raw_check("push");
}
static void raw_commit(void)
{
	ssize_t ret;
	vf_at("mpt_queue_push");
	vf_count("mpt_queue_push(raw commit)", 1);
	ret = mpt_queue_push(&R.eq, 0, 0);
	vf_log("raw commit = %zd | %s", ret, rdesc_raw());
	VF_CHECK(ret == (ssize_t) (R.nf + R.np), "model:raw_push:commit-return", "commit = %zd, queue holds %zu bytes; %s", ret, R.nf + R.np, rdesc_raw());
	if (R.ncommit + R.np > (1u << 20)) vf_inconclusive("raw commit log too small");
	memcpy(R.commit + R.ncommit, R.m + R.nf, R.np);
	R.ncommit += R.np;
	if (R.np) vf_count("raw:commit-with-pending", 1);
	R.nf += R.np; R.np = 0;
	raw_check("commit");
}
static void raw_rollback(size_t n)
{
	ssize_t ret;
	vf_at("mpt_queue_push");
	vf_count("mpt_queue_push(raw rollback)", 1);
	ret = mpt_queue_push(&R.eq, n, 0);
	vf_log("raw rollback(%zu) = %zd | %s", n, ret, rdesc_raw());
	if (n == 1 && R.np) {
		VF_CHECK(ret == 0, "model:raw_push:rollback-refused", "push(1, NULL) with %zu pending bytes = %zd; %s", R.np, ret, rdesc_raw());
		R.np = 0;
		vf_count("raw:rollback", 1);
	} else {
		VF_CHECK(ret < 0, "model:raw_push:rollback-accepted", "push(%zu, NULL) with %zu pending bytes = %zd; %s", n, R.np, ret, rdesc_raw());
		vf_count("raw:rollback-refused", 1);
	}
	raw_check("rollback");
}
static void raw_take(vf_rng *r)
{
	size_t done = R.eq._state.done, k;
	uint8_t *buf;
	int ret;
	if (!done) return;
	k = vf_chance(r, 1, 2) ? done : 1 + vf_below(r, (uint32_t) done);
	buf = vf_xalloc(k);
	vf_at("mpt_queue_get");
	ret = mpt_queue_get(&R.eq.data, 0, k, buf);
	VF_CHECK(ret >= 0, "model:queue_get:refused", "get(0,%zu) = %d; %s", k, ret, rdesc_raw());
	vf_at("mpt_queue_crop");
	ret = mpt_queue_crop(&R.eq.data, 0, k);
	VF_CHECK(ret >= 0, "model:queue_crop:refused", "crop(0,%zu) = %d; %s", k, ret, rdesc_raw());
	R.eq._state.done -= k;
	vf_fp_u64(0x7000000 | k);
	vf_log("raw take %zu | %s", k, rdesc_raw());
	/* committed bytes arrive exactly once and in order */
	vf_count("monitor:raw-wire-compare", 1);
	VF_CHECK(R.ntaken + k <= R.ncommit && !memcmp(buf, R.commit + R.ntaken, k), "model:raw_wire:content",
	         "bytes taken from the queue front differ from the committed stream at offset %zu (+%zu): %s / %s; %s", R.ntaken, k,
	         vf_hex(hx1, 100, buf, k), vf_hex(hx2, 100, R.commit + R.ntaken, R.ntaken + k <= R.ncommit ? k : 0), rdesc_raw());
	R.ntaken += k;
	memmove(R.m, R.m + k, R.nf + R.np - k);
	R.nf -= k;
	vf_xfree(buf, k);
	if (R.np) vf_count("state:raw-take-with-pending", 1);
	raw_check("take");
}
static void case_raw(uint64_t idx, vf_rng *r)
{
	static const uint16_t caps[] = { 0, 1, 2, 3, 4, 5, 7, 8, 12, 16, 17, 31, 32, 33, 64, 100, 255, 256, 257 };
	size_t cap = caps[vf_below(r, sizeof(caps) / sizeof(*caps))], growby = 1 + vf_below(r, vf_chance(r, 1, 2) ? 8 : 300);
	int nops = vf_range(r, 20, vf_thorough ? 300 : 150), i, partial = 0;

	(void) idx;
	memset(&R.eq, 0, sizeof(R.eq));
	R.nf = R.np = R.ncommit = R.ntaken = 0;
	R.commit = malloc(1u << 20);
	setup_queue(&R.eq.data, cap, cap ? vf_below(r, (uint32_t) cap) : 0);
	vf_fp_u64(0xdaa); vf_fp_u64(cap); vf_fp_u64(R.eq.data.off);
	vf_log("raw case: max=%zu off=%zu grow=%zu", cap, R.eq.data.off, growby);
	for (i = 0; i < nops; i++) {
		size_t nfree = R.eq.data.max - R.eq.data.len, n;
		switch (vf_below(r, 12)) {
		case 0: case 1: case 2:
			/* single call */
			n = vf_chance(r, 1, 3) ? nfree + 1 + vf_below(r, 20) : 1 + vf_below(r, (uint32_t) nfree + 4);
			if (nfree + R.nf + R.np > 30000) n = 1;
			raw_push(r, n, "single");
			break;
		case 3: case 4: case 5: {
			/* the loop of mpt_stream_push(): push, enlarge on MissingBuffer, push the rest */
			size_t left = vf_chance(r, 1, 2) ? nfree + 1 + vf_below(r, 40) : 1 + vf_below(r, 300);
			int guard = 0;
			if (R.nf + R.np + left > 30000) left = 1;
			while (left && ++guard < 64) {
				size_t before = R.np;
				raw_push(r, left, "loop");
				if (R.np > before) {
					if (R.np - before < left) { partial = 1; }
					left -= R.np - before;
					if (left) vf_count("state:raw-continued-after-partial-accept", 1);
					continue;
				}
				grow(&R.eq.data, vf_chance(r, 1, 2) ? growby : left + growby, "raw");
				raw_check("prepare");
				vf_count("raw:grown", 1);
			}
			break; }
		case 6: case 7: raw_commit(); break;
		case 8: raw_rollback(vf_chance(r, 1, 5) ? 2 + vf_below(r, 5) : 1); break;
		case 9: case 10: raw_take(r); break;
		default:
			if (R.eq.data.max) {
				vf_at("mpt_queue_align");
				mpt_queue_align(&R.eq.data, vf_below(r, (uint32_t) R.eq.data.max));
				vf_log("raw align | %s", rdesc_raw());
				raw_check("align");
			}
		}
	}
	raw_commit();
	while (R.eq._state.done) raw_take(r);
	VF_CHECK(R.ntaken == R.ncommit && !R.eq.data.len, "model:raw_wire:conservation", "committed %zu bytes, taken %zu, %zu left in the queue", R.ncommit, R.ntaken, R.eq.data.len);
	vf_count("monitor:raw-conservation-at-end", 1);
	if (partial && R.ncommit > 8) vf_nontrivial();
	vf_sample("raw encode_queue max=%zu: %d operations (push loops with partial acceptance, commit, rollback, take), %zu bytes committed and taken", cap, nops, R.ncommit);
	free(R.eq.data.base);
	free(R.commit);
}

/* ------------------------------------------------------------------ entry */
/* [0, NG): small grid: every framing x capacity 4..GRID x every start offset (encoder and decoder alike) */
static size_t grid_max(void) { return vf_thorough ? 32 : 12; }
static uint64_t n_grid(void)
{
	uint64_t n = 0;
	for (size_t c = 4; c <= grid_max(); c++) n += c;
	return n * 4;
}
static uint64_t n_hist(void) { return vf_thorough ? 600000 : 40000; }

static uint64_t n_raw(void) { return vf_thorough ? 100000 : 8000; }

uint64_t vf_cases(void) { return n_grid() + n_hist() + n_raw(); }

void vf_case(uint64_t idx, vf_rng *r)
{
	if (idx < n_grid()) {
		int fr = idx % 4;
		uint64_t s = idx / 4;
		size_t c;
		for (c = 4; s >= c; c++) s -= c;
		vf_count("grid:cases", 1);
		run_case(idx, r, fr, c, s, c, (c - s) % c, vf_range(r, 6, 14), 0);
		return;
	}
	idx -= n_grid();
	if (idx >= n_hist()) { case_raw(idx - n_hist(), r); return; }
	{
		int fr = idx % 4;
		size_t ecap = pick_cap(r), dcap = pick_cap(r);
		size_t eoff = ecap ? vf_below(r, (uint32_t) ecap) : 0, doff = dcap ? vf_below(r, (uint32_t) dcap) : 0;
		if (vf_chance(r, 1, 4)) eoff = ecap ? ecap - 1 - vf_below(r, ecap < 4 ? (uint32_t) ecap : 4) : 0;
		run_case(idx + n_grid(), r, fr, ecap, eoff, dcap, doff, vf_range(r, 5, vf_thorough ? 80 : 60), 0);
	}
}
