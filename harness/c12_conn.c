/*
 * C12 leg (d): the reply protocol through struct connection
 * (mpt_connection_assign / _push / _await / _dispatch, mpt_outdata_recv /
 * _reply) over a stream socketpair (COBS) and over a datagram socketpair.
 *
 * The connection is used the way the library's own callers use it:
 * examples/io/mclient.c (id width written to con.out._idlen) and
 * output_remote.c (input step = mpt_stream_poll on the connection's stream /
 * mpt_outdata_recv on its socket, then mpt_connection_dispatch).
 *
 * The harness is the peer on the other socket.  Bursts of two kinds:
 *  - peer requests: frames [id][serial,payload]; the event handler answers 0,
 *    1 or 2 times through ev->reply or defers and answers later / releases
 *    the deferred handle.  Oracle at the peer: every frame coming back has the
 *    reply bit and the id of a dispatched request, at most one per request,
 *    exactly one (explicit or default) at the end.
 *  - own requests: mpt_connection_await(handler, record) + mpt_connection_push;
 *    the peer checks the id of the request frame and answers all of them in
 *    or out of order; every reply must reach the handler registered for that
 *    id, with its own body, exactly once.
 */
#include <stdlib.h>
#include <unistd.h>
#include <fcntl.h>
#include <errno.h>
#include <poll.h>
#include <inttypes.h>
#include <sys/uio.h>
#include <sys/socket.h>

#include "meta.h"
#include "types.h"
#include "array.h"
#include "message.h"
#include "convert.h"
#include "output.h"
#include "event.h"
#include "connection.h"
#include "stream.h"
#include "vf.h"

const char *vf_name = "c12_conn";

#define MAXREQ 64
#define MAXID  8
enum { PlanSilent, PlanReply, PlanReplyTwice, PlanDeferReply, PlanDeferRelease, PlanCount };
struct request {
	int serial;
	int own;               /* our request (await/push) or the peer's */
	uint8_t id[MAXID];
	uintptr_t nid;         /* own: numeric id */
	int zero;
	int plan;
	int handler_ret;
	int handled;
	int replies_seen;      /* peer: frames for this request */
	int delivered;         /* own: reply handler invocations */
	int answered;          /* own: the peer has sent the reply */
	int seen_by_peer;      /* own: the request frame arrived */
	MPT_INTERFACE(reply_context_detached) *deferred;
	MPT_INTERFACE(reply_context) *rc;   /* reply context seen by the handler (lives with the connection) */
	int full_queue;        /* dispatched while the peer's datagram queue was full */
	int first_ret;         /* result of the handler's reply call */
	uint8_t payload[16];
	size_t plen;
};
static struct request reqs[MAXREQ];
static int nreq;
static size_t idlen;
static int dgram;
static const char *cur = "";
static char hx1[200], hx2[200];
static MPT_STRUCT(connection) con;

/* -------------------------------------------------------------- COBS (peer) */
static size_t cobs_encode(const uint8_t *src, size_t len, uint8_t *dst)
{
	size_t o = 1, code_at = 0;
	uint8_t code = 1;
	for (size_t i = 0; i < len; i++) {
		if (src[i]) { dst[o++] = src[i]; code++; }
		if (!src[i] || code == 0xff) { dst[code_at] = code; code = 1; code_at = o++; }
	}
	dst[code_at] = code;
	dst[o++] = 0;
	return o;
}
static long cobs_decode(const uint8_t *src, size_t len, uint8_t *dst)
{
	size_t o = 0, i = 0;
	while (i < len) {
		uint8_t code = src[i++];
		if (!code) return -1;
		for (uint8_t k = 1; k < code; k++) { if (i >= len) return -1; dst[o++] = src[i++]; }
		if (code < 0xff && i < len) dst[o++] = 0;
	}
	return (long) o;
}

/* ----------------------------------------------------------------- handlers */
static void reply_body(const struct request *q, int k, uint8_t *body) { body[0] = 0xA0; body[1] = (uint8_t) q->serial; body[2] = (uint8_t) k; }

static int hnd(void *arg, MPT_STRUCT(event) *ev)
{
	MPT_STRUCT(message) m;
	uint8_t body[40];
	size_t n;
	struct request *q;
	(void) arg;
	vf_count("callback:handler", 1);
	if (!ev) return 0;
	VF_CHECK(ev->msg != 0, "model:conn:event-without-message", "handler invoked without message");
	m = *ev->msg;
	n = mpt_message_read(&m, sizeof(body), body);
	VF_CHECK(n >= 1 && body[0] < nreq && !reqs[body[0]].own, "model:conn:payload", "handler received message %s that names no peer request", vf_hex(hx1, sizeof(hx1), body, n));
	q = &reqs[body[0]];
	q->handled++;
	VF_CHECK(q->handled == 1, "model:conn:request-dispatched-twice", "request #%d dispatched %d times", q->serial, q->handled);
	VF_CHECK(n == q->plen && !memcmp(body, q->payload, n), "model:conn:payload", "request #%d arrived with payload %s, sent %s", q->serial,
	         vf_hex(hx1, sizeof(hx1), body, n), vf_hex(hx2, sizeof(hx2), q->payload, q->plen));
	if (q->zero) { vf_count("request:without-id", 1); return q->handler_ret; }
	VF_CHECK(ev->reply != 0, "model:conn:no-reply-context", "request #%d (id %s) dispatched without reply context", q->serial, vf_hex(hx1, sizeof(hx1), q->id, idlen));
	q->rc = ev->reply;
	q->first_ret = 1;
	if (q->plan == PlanReply || q->plan == PlanReplyTwice) {
		for (int k = 0; k < (q->plan == PlanReplyTwice ? 2 : 1); k++) {
			MPT_STRUCT(message) ans = MPT_MESSAGE_INIT;
			struct iovec cont[2];
			uint8_t b[3];
			int r;
			reply_body(q, 0, b);
			ans.base = b; ans.used = sizeof(b);
			if (q->serial % 3 == 1) {
				/* same content, fragmented: empty first part, body split over two continuation parts */
				ans.used = 0;
				cont[0].iov_base = b; cont[0].iov_len = 1;
				cont[1].iov_base = b + 1; cont[1].iov_len = 2;
				ans.cont = cont; ans.clen = 2;
				vf_count("reply:fragmented-message", 1);
			}
			vf_at("reply_context.reply");
			vf_count("reply_context.reply", 1);
			r = ev->reply->_vptr->reply(ev->reply, &ans);
			vf_log("   handler #%d: reply attempt %d = %d", q->serial, k, r);
			if (!k) q->first_ret = r;
			if (!k && q->full_queue) {
				/* the socket may legitimately reject: the request then stays pending (retried after the peer has drained) */
				vf_count("conn:reply-attempted-on-full-datagram-queue", 1);
				vf_count(r < 0 ? "conn:reply-rejected-by-full-queue" : "conn:reply-accepted-on-full-queue", 1);
			}
			else if (!k) VF_CHECK(r >= 0, "model:conn:reply-refused", "first reply to request #%d returned %d", q->serial, r);
			else { vf_count("monitor:further-reply-refused", 1); VF_CHECK(r < 0, "model:reply:second-accepted", "second reply to request #%d returned %d", q->serial, r); }
		}
	} else if (q->plan == PlanDeferReply || q->plan == PlanDeferRelease) {
		vf_at("reply_context.defer");
		vf_count("reply_context.defer", 1);
		q->deferred = ev->reply->_vptr->defer(ev->reply);
		vf_log("   handler #%d: defer = %p", q->serial, (void *) q->deferred);
		if (!q->deferred) { vf_count("defer:refused", 1); q->plan = PlanSilent; }
		else {
			MPT_STRUCT(message) ans = MPT_MESSAGE_INIT;
			uint8_t b[3];
			int r;
			/* ownership moved: the context itself must refuse now */
			reply_body(q, 1, b);
			ans.base = b; ans.used = sizeof(b);
			r = ev->reply->_vptr->reply(ev->reply, &ans);
			vf_count("monitor:further-reply-refused", 1);
			VF_CHECK(r < 0, "model:reply:second-accepted", "reply on the context after defer() of request #%d returned %d", q->serial, r);
		}
	}
	return q->handler_ret;
}
static int whnd(void *arg, const MPT_STRUCT(message) *msg)
{
	struct request *q = arg;
	uint8_t body[40], want[3];
	MPT_STRUCT(message) m;
	size_t n;
	vf_count("callback:reply-handler", 1);
	VF_CHECK(q >= reqs && q < reqs + nreq && q->own, "model:conn:foreign-argument", "%s: reply handler called with foreign argument %p", cur, arg);
	if (!msg) return 0;
	m = *msg;
	n = mpt_message_read(&m, sizeof(body), body);
	q->delivered++;
	vf_log("   reply handler of own request #%d: %s", q->serial, vf_hex(hx1, sizeof(hx1), body, n));
	want[0] = 0xB0; want[1] = (uint8_t) q->serial; want[2] = 0x5A;
	vf_count("monitor:own-reply-compared", 1);
	VF_CHECK(n == 3 && !memcmp(body, want, 3), "model:conn:wrong-reply", "%s: handler waiting for own request #%d (id %#" PRIxPTR ") was handed %s, its reply is %s",
	         cur, q->serial, q->nid, vf_hex(hx1, sizeof(hx1), body, n), vf_hex(hx2, sizeof(hx2), want, 3));
	VF_CHECK(q->answered, "model:conn:reply-before-answer", "%s: reply handler of own request #%d invoked before the peer answered", cur, q->serial);
	VF_CHECK(q->delivered == 1, "model:conn:reply-delivered-twice", "%s: reply handler of own request #%d invoked %d times", cur, q->serial, q->delivered);
	return 0;
}

/* -------------------------------------------------------------------- peer */
static uint8_t rxbuf[16384];
static size_t rxlen;
static int frames_seen;

static void peer_frame(const uint8_t *dec, size_t dl)
{
	uint8_t idb[MAXID];
	int found = -1;
	frames_seen++;
	vf_count("peer:frames-received", 1);
	VF_CHECK(dl >= idlen, "model:conn:frame-without-id", "peer received a %zu byte message, id needs %zu: %s", dl, idlen, vf_hex(hx1, sizeof(hx1), dec, dl));
	vf_log("   peer: message %s", vf_hex(hx1, sizeof(hx1), dec, dl));
	memcpy(idb, dec, idlen);
	if (!(idb[0] & 0x80)) {
		/* a request of ours? */
		if (dl > idlen && dec[idlen] < nreq && reqs[dec[idlen]].own && !reqs[dec[idlen]].seen_by_peer) {
			struct request *q = &reqs[dec[idlen]];
			uint64_t id = 0;
			for (size_t i = 0; i < idlen; i++) id = (id << 8) | dec[i];
			vf_count("monitor:request-id-compared", 1);
			VF_CHECK(id == q->nid, "model:conn:request-id", "own request #%d was sent with id %#" PRIx64 " but the awaited id is %#" PRIxPTR, q->serial, id, q->nid);
			VF_CHECK(dl - idlen == q->plen && !memcmp(dec + idlen, q->payload, q->plen), "model:conn:request-payload", "own request #%d arrived as %s", q->serial, vf_hex(hx1, sizeof(hx1), dec, dl));
			q->seen_by_peer = 1;
			vf_count("peer:own-requests-received", 1);
			return;
		}
		/* one-way filler message of this side (no id, no reply wanted) */
		if (dl > idlen && dec[idlen] == 0xEE) {
			int zero = 1;
			for (size_t i = 0; i < idlen; i++) if (dec[i]) zero = 0;
			if (zero) { vf_count("peer:filler-received", 1); frames_seen--; return; }
		}
		vf_fail("model:conn:reply-not-marked", "peer received message %s whose id %s does not carry the reply bit and which is no request of this side",
		        vf_hex(hx1, sizeof(hx1), dec, dl), vf_hex(hx2, sizeof(hx2), idb, idlen));
	}
	vf_count("monitor:reply-id-compared", 1);
	idb[0] &= 0x7f;
	for (int i = 0; i < nreq; i++) if (!reqs[i].own && !reqs[i].zero && !memcmp(reqs[i].id, idb, idlen)) found = i;
	VF_CHECK(found >= 0, "model:conn:reply-unknown-id", "peer received a reply with id %s which no request carried", vf_hex(hx1, sizeof(hx1), idb, idlen));
	reqs[found].replies_seen++;
	VF_CHECK(reqs[found].replies_seen == 1, "model:conn:second-reply", "peer received reply number %d for request #%d", reqs[found].replies_seen, found);
	VF_CHECK(reqs[found].handled == 1, "model:conn:reply-before-dispatch", "reply for request #%d arrived before it was dispatched", found);
	if (reqs[found].plan == PlanReply || reqs[found].plan == PlanReplyTwice || reqs[found].plan == PlanDeferReply) {
		uint8_t b[3];
		reply_body(&reqs[found], reqs[found].plan == PlanDeferReply ? 2 : 0, b);
		vf_count("monitor:reply-body-compared", 1);
		VF_CHECK(dl == idlen + 3 && !memcmp(dec + idlen, b, 3), "model:conn:reply-body", "reply for request #%d carries %s, sent was %s", found,
		         vf_hex(hx1, sizeof(hx1), dec + idlen, dl - idlen), vf_hex(hx2, sizeof(hx2), b, 3));
	} else vf_count("peer:default-replies", 1);
}
static void peer_read(int fd)
{
	if (dgram) {
		uint8_t d[2048];
		ssize_t n;
		while ((n = recv(fd, d, sizeof(d), 0)) >= 0) peer_frame(d, (size_t) n);
		return;
	}
	for (;;) {
		ssize_t n = read(fd, rxbuf + rxlen, sizeof(rxbuf) - rxlen);
		if (n <= 0) break;
		rxlen += (size_t) n;
	}
	for (;;) {
		uint8_t *z = memchr(rxbuf, 0, rxlen), dec[512];
		size_t flen;
		long dl;
		if (!z) break;
		flen = (size_t) (z - rxbuf);
		dl = cobs_decode(rxbuf, flen, dec);
		VF_CHECK(dl >= 0, "model:conn:undecodable-frame", "peer received an undecodable frame %s", vf_hex(hx1, sizeof(hx1), rxbuf, flen));
		peer_frame(dec, (size_t) dl);
		flen++;
		memmove(rxbuf, rxbuf + flen, rxlen - flen);
		rxlen -= flen;
	}
}
static void peer_send(int fd, const uint8_t *frame, size_t fl)
{
	uint8_t enc[128];
	size_t el = fl;
	const uint8_t *p = frame;
	if (!dgram) { el = cobs_encode(frame, fl, enc); p = enc; }
	for (size_t o = 0; o < el; ) {
		ssize_t w = dgram ? send(fd, p, el, 0) : write(fd, p + o, el - o);
		if (w < 0) vf_inconclusive("peer write failed: %s", strerror(errno));
		o += dgram ? el : (size_t) w;
	}
}

/* congestion: the peer does not read while the connection answers (stream sockets with a small send buffer) */
static int peer_stalled;
static size_t unsent(void)
{
	MPT_STRUCT(stream) *srm = (void *) con.out.buf._buf;
	return (!dgram && srm) ? srm->_wd.data.len : 0;
}
/* one input step the way output_remote.c:remoteNext does it, then dispatch */
static void pump(int peer)
{
	for (int round = 0; round < 400; round++) {
		struct pollfd pf;
		int readable, d = 0, guard = 0;
		if (dgram) {
			pf.fd = con.out.sock._id; pf.events = POLLIN; pf.revents = 0;
			readable = poll(&pf, 1, 0) > 0 && (pf.revents & POLLIN);
			if (readable) {
				vf_at("mpt_outdata_recv");
				vf_count("mpt_outdata_recv", 1);
				d = mpt_outdata_recv(&con.out);
				vf_log("outdata_recv = %d", d);
				VF_CHECK(d >= 0, "model:conn:receive-failed", "mpt_outdata_recv returned %d with a datagram pending", d);
			}
			vf_at("mpt_connection_dispatch");
			vf_count("mpt_connection_dispatch", 1);
			d = mpt_connection_dispatch(&con, hnd, 0);
			vf_log("connection_dispatch = %#x", d);
		} else {
			MPT_STRUCT(stream) *srm = (void *) con.out.buf._buf;
			vf_at("mpt_stream_poll");
			vf_count("mpt_stream_poll", 1);
			readable = mpt_stream_poll(srm, POLLIN | POLLOUT, 0);
			vf_log("stream_poll = %d", readable);
			readable = readable > 0 && (readable & POLLIN);
			do {
				vf_at("mpt_connection_dispatch");
				vf_count("mpt_connection_dispatch", 1);
				d = mpt_connection_dispatch(&con, hnd, 0);
				vf_log("connection_dispatch = %#x", d);
			} while (d >= 0 && (d & MPT_EVENTFLAG(Retry)) && !(con.out.state & MPT_OUTFLAG(Active)) && ++guard < 100);
			vf_at("mpt_stream_poll");
			mpt_stream_poll(srm, POLLIN | POLLOUT, 0);
		}
		if (!peer_stalled) peer_read(peer);
		if (!readable && round >= 1 && (peer_stalled || !unsent())) break;
	}
}

void vf_case(uint64_t idx, vf_rng *r)
{
	static const size_t idlens[] = { 1, 2, 2, 3, 4 };
	static const MPT_STRUCT(connection) con_init = MPT_CONNECTION_INIT;
	int sv[2], ret, bursts = vf_range(r, 1, 5);
	MPT_STRUCT(socket) sock;
	char desc[700];
	size_t dl;
	int n_peer = 0, n_own = 0, n_defer = 0, n_congest = 0;

	nreq = 0; rxlen = 0; frames_seen = 0; peer_stalled = 0;
	dgram = (int) (idx & 1);
	idlen = idlens[vf_below(r, sizeof(idlens) / sizeof(*idlens))];
	if (socketpair(AF_UNIX, dgram ? SOCK_DGRAM : SOCK_STREAM, 0, sv) < 0) vf_inconclusive("socketpair: %s", strerror(errno));
	fcntl(sv[0], F_SETFL, fcntl(sv[0], F_GETFL) | O_NONBLOCK);
	fcntl(sv[1], F_SETFL, fcntl(sv[1], F_GETFL) | O_NONBLOCK);
	if (!dgram) {
		/* small send buffer towards the peer (non-blocking socket) */
		int sz = 2048;
		setsockopt(sv[0], SOL_SOCKET, SO_SNDBUF, &sz, sizeof(sz));
	}
	con = con_init;
	sock._id = sv[0];
	cur = "assign";
	vf_at("mpt_connection_assign");
	vf_count(dgram ? "mpt_connection_assign(datagram)" : "mpt_connection_assign(stream)", 1);
	ret = mpt_connection_assign(&con, &sock);
	VF_CHECK(ret >= 0, "model:conn:assign-refused", "mpt_connection_assign(%s socketpair) returned %d", dgram ? "datagram" : "stream", ret);
	close(sv[0]);   /* the connection works on its own duplicate */
	if (!dgram) {
		vf_at("mpt_connection_set");
		ret = mpt_connection_set(&con, "encoding", 0);   /* default message encoding (COBS) */
		VF_CHECK(ret >= 0, "model:conn:encoding-refused", "setting the default encoding returned %d", ret);
	}
	con.out._idlen = (uint8_t) idlen;   /* as examples/io/mclient.c */
	vf_fp_u64(idlen); vf_fp_u64((uint64_t) dgram);
	dl = (size_t) snprintf(desc, sizeof(desc), "%s idlen=%zu:", dgram ? "datagram" : "stream", idlen);

	for (int b = 0; b < bursts && nreq < MAXREQ - 6; b++) {
		int n = vf_range(r, 1, 4);
		if (vf_chance(r, 3, 5)) {
			/* requests of the peer */
			int congest = !dgram && vf_chance(r, 1, 3);
			if (dgram && vf_chance(r, 1, 3)) {
				/*
				 * one request answered while the peer's datagram queue is full (non-blocking socket): the
				 * send is rejected, the request stays pending; after the peer has drained a retry (context
				 * or deferred handle) must go through.  A reply call that reported success must have
				 * reached the peer, once.
				 */
				struct request *q = &reqs[nreq];
				uint8_t fill[24], frame[64], bdy[3];
				MPT_STRUCT(message) ans = MPT_MESSAGE_INIT;
				static const int plans[3] = { PlanSilent, PlanReply, PlanDeferReply };
				size_t fl;
				int msgs = 0;
				memset(fill, 0xEE, sizeof(fill));
				cur = "fill datagram queue";
				while (msgs < 5000) {
					vf_at("mpt_connection_push");
					if (mpt_connection_push(&con, sizeof(fill), fill) < 0 || mpt_connection_push(&con, 0, 0) < 0) break;
					msgs++;
				}
				if (msgs >= 5000) vf_inconclusive("datagram queue of the peer never filled");
				vf_log("peer queue full after %d filler datagrams", msgs);
				peer_stalled = 1;
				memset(q, 0, sizeof(*q));
				q->serial = nreq;
				q->id[idlen - 1] = (uint8_t) (nreq + 1);
				if (idlen > 1) q->id[0] = (uint8_t) vf_below(r, 0x80);
				q->plan = plans[vf_below(r, 3)];
				q->full_queue = 1;
				q->plen = 1 + vf_below(r, 10);
				q->payload[0] = (uint8_t) nreq;
				vf_bytes(r, q->payload + 1, q->plen - 1);
				memcpy(frame, q->id, idlen); fl = idlen;
				memcpy(frame + fl, q->payload, q->plen); fl += q->plen;
				cur = "request on full queue";
				peer_send(sv[1], frame, fl);
				vf_count("peer:requests-sent", 1);
				vf_fp_u64(0xd9); vf_fp(frame, fl); vf_fp_u64((uint64_t) q->plan);
				nreq++; n_peer++;
				pump(sv[1]);
				VF_CHECK(q->handled == 1, "model:conn:request-dropped-unanswered", "request #%d sent while the reverse queue is full was not dispatched", q->serial);
				if (q->plan == PlanSilent) vf_count("conn:reply-attempted-on-full-datagram-queue", 1);   /* the dispatcher's default reply */
				if (q->deferred) {
					/* deferred answer attempted while the queue is still full */
					int ret;
					reply_body(q, 2, bdy);
					ans.base = bdy; ans.used = 3;
					cur = "deferred reply on full queue";
					vf_at("reply_context_detached.reply");
					vf_count("reply_context_detached.reply", 1);
					vf_count("conn:reply-attempted-on-full-datagram-queue", 1);
					ret = q->deferred->_vptr->reply(q->deferred, &ans);
					vf_log("deferred reply on full queue = %d", ret);
					vf_count(ret < 0 ? "conn:reply-rejected-by-full-queue" : "conn:reply-accepted-on-full-queue", 1);
					if (ret >= 0) { q->deferred = 0; q->first_ret = ret; q->plan = PlanDeferReply; n_defer++; }
					else q->first_ret = ret;
				}
				/* the peer reads again */
				peer_stalled = 0;
				cur = "drain datagram queue";
				peer_read(sv[1]);
				vf_count("monitor:full-queue-reply-accounted", 1);
				if ((q->plan == PlanReply || (q->plan == PlanDeferReply && !q->deferred)) && q->first_ret >= 0)
					VF_CHECK(q->replies_seen == 1, "model:conn:reply-reported-success-not-delivered",
					         "reply to request #%d returned %d although the peer's queue was full, and the peer got %d frames for it", q->serial, q->first_ret, q->replies_seen);
				if (!q->replies_seen) {
					int ret;
					reply_body(q, q->plan == PlanDeferReply ? 2 : 0, bdy);
					ans.base = bdy; ans.used = 3;
					cur = "retry after drain";
					if (q->deferred) {
						vf_at("reply_context_detached.reply");
						vf_count("reply_context_detached.reply", 1);
						ret = q->deferred->_vptr->reply(q->deferred, &ans);
						if (ret >= 0) q->deferred = 0;
						n_defer++;
					} else {
						vf_at("reply_context.reply");
						vf_count("reply_context.reply(retry)", 1);
						ret = q->rc->_vptr->reply(q->rc, &ans);
					}
					vf_log("retry for request #%d after the peer drained = %d", q->serial, ret);
					VF_CHECK(ret >= 0, "model:conn:retry-refused",
					         "request #%d was answered while the peer's datagram queue was full (nothing reached the peer); the retry after the peer drained is refused (%d): the rejected send was booked as answer",
					         q->serial, ret);
					if (q->plan == PlanSilent) q->plan = PlanReply;   /* the frame now carries an explicit body */
					peer_read(sv[1]);
					VF_CHECK(q->replies_seen == 1, "model:conn:no-reply", "request #%d: retry accepted but the peer has %d frames", q->serial, q->replies_seen);
					vf_count("conn:retry-after-full-queue", 1);
				}
				if (dl + 16 < sizeof(desc)) dl += (size_t) snprintf(desc + dl, sizeof(desc) - dl, " fullq(p%d)", q->plan);
				pump(sv[1]);
				continue;
			}
			if (congest) {
				/* fill the socket towards the peer with one-way messages until the stream cannot flush any more */
				uint8_t fill[240];
				int msgs = 0;
				memset(fill, 0xEE, sizeof(fill));
				cur = "fill";
				while (!unsent() && msgs < 2000) {
					vf_at("mpt_connection_push");
					if (mpt_connection_push(&con, sizeof(fill), fill) < 0 || mpt_connection_push(&con, 0, 0) < 0) break;
					msgs++;
				}
				if (unsent()) { peer_stalled = 1; vf_count("conn:congested-burst", 1); n_congest++; }
				vf_log("congestion: %d filler messages, %zu bytes unsent", msgs, unsent());
				vf_fp_u64(0xc0);
			}
			cur = "peer requests";
			for (int k = 0; k < n; k++) {
				struct request *q = &reqs[nreq];
				uint8_t frame[64];
				size_t fl;
				memset(q, 0, sizeof(*q));
				q->serial = nreq;
				q->zero = vf_chance(r, 1, 8);
				if (!q->zero) {
					q->id[idlen - 1] = (uint8_t) (nreq + 1);
					if (idlen > 1) q->id[0] = (uint8_t) vf_below(r, 0x80);
				}
				q->plan = (int) vf_below(r, PlanCount);
				q->handler_ret = vf_chance(r, 1, 5) ? -1 - (int) vf_below(r, 3) : 0;
				q->plen = 1 + vf_below(r, 10);
				q->payload[0] = (uint8_t) nreq;
				vf_bytes(r, q->payload + 1, q->plen - 1);
				memcpy(frame, q->id, idlen); fl = idlen;
				memcpy(frame + fl, q->payload, q->plen); fl += q->plen;
				peer_send(sv[1], frame, fl);
				vf_count("peer:requests-sent", 1);
				vf_fp(frame, fl); vf_fp_u64((uint64_t) q->plan);
				vf_log("peer: request #%d id %s plan %d handler returns %d", nreq, q->zero ? "zero" : vf_hex(hx1, sizeof(hx1), q->id, idlen), q->plan, q->handler_ret);
				if (dl + 16 < sizeof(desc)) dl += (size_t) snprintf(desc + dl, sizeof(desc) - dl, " req(%s,p%d)", q->zero ? "noid" : "id", q->plan);
				nreq++; n_peer++;
				if (dgram) pump(sv[1]);   /* one datagram is held at a time */
			}
			pump(sv[1]);
			/* deferred answers, after the dispatch returned */
			for (int i = 0; i < nreq; i++) {
				struct request *q = &reqs[i];
				if (!q->deferred || vf_chance(r, 1, 3)) continue;
				MPT_STRUCT(message) ans = MPT_MESSAGE_INIT;
				uint8_t bdy[3];
				reply_body(q, 2, bdy);
				ans.base = bdy; ans.used = 3;
				cur = "deferred reply";
				vf_at("reply_context_detached.reply");
				vf_count(q->plan == PlanDeferReply ? "reply_context_detached.reply" : "reply_context_detached.reply(NULL)", 1);
				ret = q->deferred->_vptr->reply(q->deferred, q->plan == PlanDeferReply ? &ans : 0);
				vf_log("deferred %s for request #%d = %d", q->plan == PlanDeferReply ? "reply" : "release", i, ret);
				VF_CHECK(ret >= 0, "model:conn:reply-refused", "deferred reply to request #%d returned %d", i, ret);
				q->deferred = 0;
				n_defer++;
			}
			pump(sv[1]);
			if (peer_stalled) {
				/* the peer starts reading again: everything queued must arrive, each reply once */
				int answered_congested = 0;
				for (int i = 0; i < nreq; i++) answered_congested += !reqs[i].own && reqs[i].handled && !reqs[i].zero && !reqs[i].replies_seen;
				if (answered_congested) vf_count("conn:replies-queued-while-congested", (uint64_t) answered_congested);
				peer_stalled = 0;
				cur = "drain";
				pump(sv[1]);
			}
		} else {
			/* requests of this side */
			int first = nreq;
			struct request *order[8];
			for (int k = 0; k < n; k++) {
				struct request *q = &reqs[nreq];
				memset(q, 0, sizeof(*q));
				q->serial = nreq; q->own = 1;
				q->plen = 1 + vf_below(r, 10);
				q->payload[0] = (uint8_t) nreq;
				vf_bytes(r, q->payload + 1, q->plen - 1);
				nreq++;
				cur = "await";
				vf_at("mpt_connection_await");
				vf_count("mpt_connection_await", 1);
				ret = mpt_connection_await(&con, whnd, q);
				VF_CHECK(ret >= 0, "model:conn:await-refused", "mpt_connection_await returned %d", ret);
				q->nid = con.cid;
				for (int j = first; j < q->serial; j++) VF_CHECK(reqs[j].nid != q->nid, "model:reserve:duplicate-id", "id %#" PRIxPTR " awaited for two outstanding requests", q->nid);
				cur = "push";
				vf_at("mpt_connection_push");
				vf_count("mpt_connection_push", 1);
				if (mpt_connection_push(&con, q->plen, q->payload) < 0 || mpt_connection_push(&con, 0, 0) < 0)
					vf_fail("model:conn:push-refused", "pushing own request #%d (id %#" PRIxPTR ", %zu bytes) failed", q->serial, q->nid, q->plen);
				vf_fp(q->payload, q->plen);
				vf_log("own request #%d id %#" PRIxPTR, q->serial, q->nid);
				n_own++;
			}
			if (!dgram) { vf_at("mpt_stream_poll"); mpt_stream_poll((void *) con.out.buf._buf, POLLIN | POLLOUT, 0); }
			peer_read(sv[1]);
			for (int k = 0; k < n; k++) {
				VF_CHECK(reqs[first + k].seen_by_peer, "model:conn:request-not-sent", "own request #%d never arrived at the peer", first + k);
				order[k] = &reqs[first + k];
			}
			if (vf_chance(r, 2, 3)) for (int k = n - 1; k > 0; k--) { int j = (int) vf_below(r, (uint32_t) k + 1); struct request *t = order[k]; order[k] = order[j]; order[j] = t; }
			cur = "own replies";
			for (int k = 0; k < n; k++) {
				uint8_t frame[16];
				uint64_t id = order[k]->nid;
				for (size_t i = 0; i < idlen; i++) frame[i] = (uint8_t) (id >> (8 * (idlen - 1 - i)));
				frame[0] |= 0x80;
				frame[idlen] = 0xB0; frame[idlen + 1] = (uint8_t) order[k]->serial; frame[idlen + 2] = 0x5A;
				order[k]->answered = 1;
				peer_send(sv[1], frame, idlen + 3);
				vf_count("peer:replies-sent", 1);
				vf_fp_u64((uint64_t) order[k]->serial);
				if (dgram) pump(sv[1]);
			}
			pump(sv[1]);
			for (int k = 0; k < n; k++) {
				vf_count("monitor:own-reply-accounted", 1);
				VF_CHECK(reqs[first + k].delivered == 1, "model:conn:reply-not-delivered", "own request #%d (id %#" PRIxPTR "): the peer's reply was sent but the waiting handler was invoked %d times",
				         first + k, reqs[first + k].nid, reqs[first + k].delivered);
			}
			if (dl + 16 < sizeof(desc)) dl += (size_t) snprintf(desc + dl, sizeof(desc) - dl, " own(%d)", n);
		}
	}
	/* release what is still deferred, then the connection */
	for (int i = 0; i < nreq; i++) {
		if (!reqs[i].deferred) continue;
		cur = "deferred release";
		vf_at("reply_context_detached.reply");
		vf_count("reply_context_detached.reply(NULL)", 1);
		reqs[i].deferred->_vptr->reply(reqs[i].deferred, 0);
		reqs[i].deferred = 0;
		reqs[i].plan = PlanDeferRelease;
		n_defer++;
	}
	pump(sv[1]);
	for (int i = 0; i < nreq; i++) {
		struct request *q = &reqs[i];
		if (q->own) continue;
		vf_count("monitor:request-accounted", 1);
		if (!q->handled) {
			int later = 0;
			for (int k = i + 1; k < nreq; k++) later += !reqs[k].own && reqs[k].handled;
			if (later && !q->zero) VF_CHECK(q->replies_seen != 0, "model:conn:request-dropped-unanswered", "request #%d (id %s) never reached the handler and got no reply although later requests were dispatched",
			                                i, vf_hex(hx1, sizeof(hx1), q->id, idlen));
			vf_count("conn:request-never-dispatched", 1);
			continue;
		}
		vf_count("conn:request-dispatched", 1);
		if (q->zero) { VF_CHECK(q->replies_seen == 0, "model:conn:reply-to-request-without-id", "request #%d without id got a reply", i); continue; }
		VF_CHECK(q->replies_seen == 1, q->plan == PlanSilent || q->plan == PlanDeferRelease ? "model:conn:no-default-reply" : "model:conn:no-reply",
		         "request #%d (id %s, plan %d, handler returned %d) received %d replies", i, vf_hex(hx1, sizeof(hx1), q->id, idlen), q->plan, q->handler_ret, q->replies_seen);
	}
	cur = "fini";
	vf_at("mpt_connection_fini");
	vf_count("mpt_connection_fini", 1);
	mpt_connection_fini(&con);
	peer_read(sv[1]);
	close(sv[1]);
	if (n_defer) vf_count("history:with-deferred-reply", 1);
	if (n_own) vf_count("history:with-own-requests", 1);
	if (n_peer) vf_count("history:with-peer-requests", 1);
	if (n_congest) vf_count("history:with-congestion", 1);
	if (n_own + n_peer >= 2) vf_nontrivial();
	vf_sample("%s  => %d peer requests, %d own requests, %d deferred, %d messages at the peer", desc, n_peer, n_own, n_defer, frames_seen);
}

uint64_t vf_cases(void) { return vf_thorough ? 200000 : 20000; }
