/*
 * C07 (C++ leg): scalar conversion through the C++ metatype holders.
 *
 * Sources: mpt::metatype::generic::create(type, ptr), mpt::metatype::create(
 * const value &) (dispatches to generic for scalars), mpt::metatype::create<T>()
 * (metatype::value<T>) and metatype::basic (text).  Holders of every scalar
 * type are created in PRNG order inside ONE process (state kept in function
 * statics of the library must not leak from one holder to the next), each is
 * converted to the 13 scalar targets with destination (sentinel-filled
 * exact-size heap block) and with NULL destination.  Oracle: c07_oracle.h,
 * the same exact-or-refused judgement as c07_value.c.
 */
#include <vector>
#include <string>
#include <cstring>
#include <sys/uio.h>

#include "types.h"
#include "convert.h"
#include "meta.h"

#include "c07_oracle.h"

const char *vf_name = "c07_cxx";

static const char SRC[] = "cbynqiuxtfde";
#define NSRC 12
static const char TGT[] = "cbynqiuxtlfde";
#define NTGT 13
enum { KGeneric, KCreateValue, KValueT, KBasicText, KValueDirect, NKIND };
static const char *kindkey[NKIND] = { "generic", "metatype_create", "metatype_value", "metatype_basic", "value" };
static const char *kindapi[NKIND] = { "metatype::generic::convert", "metatype::create(value)->convert", "metatype::value<T>::convert", "metatype::basic::convert", "value::convert" };

#define SENT 0xA5

static c07_stats jst;
static uint64_t n_conv, n_query, n_accept, n_refuse;

/* raw bytes of a value of scalar type s */
struct sval { uint8_t b[16]; };

static sval make_int(int s, i128 c)
{
	sval v; memset(&v, 0, sizeof(v));
	switch (tsize(s)) {
	case 1: { int8_t x = (int8_t) c; memcpy(v.b, &x, 1); break; }
	case 2: { int16_t x = (int16_t) c; memcpy(v.b, &x, 2); break; }
	case 4: { int32_t x = (int32_t) c; memcpy(v.b, &x, 4); break; }
	default: { uint64_t x = (uint64_t) c; memcpy(v.b, &x, 8); break; }
	}
	return v;
}
static sval make_flt(int s, long double c)
{
	sval v; memset(&v, 0, sizeof(v));
	switch (s) {
	case 'f': { float x = (float) c; memcpy(v.b, &x, sizeof(x)); break; }
	case 'd': { double x = (double) c; memcpy(v.b, &x, sizeof(x)); break; }
	default: memcpy(v.b, &c, sizeof(c));
	}
	return v;
}
static sval pick_value(int s, vf_rng *r)
{
	if (!is_float(s)) {
		i128 lo, hi, c;
		irange(s, &lo, &hi);
		switch (vf_below(r, 6)) {
		case 0: c = (i128) vf_range(r, -3, 3); break;
		case 1: {   /* around a limit of some integer width */
			static const int w[] = { 7, 8, 15, 16, 31, 32, 63, 64 };
			c = ((i128) 1 << w[vf_below(r, 8)]) + vf_range(r, -2, 1);
			if (vf_chance(r, 1, 2)) c = -c;
			break; }
		case 2: c = vf_chance(r, 1, 2) ? lo + (i128) vf_below(r, 3) : hi - (i128) vf_below(r, 3); break;
		case 3: c = (i128) vf_range(r, 0x1e, 0x82); break;   /* printable border for 'c' */
		case 4: c = ((i128) 1 << vf_below(r, 64)) + vf_range(r, -1, 1); if (vf_chance(r, 1, 2)) c = -c; break;
		default: c = (i128) (vf_u64(r) >> vf_below(r, 64)); if (vf_chance(r, 1, 2)) c = -c;
		}
		if (c < lo || c > hi) c = (c < lo) ? lo + (i128) vf_below(r, 3) : hi - (i128) vf_below(r, 3);
		return make_int(s, c);
	}
	long double c;
	switch (vf_below(r, 8)) {
	case 0: c = (long double) vf_range(r, -3, 3); break;
	case 1: c = (long double) vf_range(r, -300, 300) + 0.5L; break;
	case 2: c = ldexpl(1.0L, (int) vf_below(r, 66)) + (long double) vf_range(r, -1, 1); if (vf_chance(r, 1, 2)) c = -c; break;
	case 3: {
		static const long double sp[] = { 0.0L, -0.0L, INFINITY, -INFINITY, NAN, FLT_MAX, -FLT_MAX, DBL_MAX, -DBL_MAX, FLT_MIN, DBL_MIN,
		                                  FLT_TRUE_MIN, DBL_TRUE_MIN, 1e39L, -1e39L, 1e300L, 1e309L, -1e4000L, 0.1L, 16777217.0L, 9007199254740993.0L };
		c = sp[vf_below(r, sizeof(sp) / sizeof(*sp))];
		break; }
	case 4: c = (long double) FLT_MAX + ldexpl((long double) vf_range(r, -3, 3), 102); break;   /* around the float overflow threshold */
	case 5: c = (long double) DBL_MAX + ldexpl((long double) vf_range(r, -3, 3), 969); break;
	case 6: c = (long double) (vf_u64(r) >> vf_below(r, 64)); if (vf_chance(r, 1, 2)) c = -c; break;
	default: c = ldexpl((long double) (vf_u64(r) | 1), vf_range(r, -1140, 1000)); if (vf_chance(r, 1, 2)) c = -c;
	}
	return make_flt(s, c);
}

template <typename T>
static mpt::metatype *holder_of(const sval &v)
{
	T x;
	memcpy(&x, v.b, sizeof(x));
	return mpt::metatype::create<T>(x);
}
/* nulladdr: the value carries no data address, which stands for the zero/default of the type */
static mpt::metatype *make_holder(int kind, int s, const sval &v, std::string &text, bool nulladdr)
{
	switch (kind) {
	case KGeneric:
		vf_at("metatype::generic::create");
		return mpt::metatype::generic::create((mpt::type_t) s, nulladdr ? 0 : v.b);
	case KCreateValue: {
		mpt::value val;
		if (!val.set(s, nulladdr ? 0 : v.b)) return 0;
		vf_at("metatype::create(value)");
		return mpt::metatype::create(val);
	}
	case KValueT:
		vf_at("metatype::create<T>");
		switch (s) {
		case 'c': return holder_of<char>(v);
		case 'b': return holder_of<int8_t>(v);
		case 'y': return holder_of<uint8_t>(v);
		case 'n': return holder_of<int16_t>(v);
		case 'q': return holder_of<uint16_t>(v);
		case 'i': return holder_of<int32_t>(v);
		case 'u': return holder_of<uint32_t>(v);
		case 'x': return holder_of<int64_t>(v);
		case 't': return holder_of<uint64_t>(v);
		case 'f': return holder_of<float>(v);
		case 'd': return holder_of<double>(v);
		default:  return holder_of<long double>(v);
		}
	default: {
		/* text that denotes exactly the value: decimal integer, hexadecimal floating */
		char buf[96];
		num n = rd(s, v.b);
		if (n.cls == NInt) i128str(buf, sizeof(buf), n.i);
		else if (n.cls == NNan) snprintf(buf, sizeof(buf), "nan");
		else if (n.cls == NInf) snprintf(buf, sizeof(buf), "%sinf", n.f < 0 ? "-" : "");
		else snprintf(buf, sizeof(buf), "%La", n.f);
		text = buf;
		vf_at("metatype::basic::create");
		return mpt::metatype::basic::create(buf);
	}
	}
}

static void one_holder(int kind, int s, const sval &v0, vf_rng *r)
{
	std::string text;
	/* sources without data address: generic holders and plain values only */
	bool nulladdr = (kind == KGeneric || kind == KCreateValue || kind == KValueDirect) && vf_chance(r, 1, 6);
	sval v = v0;
	if (nulladdr) memset(&v, 0, sizeof(v));
	mpt::metatype *mt = kind == KValueDirect ? 0 : make_holder(kind, s, v, text, nulladdr);
	mpt::value direct;
	num n = rd(s, v.b);
	char ctx[260], nb[80];
	if (kind == KValueDirect) { if (!direct.set(s, nulladdr ? 0 : v.b)) return; }
	else if (!mt) { vf_count("observe:holder-not-created", 1); return; }
	if (nulladdr) vf_count("eval:null-address-source", 1);
	int start = (int) vf_below(r, NTGT), ntg = vf_chance(r, 1, 3) ? NTGT : vf_range(r, 1, 6);
	for (int j = 0; j < ntg; j++) {
		int t = TGT[(start + j) % NTGT];
		size_t ds = tsize(t);
		uint8_t *dest = static_cast<uint8_t *>(vf_xalloc(ds));
		memset(dest, SENT, ds);
		vf_at(kindapi[kind]);
		int rp = mt ? mt->convert((mpt::type_t) t, dest) : direct.convert((mpt::type_t) t, dest);
		int rq = mt ? mt->convert((mpt::type_t) t, 0) : direct.convert((mpt::type_t) t, 0);
		n_conv++; n_query++;
		snprintf(ctx, sizeof(ctx), "%s: source %c %s%s%s%s, target '%c'", kindapi[kind], s, numstr(nb, n), nulladdr ? " (NULL address)" : "", text.empty() ? "" : " as text ", text.c_str(), t);
		vf_log("%s -> perform %d, query %d", ctx, rp, rq);
		VF_CHECK((rp >= 0) == (rq >= 0), c07_key(kindkey[kind], "query-differs"), "%s: with destination %d, without destination %d", ctx, rp, rq);
		if (rp >= 0) n_accept++; else n_refuse++;
		c07_judge(kindkey[kind], ctx, n, t, dest, rp, &jst);
		vf_xfree(dest, ds);
	}
	if (mt) mt->unref();
}

uint64_t vf_cases(void) { return vf_thorough ? 40000 : 3000; }

void vf_case(uint64_t idx, vf_rng *r)
{
	int nh = vf_range(r, 20, 60);
	uint64_t h = 0xcbf29ce484222325ULL, before = jst.compared, before_unrep = jst.refused_unrepresentable;
	int kinds = 0, types = 0;
	char seq[64] = "";
	vf_fp_u64(idx);
	for (int i = 0; i < nh; i++) {
		int kind = (int) vf_below(r, 12);
		kind = kind < 4 ? KGeneric : kind < 6 ? KCreateValue : kind < 9 ? KValueT : kind < 10 ? KBasicText : KValueDirect;
		int s = SRC[vf_below(r, NSRC)];
		sval v = pick_value(s, r);
		if (i < 20) { seq[i * 2] = "gcvtd"[kind]; seq[i * 2 + 1] = (char) s; seq[i * 2 + 2] = 0; }
		h = (h ^ (uint64_t) (kind * 256 + s) ^ ((uint64_t) v.b[0] << 16) ^ ((uint64_t) v.b[7] << 24)) * 0x100000001b3ULL;
		kinds |= 1 << kind; types |= 1 << (s - 'a');
		one_holder(kind, s, v, r);
		switch (kind) {
		case KGeneric: vf_count("metatype::generic::convert", 1); break;
		case KCreateValue: vf_count("metatype::create(value)", 1); break;
		case KValueT: vf_count("metatype::value<T>::convert", 1); break;
		case KBasicText: vf_count("metatype::basic::convert", 1); break;
		default: vf_count("value::convert", 1);
		}
	}
	vf_fp_u64(h);
	vf_count("eval:conversions", n_conv); n_conv = 0;
	vf_count("monitor:query-verdict-compared", n_query); n_query = 0;
	vf_count("eval:accepted", n_accept); n_accept = 0;
	vf_count("eval:refused", n_refuse); n_refuse = 0;
	vf_count("monitor:target-value-compared", jst.compared - before);
	vf_count("monitor:refused-not-representable", jst.refused_unrepresentable - before_unrep);
	if (jst.compared - before >= 10 && __builtin_popcount((unsigned) types) >= 4 && __builtin_popcount((unsigned) kinds) >= 2) vf_nontrivial();
	if (idx % 97 == 5) vf_sample("C++ holders in one process, case of %d holders (kind+type: %s...), %llu accepted results compared with the oracle",
	                             nh, seq, (unsigned long long) (jst.compared - before));
}
