/*
 * C11: event dispatch reaches exactly the registered handler.
 *
 * Model: id -> registration (a record per registration, its address is the
 * handler argument), default id, fallback registration.  All handlers are
 * harness functions; every invocation is an observed event:
 *   (arg, ev != NULL)  delivery   - must be the registration the model names
 *                                   for the id of the emit in progress, once;
 *   (arg, ev == NULL)  end of life - must belong to the operation in progress
 *                                   (clear / replace / fini), once per
 *                                   registration, and nothing after it.
 * After each operation the public lookup mpt_command_get() is compared with
 * the model for every id of the domain.
 *
 * A second table (the way mpt_connection_await uses `_wait`) exercises
 * mpt_command_reserve: ids of live reservations are pairwise different, fit
 * the requested width, and stay bound to their handler argument while the
 * table is compacted and grown.
 */
#include <stdlib.h>
#include <inttypes.h>
#include <sys/uio.h>

#include "array.h"
#include "message.h"
#include "event.h"
#include "vf.h"

const char *vf_name = "c11_dispatch";

#define REG_MAGIC 0x52454731u
#define MAXREG 400

enum { RegNever, RegLive, RegDead };
struct reg {
	uint32_t magic;
	int serial;
	int state;        /* never registered / live / finalised */
	uintptr_t id;
	int forward;      /* handler forwards command messages to mpt_dispatch_hash */
	int fallback;     /* registered as fallback (_err) */
	int wait;         /* lives in the reservation table */
	int fin;          /* end-of-life notifications received */
	int fin_allowed;  /* operation in progress ends this registration */
	int events;       /* deliveries received */
};
static struct reg regs[MAXREG];
static int nreg;

/* id domain */
#define NFIXW 9
#define NRNDW 2
#define NWORD (NFIXW + NRNDW)
/* command words: ASCII, UTF-8 (bytes >= 0x80), raw high bytes; two more are generated per case */
static const char *fixwords[NFIXW] = { "start", "stop", "step", "status", "s", "set_value",
                                       "z\xc3\xa4hler", "gr\xc3\xb6\xc3\x9f" "e", "\x80\xff\xfe" };
static char words[NWORD][24];
static int word_conv[NWORD];    /* id computed with mpt_hash(word, -1) instead of mpt_hash(word, length) */
static int word_high(int w)
{
	for (const char *c = words[w]; *c; c++) if (*c & 0x80) return 1;
	return 0;
}
/* printable rendering */
static const char *wshow(int w)
{
	static char buf[4][100];
	static int turn;
	char *o = buf[turn = (turn + 1) & 3], *st = o;
	for (const unsigned char *c = (const unsigned char *) words[w]; *c; c++) {
		if (*c < 0x80) *o++ = (char) *c;
		else o += sprintf(o, "\\x%02x", *c);
	}
	*o = 0;
	return st;
}
#define NMSGID 6
static const uintptr_t msgids[NMSGID] = { 1, 2, 4 /* MessageCommand */, 7, 0xff, 0 };
#define NBULK 40
#define NDOM (NMSGID + NWORD + NBULK)
static uintptr_t dom[NDOM];
static struct reg *model[NDOM];    /* id index -> live registration */
static struct reg *fb;             /* harness fallback or NULL (library default) */
static uintptr_t mdef;             /* model default id */

static MPT_STRUCT(dispatch) disp;
static int disp_live;

/* ids reserved with mpt_command_reserve on the dispatcher's own table that are not part of the domain */
#define MAXRSV 24
static struct { uintptr_t id; struct reg *g; } rsv[MAXRSV];
static int nrsv;

/* expectation of the operation in progress */
static struct reg *exp_reg;        /* registration that must receive the delivery (NULL: none of ours) */
static int exp_any_fallback;       /* library fallback in place: no harness handler may be called */
static uintptr_t exp_id;           /* ev->id the handler must see */
static int exp_id_valid;
static const MPT_STRUCT(message) *exp_msg;
static int exp_msg_valid;
static int op_events, op_fins;
static const char *cur_op = "";

/* response plan for the terminal handler */
static int plan_ret;
static int plan_idmode;            /* 0 leave, 1 zero, 2 set */
static uintptr_t plan_newid;
/* what the outermost handler handed back */
static int last_ret;
static uintptr_t last_id;

/* inner expectation of a forwarded command message */
static struct reg *fw_reg;
static uintptr_t fw_id;
static int fw_armed;

static int dom_index(uintptr_t id)
{
	for (int i = 0; i < NDOM; i++) if (dom[i] == id) return i;
	return -1;
}
static struct reg *find_live(uintptr_t id)
{
	int di = dom_index(id);
	if (di >= 0) return model[di];
	for (int i = 0; i < nrsv; i++) if (rsv[i].id == id) return rsv[i].g;
	return 0;
}
static struct reg *new_reg(uintptr_t id)
{
	struct reg *g;
	if (nreg >= MAXREG) return 0;
	g = &regs[nreg];
	memset(g, 0, sizeof(*g));
	g->magic = REG_MAGIC;
	g->serial = nreg++;
	g->id = id;
	return g;
}

/* ---------------------------------------------------------------- handler */
static int hnd(void *arg, MPT_STRUCT(event) *ev)
{
	struct reg *g = arg;
	vf_count("callback:handler", 1);
	VF_CHECK(g >= regs && g < regs + nreg && g->magic == REG_MAGIC, "model:handler:foreign-argument",
	         "%s: handler called with argument %p which is no registration of this case", cur_op, arg);
	if (!ev) {
		/* end of life */
		g->fin++;
		op_fins++;
		vf_count("callback:end-of-life", 1);
		vf_log("   end-of-life reg#%d (id %#" PRIxPTR ")", g->serial, g->id);
		VF_CHECK(g->fin == 1, "model:finalise:twice", "%s: registration #%d (id %#" PRIxPTR ") received end-of-life notification number %d",
		         cur_op, g->serial, g->id, g->fin);
		if (g->state == RegNever) {
			/* a refused registration: ownership on failure is not specified, tolerated once */
			vf_count("finalise:refused-registration", 1);
			return 0;
		}
		VF_CHECK(g->fin_allowed, "model:finalise:unexpected",
		         "%s: registration #%d (id %#" PRIxPTR ") received an end-of-life notification although this operation does not remove it",
		         cur_op, g->serial, g->id);
		g->state = RegDead;
		return 0;
	}
	/* delivery */
	g->events++;
	VF_CHECK(g->state != RegDead, "model:event:after-finalise", "%s: registration #%d (id %#" PRIxPTR ") invoked after its end-of-life notification (event id %#" PRIxPTR ")",
	         cur_op, g->serial, g->id, ev->id);
	VF_CHECK(g->state == RegLive, "model:event:unregistered-handler", "%s: handler of the refused registration #%d invoked (event id %#" PRIxPTR ")",
	         cur_op, g->serial, ev->id);
	{
		struct reg *want = fw_armed ? fw_reg : exp_reg;
		uintptr_t wid = fw_armed ? fw_id : exp_id;
		int idv = fw_armed ? 1 : exp_id_valid;
		VF_CHECK(want != 0, "model:emit:unexpected-delivery",
		         "%s: registration #%d (id %#" PRIxPTR "%s) invoked with event id %#" PRIxPTR " although the model has no harness handler for this emit",
		         cur_op, g->serial, g->id, g->fallback ? ", fallback" : "", ev->id);
		VF_CHECK(g == want, "model:emit:wrong-handler",
		         "%s: event id %#" PRIxPTR " delivered to registration #%d (id %#" PRIxPTR "%s), model says #%d (id %#" PRIxPTR "%s)",
		         cur_op, ev->id, g->serial, g->id, g->fallback ? ", fallback" : "", want->serial, want->id, want->fallback ? ", fallback" : "");
		op_events++;
		VF_CHECK(op_events == 1 + (fw_armed ? 1 : 0), "model:emit:delivered-twice", "%s: delivery number %d in one emit (registration #%d)", cur_op, op_events, g->serial);
		if (idv) VF_CHECK(ev->id == wid, "model:emit:event-id", "%s: handler #%d sees event id %#" PRIxPTR ", expected %#" PRIxPTR, cur_op, g->serial, ev->id, wid);
		if (exp_msg_valid && !fw_armed) VF_CHECK(ev->msg == exp_msg, "model:emit:event-message", "%s: handler #%d sees message %p, emitted %p", cur_op, g->serial, (const void *) ev->msg, (const void *) exp_msg);
		vf_count("monitor:delivery-compared", 1);
	}
	/* command forwarder: resolve the text command by hash inside the handler */
	if (g->forward && ev->msg && !fw_armed) {
		MPT_STRUCT(message) m = *ev->msg;
		uint8_t hdr[2];
		if (mpt_message_read(&m, 2, hdr) == 2 && hdr[0] == MPT_MESGTYPE(Command) && fw_reg != (struct reg *) -1) {
			int r;
			fw_armed = 1;
			vf_count("mpt_dispatch_hash", 1);
			vf_count("mpt_dispatch_hash(nested)", 1);
			r = mpt_dispatch_hash(&disp, ev);
			fw_armed = 0;
			if (fw_reg) VF_CHECK(op_events == 2, "model:hash:no-delivery", "%s: forwarded command (hash %#" PRIxPTR ") reached no handler, model says #%d", cur_op, fw_id, fw_reg->serial);
			vf_log("   forwarder reg#%d: mpt_dispatch_hash = %d, ev->id = %#" PRIxPTR, g->serial, r, ev->id);
			last_ret = r;
			last_id = ev->id;
			return r;
		}
	}
	if (plan_idmode == 1) ev->id = 0;
	else if (plan_idmode == 2) ev->id = plan_newid;
	last_ret = plan_ret;
	last_id = ev->id;
	vf_log("   delivery reg#%d (id %#" PRIxPTR "%s) -> %d, ev->id left %#" PRIxPTR, g->serial, g->id, g->fallback ? ", fallback" : "", plan_ret, ev->id);
	return plan_ret;
}

/* ----------------------------------------------------------------- checks */
static void begin_op(const char *name)
{
	cur_op = name;
	exp_reg = 0; exp_any_fallback = 0; exp_id_valid = 0; exp_msg_valid = 0;
	op_events = 0; op_fins = 0;
	fw_reg = (struct reg *) -1; fw_armed = 0;
	last_ret = 0; last_id = 0;
}
static void check_table(void)
{
	/* public lookup agrees with the model for the whole domain */
	for (int i = 0; i < NDOM; i++) {
		MPT_STRUCT(command) *c = mpt_command_get(&disp._d, dom[i]);
		if (model[i]) {
			VF_CHECK(c != 0, "model:table:registration-lost", "after %s: id %#" PRIxPTR " (registration #%d) is not found in the table", cur_op, dom[i], model[i]->serial);
			VF_CHECK(c->arg == model[i] && c->cmd == (int (*)(void *, void *)) hnd && c->id == dom[i], "model:table:wrong-entry",
			         "after %s: id %#" PRIxPTR " resolves to argument %p, model says registration #%d", cur_op, dom[i], c->arg, model[i]->serial);
		} else {
			VF_CHECK(c == 0, "model:table:stale-entry", "after %s: id %#" PRIxPTR " resolves to an entry (arg %p) although nothing is registered", cur_op, dom[i], c->arg);
		}
	}
	for (int i = 0; i < nrsv; i++) {
		MPT_STRUCT(command) *c = mpt_command_get(&disp._d, rsv[i].id);
		VF_CHECK(c != 0, "model:table:registration-lost", "after %s: reserved id %#" PRIxPTR " (registration #%d) is not found in the table", cur_op, rsv[i].id, rsv[i].g->serial);
		VF_CHECK(c->arg == rsv[i].g && c->cmd == (int (*)(void *, void *)) hnd, "model:table:wrong-entry",
		         "after %s: reserved id %#" PRIxPTR " resolves to argument %p, model says registration #%d", cur_op, rsv[i].id, c->arg, rsv[i].g->serial);
	}
	vf_count("monitor:table-compared", 1);
	VF_CHECK(disp._def == mdef, "model:default:bookkeeping", "after %s: dispatcher default id %#" PRIxPTR ", model %#" PRIxPTR, cur_op, disp._def, mdef);
}
static void check_fins(int expected)
{
	VF_CHECK(op_fins == expected, "model:finalise:count", "%s: %d end-of-life notification(s), expected %d", cur_op, op_fins, expected);
	for (int i = 0; i < nreg; i++) {
		if (regs[i].fin_allowed) {
			VF_CHECK(regs[i].fin == 1, "model:finalise:missing", "%s: registration #%d (id %#" PRIxPTR ") was removed but received %d end-of-life notifications",
			         cur_op, regs[i].serial, regs[i].id, regs[i].fin);
			regs[i].fin_allowed = 0;
		}
	}
	vf_count("monitor:finalise-compared", 1);
}

/* ------------------------------------------------------------- operations */
static void op_set(vf_rng *r, int di, char *d, size_t dn)
{
	struct reg *g = new_reg(dom[di]);
	int ret;
	if (!g) return;
	begin_op("dispatch_set");
	if (dom[di] == MPT_MESGTYPE(Command) && vf_chance(r, 2, 3)) g->forward = 1;
	vf_fp_u64(0x100 + (uint64_t) di);
	vf_at("mpt_dispatch_set");
	vf_count("mpt_dispatch_set", 1);
	ret = mpt_dispatch_set(&disp, dom[di], hnd, g);
	vf_log("dispatch_set(id=%#" PRIxPTR ", reg#%d) = %d%s", dom[di], g->serial, ret, model[di] ? " (id taken)" : "");
	snprintf(d, dn, " set(%#" PRIxPTR ")%s", dom[di], model[di] ? "!" : "");
	if (model[di]) {
		vf_count("monitor:duplicate-refused", 1);
		VF_CHECK(ret < 0, "model:set:duplicate-accepted", "dispatch_set(id=%#" PRIxPTR ") returned %d although registration #%d holds the id", dom[di], ret, model[di]->serial);
	} else {
		VF_CHECK(ret >= 0, "model:set:refused", "dispatch_set(id=%#" PRIxPTR ") returned %d for a free id", dom[di], ret);
		g->state = RegLive;
		model[di] = g;
		vf_count("registration:added", 1);
	}
	VF_CHECK(op_events == 0, "model:emit:unexpected-delivery", "dispatch_set delivered an event");
	check_fins(0);
	check_table();
}
static void op_clear(int di, char *d, size_t dn)
{
	int ret;
	begin_op("dispatch_clear");
	if (model[di]) model[di]->fin_allowed = 1;
	vf_fp_u64(0x200 + (uint64_t) di);
	vf_at("mpt_dispatch_set");
	vf_count("mpt_dispatch_set(clear)", 1);
	ret = mpt_dispatch_set(&disp, dom[di], 0, 0);
	vf_log("dispatch_set(id=%#" PRIxPTR ", NULL) = %d", dom[di], ret);
	snprintf(d, dn, " clear(%#" PRIxPTR ")%s", dom[di], model[di] ? "" : "!");
	if (model[di]) {
		VF_CHECK(ret >= 0, "model:clear:refused", "clearing registered id %#" PRIxPTR " returned %d", dom[di], ret);
		check_fins(1);
		model[di] = 0;
		vf_count("registration:cleared", 1);
	} else {
		VF_CHECK(ret < 0, "model:clear:unregistered-accepted", "clearing unregistered id %#" PRIxPTR " returned %d", dom[di], ret);
		check_fins(0);
	}
	check_table();
}
static void op_replace(vf_rng *r, int di, int del, char *d, size_t dn)
{
	struct reg *g = 0;
	int ret;
	begin_op(del ? "command_set(delete)" : "command_set");
	if (!del) {
		if (!(g = new_reg(dom[di]))) return;
		if (dom[di] == MPT_MESGTYPE(Command) && vf_chance(r, 2, 3)) g->forward = 1;
	}
	if (model[di]) model[di]->fin_allowed = 1;
	vf_fp_u64((del ? 0x400 : 0x300) + (uint64_t) di);
	vf_at("mpt_command_set");
	vf_count(del ? "mpt_command_set(delete)" : "mpt_command_set", 1);
	ret = mpt_command_set(&disp._d, dom[di], del ? 0 : (int (*)(void *, void *)) hnd, g);
	vf_log("command_set(id=%#" PRIxPTR ", %s) = %d%s", dom[di], del ? "NULL" : "handler", ret, model[di] ? " (replaces)" : "");
	snprintf(d, dn, " %s(%#" PRIxPTR ")", del ? "delete" : model[di] ? "replace" : "command_set", dom[di]);
	VF_CHECK(ret >= 0, "model:replace:refused", "command_set(id=%#" PRIxPTR ") returned %d", dom[di], ret);
	if (model[di]) { check_fins(1); vf_count(del ? "registration:deleted" : "registration:replaced", 1); }
	else check_fins(0);
	if (g) g->state = RegLive;
	model[di] = g;
	check_table();
}

struct evmsg {
	MPT_STRUCT(message) msg;
	struct iovec cont[3];
	uint8_t *part[4];
	size_t plen[4];
	int parts;
};
/* place bytes into 1..4 exact-size fragments */
static void build_msg(vf_rng *r, struct evmsg *m, const uint8_t *data, size_t len, int fragment)
{
	size_t off = 0;
	memset(m, 0, sizeof(*m));
	m->parts = fragment ? 2 + (int) vf_below(r, 3) : 1;
	for (int i = 0; i < m->parts; i++) {
		size_t n = (i == m->parts - 1) ? len - off : vf_below(r, (uint32_t) (len - off) + 1);
		if (fragment && i < m->parts - 1 && vf_chance(r, 1, 2)) n = vf_below(r, 3) < (len - off) ? vf_below(r, 3) : 0;
		if (n > len - off) n = len - off;
		m->plen[i] = n;
		m->part[i] = vf_xalloc(n);
		if (n) memcpy(m->part[i], data + off, n);
		off += n;
	}
	m->msg.base = m->part[0];
	m->msg.used = m->plen[0];
	for (int i = 1; i < m->parts; i++) {
		m->cont[i - 1].iov_base = m->part[i];
		m->cont[i - 1].iov_len = m->plen[i];
	}
	m->msg.cont = m->parts > 1 ? m->cont : 0;
	m->msg.clen = (size_t) m->parts - 1;
}
static void free_msg(struct evmsg *m)
{
	for (int i = 0; i < m->parts; i++) vf_xfree(m->part[i], m->plen[i]);
}
/* index of a PRNG-chosen live registration, or -1 */
static int pick_live(vf_rng *r, int limit)
{
	int n = 0, k;
	for (int i = 0; i < limit; i++) n += model[i] != 0;
	if (!n) return -1;
	k = (int) vf_below(r, (uint32_t) n);
	for (int i = 0; i < limit; i++) if (model[i] && !k--) return i;
	return -1;
}
static void make_plan(vf_rng *r)
{
	static const int errs[] = { -1, -2, -3, -4, -16, -17, -128 };
	if (vf_chance(r, 1, 6)) plan_ret = errs[vf_below(r, 7)];
	else {
		plan_ret = (int) vf_below(r, 8);   /* Default | Fail | Terminate */
		if (vf_chance(r, 1, 3)) plan_ret |= MPT_EVENTFLAG(Default);
	}
	plan_idmode = (int) vf_below(r, 8);
	if (plan_idmode > 2) plan_idmode = 0;
	plan_newid = dom[vf_below(r, NMSGID + NWORD + 4)];
	if (vf_chance(r, 2, 3)) { int k = pick_live(r, NDOM); if (k >= 0) plan_newid = dom[k]; }
	vf_fp_u64((uint64_t) (uint32_t) plan_ret); vf_fp_u64((uint64_t) plan_idmode);
}
/* compare result + default bookkeeping of an emit that reached a harness handler */
static void after_delivery(const char *what, int ret)
{
	if (last_ret < 0) {
		vf_count("monitor:error-propagated", 1);
		VF_CHECK(ret == last_ret, "model:emit:error-not-propagated", "%s: handler returned %d, emit returned %d", what, last_ret, ret);
		return;
	}
	if (last_ret & MPT_EVENTFLAG(Default)) {
		if (mdef != last_id) vf_count(last_id ? "default:set" : "default:cleared", 1);
		mdef = last_id;
	}
	{
		int want = (last_ret & ~MPT_EVENTFLAG(Default)) | (mdef ? MPT_EVENTFLAG(Default) : 0);
		vf_count("monitor:flags-compared", 1);
		VF_CHECK(ret == want, "model:emit:return-flags", "%s: handler returned %#x leaving id %#" PRIxPTR " (default now %#" PRIxPTR "), emit returned %#x, expected %#x",
		         what, last_ret, last_id, mdef, ret, want);
	}
}
/* word hash the way a registering caller computes it */
static uintptr_t word_id(int w) { return word_conv[w] ? mpt_hash(words[w], -1) : mpt_hash(words[w], (int) strlen(words[w])); }

/* set the expectation for a command message [Command, sep, text...] -> inner target */
static int command_bytes(vf_rng *r, uint8_t *dst, int *word, int *sep)
{
	int w = (int) vf_below(r, NWORD), n = 0;
	int s = vf_chance(r, 1, 2) ? 0 : ' ';
	const char *rest = vf_chance(r, 1, 2) ? "" : "arg1";
	if (vf_chance(r, 1, 2)) {
		/* prefer a word that has a registration */
		int cand[NWORD], nc = 0;
		for (int i = 0; i < NWORD; i++) if (model[NMSGID + i]) cand[nc++] = i;
		if (nc) w = cand[vf_below(r, (uint32_t) nc)];
	}
	dst[n++] = MPT_MESGTYPE(Command);
	dst[n++] = (uint8_t) s;
	if (s && vf_chance(r, 1, 4)) dst[n++] = ' ';      /* leading blank is skipped for blank separators */
	memcpy(dst + n, words[w], strlen(words[w])); n += (int) strlen(words[w]);
	if (*rest || vf_chance(r, 1, 2)) {
		dst[n++] = (uint8_t) s;                       /* separator (NUL or blank) */
		memcpy(dst + n, rest, strlen(rest)); n += (int) strlen(rest);
		if (*rest && !s && vf_chance(r, 1, 2)) dst[n++] = 0;
	}
	*word = w; *sep = s;
	return n;
}

static void op_emit(vf_rng *r, char *d, size_t dn)
{
	MPT_STRUCT(event) ev = MPT_EVENT_INIT;
	struct evmsg m;
	int form = (int) vf_below(r, 10), ret, di = -1, havemsg = 0;
	struct reg *target;
	uint8_t bytes[64];
	size_t blen = 0;
	int w = -1, sep = 0, reaches_lib_fallback = 0, empty = 0;
	uintptr_t id;

	begin_op("dispatch_emit");
	make_plan(r);
	if (form < 4) {
		/* explicit id */
		di = (int) vf_below(r, vf_chance(r, 3, 4) ? NMSGID + NWORD : NDOM);
		if (vf_chance(r, 3, 5)) { int k = pick_live(r, NDOM); if (k >= 0) di = k; }
		id = dom[di];
		if (nrsv && vf_chance(r, 1, 4)) { int k = (int) vf_below(r, (uint32_t) nrsv); id = rsv[k].id; di = -1; vf_count("emit:reserved-id", 1); }
		ev.id = id;
		snprintf(d, dn, " emit(id=%#" PRIxPTR ")", id);
	} else if (form < 7) {
		/* message: first byte is the id */
		di = (int) vf_below(r, NMSGID);
		if (vf_chance(r, 3, 5)) { int k = pick_live(r, NMSGID); if (k >= 0) di = k; }
		id = dom[di];
		bytes[blen++] = (uint8_t) id;
		blen += vf_below(r, 6);
		for (size_t i = 1; i < blen; i++) bytes[i] = (uint8_t) (0x40 + i);
		if (id == MPT_MESGTYPE(Command)) blen = (size_t) command_bytes(r, bytes, &w, &sep);
		if (vf_chance(r, 1, 25)) { blen = 0; empty = 1; }
		build_msg(r, &m, bytes, blen, vf_chance(r, 1, 2));
		havemsg = 1;
		ev.msg = &m.msg;
		ev.id = 0x5a5a;   /* must be replaced by the first message byte */
		snprintf(d, dn, " emit(msg[%zu]%s first=%#" PRIxPTR ")", blen, m.parts > 1 ? " fragmented" : "", id);
	} else if (form < 9) {
		/* default event */
		id = mdef;
		di = dom_index(id);
		snprintf(d, dn, " emit(default=%#" PRIxPTR ")", id);
	} else {
		/* command message through a forwarder, if one is registered */
		di = dom_index(MPT_MESGTYPE(Command));
		id = dom[di];
		blen = (size_t) command_bytes(r, bytes, &w, &sep);
		build_msg(r, &m, bytes, blen, vf_chance(r, 1, 2));
		havemsg = 1;
		ev.msg = &m.msg;
		ev.id = 0x5a5a;
		snprintf(d, dn, " emit(command \"%s\"%s)", wshow(w), m.parts > 1 ? " fragmented" : "");
	}
	vf_fp_u64(0x500 + (uint64_t) form); vf_fp_u64((uint64_t) id); vf_fp(bytes, blen);

	target = di >= 0 ? model[di] : find_live(id);
	if (form >= 7 && form < 9) {
		/* default event */
		vf_at("mpt_dispatch_emit");
		vf_count("mpt_dispatch_emit(default)", 1);
		if (!mdef) {
			ret = mpt_dispatch_emit(&disp, 0);
			vf_log("dispatch_emit(NULL) without default = %d", ret);
			VF_CHECK(op_events == 0, "model:emit:unexpected-delivery", "default emit without default id delivered an event");
			VF_CHECK(ret == 0, "model:emit:default-without-id", "default emit without default id returned %d", ret);
			check_fins(0); check_table();
			return;
		}
		if (!target) {
			/* default id lost its registration: outcome not specified beyond "no handler of another id"; adopt */
			ret = mpt_dispatch_emit(&disp, 0);
			vf_log("dispatch_emit(NULL) default %#" PRIxPTR " unregistered = %d, _def now %#" PRIxPTR, mdef, ret, disp._def);
			vf_count("default:dangling-emitted", 1);
			VF_CHECK(op_events == 0, "model:emit:unexpected-delivery", "default emit for unregistered default id %#" PRIxPTR " delivered an event", mdef);
			/* the dispatcher reports "invalid default command id" and drops that default: afterwards no
			 * default call is available (emit results must not advertise one, emit(NULL) is a no-op) */
			VF_CHECK(ret < 0, "model:default:dangling-emit-succeeded", "default emit for unregistered default id %#" PRIxPTR " returned %d", mdef, ret);
			VF_CHECK(disp._def == 0, "model:default:dangling-not-dropped", "default id %#" PRIxPTR " has no handler, default emit failed (%d) but the id is still kept as default (%#" PRIxPTR ")", mdef, ret, disp._def);
			mdef = 0;
			vf_count("monitor:default-dangling-dropped", 1);
			check_fins(0); check_table();
			return;
		}
		exp_reg = target; exp_id = mdef; exp_id_valid = 1; exp_msg = 0; exp_msg_valid = 1;
		ret = mpt_dispatch_emit(&disp, 0);
		vf_log("dispatch_emit(NULL) default %#" PRIxPTR " = %d", mdef, ret);
		VF_CHECK(op_events == 1, "model:emit:no-delivery", "default emit (id %#" PRIxPTR ") reached no handler, model says #%d", mdef, target->serial);
		vf_count("emit:delivered-default", 1);
		after_delivery("default emit", ret);
		check_fins(0); check_table();
		return;
	}
	if (empty) {
		/* no id in an empty message: nothing registered may be reached */
		exp_reg = fb;
		vf_at("mpt_dispatch_emit");
		vf_count("mpt_dispatch_emit(empty-message)", 1);
		ret = mpt_dispatch_emit(&disp, &ev);
		vf_log("dispatch_emit(empty message) = %d", ret);
		if (op_events) after_delivery("emit(empty)", ret);
		else { mdef = disp._def; }
		check_fins(0); check_table();
		free_msg(&m);
		return;
	}
	/* resolve */
	if (!target) {
		target = fb;
		if (!fb) reaches_lib_fallback = 1;
		vf_count("emit:unregistered-id", 1);
	}
	exp_reg = target; exp_id = id; exp_id_valid = 1;
	exp_msg = havemsg ? &m.msg : 0; exp_msg_valid = 1;
	/* forwarded command: inner target */
	if (target && target->forward && havemsg && bytes[0] == MPT_MESGTYPE(Command) && w >= 0) {
		int wi = dom_index(word_id(w));
		fw_id = word_id(w);
		fw_reg = model[wi] ? model[wi] : fb;
		if (!fw_reg && !fb) { /* library fallback handles it: no harness delivery inside */ }
		vf_count("emit:forwarded-command", 1);
	}
	if (vf_logging && havemsg) {
		char hx[160];
		vf_log("dispatch_emit: message %s in %d part(s) of %zu/%zu/%zu/%zu bytes", vf_hex(hx, sizeof(hx), bytes, blen), m.parts,
		       m.plen[0], m.plen[1], m.plen[2], m.plen[3]);
	}
	vf_at("mpt_dispatch_emit");
	vf_count(havemsg ? "mpt_dispatch_emit(message)" : "mpt_dispatch_emit(id)", 1);
	if (m.parts > 1 && havemsg) vf_count("emit:fragmented-message", 1);
	ret = mpt_dispatch_emit(&disp, &ev);
	vf_log("dispatch_emit(%s id=%#" PRIxPTR ") = %d, ev.id=%#" PRIxPTR ", _def=%#" PRIxPTR, havemsg ? "message" : "id", id, ret, ev.id, disp._def);
	if (reaches_lib_fallback) {
		/* the library's own "unknown event" handler answers: only "none of ours" is claimed */
		VF_CHECK(op_events == 0, "model:emit:unexpected-delivery", "emit of unregistered id %#" PRIxPTR " delivered to a harness handler", id);
		mdef = disp._def;
		vf_count("monitor:default-adopted", 1);
		vf_count("emit:library-fallback", 1);
	} else {
		VF_CHECK(op_events >= 1, "model:emit:no-delivery", "emit of id %#" PRIxPTR " reached no handler, model says #%d%s", id, target->serial, target->fallback ? " (fallback)" : "");
		vf_count(target->fallback ? "emit:delivered-fallback" : "emit:delivered-registered", 1);
		if (fw_reg == 0 && op_events == 1 && target->forward && havemsg && bytes[0] == MPT_MESGTYPE(Command)) {
			/* forwarded to the library fallback: flags are its business; adopt default */
			if (last_ret >= 0 && (last_ret & MPT_EVENTFLAG(Default))) mdef = last_id;
			VF_CHECK(ret < 0 || !!(ret & MPT_EVENTFLAG(Default)) == !!disp._def, "model:emit:return-flags", "emit returned %#x with default %#" PRIxPTR, ret, disp._def);
			mdef = disp._def;
		} else {
			after_delivery("emit", ret);
		}
	}
	check_fins(0); check_table();
	if (havemsg) free_msg(&m);
}

/* direct mpt_dispatch_hash */
static void op_hash(vf_rng *r, char *d, size_t dn)
{
	MPT_STRUCT(event) ev = MPT_EVENT_INIT;
	struct evmsg m;
	uint8_t bytes[64];
	int w, sep, ret, wi;
	size_t blen;
	struct reg *target;

	begin_op("dispatch_hash");
	make_plan(r);
	blen = (size_t) command_bytes(r, bytes, &w, &sep);
	if (vf_chance(r, 1, 6) && !sep) { bytes[0] = MPT_MESGTYPE(Output); bytes[1] = 0x33; }   /* other types: argument byte ignored, NUL separated */
	build_msg(r, &m, bytes, blen, vf_chance(r, 1, 2));
	ev.msg = &m.msg;
	ev.id = 0x5a5a;
	wi = dom_index(word_id(w));
	target = model[wi] ? model[wi] : fb;
	exp_reg = target; exp_id = word_id(w); exp_id_valid = 1; exp_msg = &m.msg; exp_msg_valid = 1;
	vf_fp_u64(0x600); vf_fp(bytes, blen); vf_fp_u64((uint64_t) m.parts);
	snprintf(d, dn, " hash(\"%s\" sep=%d%s%s)", wshow(w), sep, word_conv[w] ? " id=hash(word,-1)" : "", m.parts > 1 ? " fragmented" : "");
	if (vf_logging) {
		char hx[160];
		vf_log("dispatch_hash: message %s in %d part(s) of %zu/%zu/%zu/%zu bytes, word \"%s\" id %#" PRIxPTR, vf_hex(hx, sizeof(hx), bytes, blen), m.parts,
		       m.plen[0], m.plen[1], m.plen[2], m.plen[3], wshow(w), word_id(w));
	}
	vf_at("mpt_dispatch_hash");
	vf_count("mpt_dispatch_hash", 1);
	if (m.parts > 1) vf_count("hash:fragmented-message", 1);
	if (word_high(w)) {
		vf_count("hash:high-bit-word", 1);
		if (m.parts > 1) vf_count("hash:high-bit-word-fragmented", 1);
		if (model[wi]) vf_count(word_conv[w] ? "hash:high-bit-registered-terminated-form" : "hash:high-bit-registered-counted-form", 1);
	}
	ret = mpt_dispatch_hash(&disp, &ev);
	vf_log("dispatch_hash(\"%s\", sep=%d, %d part(s)) = %d ev.id=%#" PRIxPTR, wshow(w), sep, m.parts, ret, ev.id);
	if (!target) {
		VF_CHECK(op_events == 0, "model:emit:unexpected-delivery", "hash dispatch of unregistered command \"%s\" delivered to a harness handler", wshow(w));
		vf_count("hash:library-fallback", 1);
	} else {
		VF_CHECK(op_events == 1, "model:hash:no-delivery", "hash dispatch of \"%s\" (id %#" PRIxPTR ") reached no handler, model says #%d%s", wshow(w), word_id(w), target->serial,
		         target->fallback ? " (fallback)" : "");
		vf_count(target->fallback ? "hash:delivered-fallback" : "hash:delivered-registered", 1);
		if (last_ret >= 0) {
			vf_count("monitor:hash-return-compared", 1);
			VF_CHECK(ret == last_ret, "model:hash:return", "hash dispatch: handler returned %#x, call returned %#x", last_ret, ret);
		} else {
			vf_count("hash:handler-error", 1);
		}
	}
	/* hash dispatch on its own does no default bookkeeping that is specified: adopt */
	mdef = disp._def;
	check_fins(0); check_table();
	free_msg(&m);
}

/* --------------------------------------------------- reservation table */
#define MAXWAIT 160
static MPT_STRUCT(array) wait;
static struct { uintptr_t id; struct reg *g; int width; int own; } live[MAXWAIT];
static int nlive;

static uintptr_t width_max(size_t w)
{
	if (w >= 8) return (uintptr_t) INT64_MAX;
	if (!w) return 0;
	return ((uintptr_t) 1 << (8 * w - 1)) - 1;
}
static void check_wait(void)
{
	for (int i = 0; i < nlive; i++) {
		MPT_STRUCT(command) *c = mpt_command_get(&wait, live[i].id);
		VF_CHECK(c != 0, "model:reserve:lost-registration", "after %s: live reserved id %#" PRIxPTR " is not found", cur_op, live[i].id);
		if (live[i].own) {
			VF_CHECK(c->arg == live[i].g && c->cmd == (int (*)(void *, void *)) hnd, "model:reserve:wrong-entry",
			         "after %s: reserved id %#" PRIxPTR " resolves to argument %p, expected registration #%d", cur_op, live[i].id, c->arg, live[i].g->serial);
		} else {
			VF_CHECK(c->cmd != 0 && c->arg == (void *) live[i].id, "model:reserve:wrong-entry", "after %s: reserved id %#" PRIxPTR " resolves to argument %p", cur_op, live[i].id, c->arg);
		}
	}
	vf_count("monitor:reserved-compared", 1);
}
static void op_reserve(vf_rng *r, size_t width, char *d, size_t dn)
{
	MPT_STRUCT(command) *c;
	begin_op("command_reserve");
	vf_fp_u64(0x700 + width);
	vf_at("mpt_command_reserve");
	vf_count("mpt_command_reserve", 1);
	c = mpt_command_reserve(&wait, width);
	vf_log("command_reserve(width=%zu) = %p id=%#" PRIxPTR " (%d live)", width, (void *) c, c ? c->id : 0, nlive);
	snprintf(d, dn, " reserve(%zu)%s", width, c ? "" : "!");
	VF_CHECK(op_events == 0 && op_fins == 0, "model:reserve:handler-invoked", "command_reserve invoked a handler");
	if (!c) {
		vf_count("reserve:refused", 1);
		check_wait();
		return;
	}
	vf_count("monitor:reserved-id-unique", 1);
	for (int i = 0; i < nlive; i++)
		VF_CHECK(live[i].id != c->id, "model:reserve:duplicate-id", "command_reserve(width=%zu) returned id %#" PRIxPTR " which is live (%d live ids)", width, c->id, nlive);
	VF_CHECK(c->id != 0, "model:reserve:zero-id", "command_reserve(width=%zu) returned id 0", width);
	VF_CHECK(c->id <= width_max(width), "model:reserve:id-exceeds-width", "command_reserve(width=%zu) returned id %#" PRIxPTR ", largest id of that width is %#" PRIxPTR,
	         width, c->id, width_max(width));
	VF_CHECK(c->cmd != 0, "model:reserve:inactive", "command_reserve returned an entry without handler");
	if (nlive >= MAXWAIT) { c->cmd = 0; return; }
	live[nlive].id = c->id; live[nlive].width = (int) width; live[nlive].own = 0; live[nlive].g = 0;
	if (vf_chance(r, 4, 5)) {
		struct reg *g = new_reg(c->id);
		if (g) {
			g->wait = 1; g->state = RegLive;
			c->cmd = (int (*)(void *, void *)) hnd;
			c->arg = g;
			live[nlive].own = 1; live[nlive].g = g;
		}
	}
	nlive++;
	vf_max("max:live-reserved", (uint64_t) nlive);
	check_wait();
}
static void op_release(vf_rng *r, char *d, size_t dn)
{
	int i = (int) vf_below(r, (uint32_t) nlive), how = (int) vf_below(r, 2);
	MPT_STRUCT(command) *c;
	begin_op("reserve_release");
	vf_fp_u64(0x800 + (uint64_t) i);
	c = mpt_command_get(&wait, live[i].id);
	VF_CHECK(c != 0, "model:reserve:lost-registration", "release: live reserved id %#" PRIxPTR " is not found", live[i].id);
	snprintf(d, dn, " release(%#" PRIxPTR ")", live[i].id);
	if (how && live[i].own) {
		int ret;
		live[i].g->fin_allowed = 1;
		vf_at("mpt_command_set");
		vf_count("mpt_command_set(delete)", 1);
		ret = mpt_command_set(&wait, live[i].id, 0, 0);
		VF_CHECK(ret >= 0, "model:replace:refused", "command_set(delete reserved id %#" PRIxPTR ") = %d", live[i].id, ret);
		check_fins(1);
	} else {
		/* the way stream_sync deregisters: handler pointer cleared by the owner */
		c->cmd = 0;
		if (live[i].own) { live[i].g->state = RegDead; live[i].g->fin = 1; }
	}
	live[i] = live[--nlive];
	vf_count("reserve:released", 1);
	check_wait();
}

/* mpt_command_reserve on the dispatcher's own table (what dispatch::reserve() of the C++ layer does) */
static int op_reserve_own(vf_rng *r, char *d, size_t dn)
{
	size_t width = 1 + vf_below(r, 8);
	MPT_STRUCT(command) *c;
	struct reg *g;
	uintptr_t wmax = width >= 8 ? (uintptr_t) INT64_MAX : ((uintptr_t) 1 << (8 * width - 1)) - 1;
	int di, empty = disp._d._buf == 0;

	begin_op("command_reserve(dispatcher table)");
	vf_fp_u64(0xa00 + width);
	vf_at("mpt_command_reserve");
	vf_count("mpt_command_reserve(dispatcher table)", 1);
	c = mpt_command_reserve(&disp._d, width);
	vf_log("command_reserve(dispatcher table%s, width=%zu) = %p id=%#" PRIxPTR, empty ? " [empty]" : "", width, (void *) c, c ? c->id : 0);
	snprintf(d, dn, " reserve-own(%zu)%s%s", width, empty ? "[first]" : "", c ? "" : "!");
	VF_CHECK(op_events == 0 && op_fins == 0, "model:reserve:handler-invoked", "command_reserve on the dispatcher table invoked a handler");
	if (!c) {
		vf_count("reserve-own:refused", 1);
		check_table();
		return 0;
	}
	vf_count("monitor:reserved-id-unique", 1);
	VF_CHECK(c->id != 0, "model:reserve:zero-id", "command_reserve(width=%zu) on the dispatcher table returned id 0", width);
	VF_CHECK(!find_live(c->id), "model:reserve:duplicate-id", "command_reserve(width=%zu) on the dispatcher table returned id %#" PRIxPTR " which registration #%d holds",
	         width, c->id, find_live(c->id) ? find_live(c->id)->serial : -1);
	VF_CHECK(c->id <= wmax, "model:reserve:id-exceeds-width", "command_reserve(width=%zu) returned id %#" PRIxPTR ", largest id of that width is %#" PRIxPTR, width, c->id, wmax);
	VF_CHECK(c->cmd != 0, "model:reserve:inactive", "command_reserve returned an entry without handler");
	di = dom_index(c->id);
	if ((di < 0 && nrsv >= MAXRSV) || !(g = new_reg(c->id))) {
		c->cmd = 0;     /* given back by the owner */
		check_table();
		return 0;
	}
	g->state = RegLive;
	c->cmd = (int (*)(void *, void *)) hnd;
	c->arg = g;
	if (di >= 0) model[di] = g;
	else { rsv[nrsv].id = c->id; rsv[nrsv].g = g; nrsv++; }
	vf_count(empty ? "reserve-own:first-table-operation" : "reserve-own:accepted", 1);
	check_table();
	return empty ? 2 : 1;
}
static void op_clear_rsv(vf_rng *r, char *d, size_t dn)
{
	int k = (int) vf_below(r, (uint32_t) nrsv), ret;
	begin_op("dispatch_clear(reserved id)");
	rsv[k].g->fin_allowed = 1;
	vf_fp_u64(0xb00 + (uint64_t) k);
	vf_at("mpt_dispatch_set");
	vf_count("mpt_dispatch_set(clear)", 1);
	ret = mpt_dispatch_set(&disp, rsv[k].id, 0, 0);
	vf_log("dispatch_set(reserved id=%#" PRIxPTR ", NULL) = %d", rsv[k].id, ret);
	snprintf(d, dn, " clear(%#" PRIxPTR ")", rsv[k].id);
	VF_CHECK(ret >= 0, "model:clear:refused", "clearing reserved id %#" PRIxPTR " returned %d", rsv[k].id, ret);
	check_fins(1);
	rsv[k] = rsv[--nrsv];
	vf_count("reserve-own:cleared", 1);
	check_table();
}

/* ------------------------------------------------------------------ case */
static void install_fallback(void)
{
	/* as examples/io/dispatch.c: fields set directly; the library default needs no end-of-life call */
	fb = new_reg(0);
	fb->fallback = 1;
	fb->state = RegLive;
	disp._err.cmd = hnd;
	disp._err.arg = fb;
}
static void do_fini(void)
{
	int want = 0;
	begin_op("dispatch_fini");
	for (int i = 0; i < nreg; i++) {
		if (regs[i].state == RegLive && !regs[i].wait) { regs[i].fin_allowed = 1; want++; }
	}
	vf_at("mpt_dispatch_fini");
	vf_count("mpt_dispatch_fini", 1);
	mpt_dispatch_fini(&disp);
	vf_log("dispatch_fini: %d end-of-life notifications, %d expected", op_fins, want);
	VF_CHECK(op_events == 0, "model:emit:unexpected-delivery", "dispatch_fini delivered an event");
	check_fins(want);
	memset(model, 0, sizeof(model));
	nrsv = 0;
	fb = 0; mdef = 0;
	disp_live = 0;
}
static void do_init(vf_rng *r)
{
	vf_at("mpt_dispatch_init");
	vf_count("mpt_dispatch_init", 1);
	memset(&disp, 0xEE, sizeof(disp));
	mpt_dispatch_init(&disp);
	disp_live = 1;
	nrsv = 0;
	memset(model, 0, sizeof(model));
	fb = 0; mdef = 0;
	if (!vf_chance(r, 1, 5)) install_fallback();
}

static void case_dispatch(vf_rng *r)
{
	int nops = vf_range(r, 10, vf_thorough ? 120 : 70);
	char desc[1900], one[160];
	size_t dl = 0;
	int grew = 0, reused = 0, emits = 0, maxlive = 0, hadfree = 0, rawtable = 0;

	nreg = 0;
	do_init(r);
	dl += (size_t) snprintf(desc, sizeof(desc), "fallback=%s:", fb ? "harness" : "library");
	vf_fp_u64(fb ? 1 : 0);
	/* a dispatcher whose table is created by a reservation (raw table) */
	if (vf_chance(r, 1, 4)) {
		if (op_reserve_own(r, one, sizeof(one)) == 2) rawtable = 1;
		dl += (size_t) snprintf(desc + dl, sizeof(desc) - dl, "%s", one);
	}
	for (int i = 0; i < nops && nreg < MAXREG - 4; i++) {
		uint32_t c = vf_below(r, 100);
		int di, nl = 0;
		one[0] = 0;
		for (int k = 0; k < NDOM; k++) nl += model[k] != 0;
		/* a bias phase fills the table to force growth, another empties it to create free slots */
		di = (int) vf_below(r, vf_chance(r, 1, 2) ? NMSGID + NWORD : NDOM);
		if (c < 28) {
			if (model[di] == 0 && hadfree) reused++;
			op_set(r, di, one, sizeof(one));
		} else if (c < 40) {
			/* prefer clearing something that exists */
			if (!model[di] && nl && vf_chance(r, 3, 4)) { do { di = (int) vf_below(r, NDOM); } while (!model[di]); }
			if (model[di]) hadfree = 1;
			op_clear(di, one, sizeof(one));
		} else if (c < 50) {
			if (!model[di] && nl && vf_chance(r, 3, 4)) { do { di = (int) vf_below(r, NDOM); } while (!model[di]); }
			op_replace(r, di, vf_chance(r, 1, 6), one, sizeof(one));
		} else if (c < 85) {
			op_emit(r, one, sizeof(one)); emits++;
		} else if (c < 94) {
			op_hash(r, one, sizeof(one)); emits++;
		} else if (c < 97 || (c < 98 && !nrsv)) {
			if (op_reserve_own(r, one, sizeof(one)) == 2) rawtable = 1;
		} else if (c < 98) {
			op_clear_rsv(r, one, sizeof(one));
		} else {
			int live = 0;
			for (int k = 0; k < nreg; k++) live += regs[k].state == RegLive && !regs[k].fallback;
			if (rawtable && live) vf_count("fini:reserve-created-table-with-live-handlers", 1);
			do_fini();
			do_init(r);
			rawtable = 0;
			snprintf(one, sizeof(one), " fini+init(fallback=%s)", fb ? "harness" : "library");
			if (vf_chance(r, 1, 4)) {
				size_t ol = strlen(one);
				if (op_reserve_own(r, one + ol, sizeof(one) - ol) == 2) rawtable = 1;
			}
			hadfree = 0;
		}
		nl = 0;
		for (int k = 0; k < NDOM; k++) nl += model[k] != 0;
		if (nl > maxlive) maxlive = nl;
		if (nl > 2) grew = 1;
		if (dl + strlen(one) + 2 < sizeof(desc)) { memcpy(desc + dl, one, strlen(one) + 1); dl += strlen(one); }
	}
	{
		int live = 0;
		for (int k = 0; k < nreg; k++) live += regs[k].state == RegLive && !regs[k].fallback;
		if (rawtable && live) vf_count("fini:reserve-created-table-with-live-handlers", 1);
	}
	do_fini();
	/* every registration that ever became live ended exactly once */
	for (int i = 0; i < nreg; i++) {
		if (regs[i].state == RegNever) continue;
		vf_count("monitor:lifetime-accounted", 1);
		VF_CHECK(regs[i].fin == 1 && regs[i].state == RegDead, "model:finalise:missing",
		         "at the end registration #%d (id %#" PRIxPTR "%s) has %d end-of-life notifications", regs[i].serial, regs[i].id, regs[i].fallback ? ", fallback" : "", regs[i].fin);
	}
	if (grew) vf_count("history:table-grew", 1);
	if (reused) vf_count("history:freed-slot-reused", 1);
	vf_max("max:live-registrations", (uint64_t) maxlive);
	if (emits >= 3 && maxlive >= 2) vf_nontrivial();
	vf_sample("%s fini  => %d registrations, max %d live", desc, nreg, maxlive);
}

static void case_reserve(vf_rng *r)
{
	int mode = (int) vf_below(r, 3);   /* 0 mixed widths, 1 width 1 long run (id wrap), 2 fill width 1 */
	int nops = mode == 0 ? vf_range(r, 10, 60) : mode == 1 ? vf_range(r, 140, 300) : 140;
	int keep = mode == 1 ? vf_range(r, 1, 12) : MAXWAIT - 1;
	char desc[1200], one[64];
	size_t dl = 0;
	int wrapped = 0, nres = 0;
	uintptr_t lastid = 0;

	nreg = 0; nlive = 0;
	memset(&wait, 0, sizeof(wait));
	dl += (size_t) snprintf(desc, sizeof(desc), "reserve mode %d:", mode);
	vf_fp_u64(0x900 + (uint64_t) mode);
	for (int i = 0; i < nops && nreg < MAXREG - 2; i++) {
		size_t width = mode ? 1 : 1 + vf_below(r, 8);
		int rel = nlive && (nlive >= keep || vf_chance(r, mode == 2 ? 1 : 2, mode == 2 ? 12 : 5));
		one[0] = 0;
		if (!mode && vf_chance(r, 1, 30)) width = 0;
		if (rel) op_release(r, one, sizeof(one));
		else {
			int before = nlive;
			op_reserve(r, width, one, sizeof(one));
			if (nlive > before) {
				nres++;
				if (live[nlive - 1].id < lastid) wrapped = 1;
				lastid = live[nlive - 1].id;
			}
		}
		if (dl + strlen(one) + 2 < sizeof(desc)) { memcpy(desc + dl, one, strlen(one) + 1); dl += strlen(one); }
	}
	/* teardown: remaining handlers get their end-of-life from mpt_command_clear */
	begin_op("command_clear");
	{
		int want = 0;
		for (int i = 0; i < nlive; i++) if (live[i].own) { live[i].g->fin_allowed = 1; want++; }
		vf_at("mpt_command_clear");
		vf_count("mpt_command_clear", 1);
		mpt_command_clear(&wait);
		check_fins(want);
		vf_at("mpt_array_clone");
		mpt_array_clone(&wait, 0);
	}
	for (int i = 0; i < nreg; i++) {
		vf_count("monitor:lifetime-accounted", 1);
		VF_CHECK(regs[i].fin == 1, "model:finalise:missing", "reserved registration #%d (id %#" PRIxPTR ") has %d end-of-life notifications", regs[i].serial, regs[i].id, regs[i].fin);
	}
	if (wrapped) vf_count("history:reserved-id-wrapped", 1);
	if (nres >= 3) vf_nontrivial();
	vf_sample("%s clear  => %d reservations%s", desc, nres, wrapped ? ", ids wrapped around the width" : "");
}

/* per case: two generated words with bytes 0x80..0xff, length convention of every word's id, and the direct
 * comparison of the two length conventions of the hash */
static void check_hash_forms(const char *str)
{
	int len = (int) strlen(str);
	uintptr_t a, b;
	char hx[80];
	vf_at("mpt_hash_djb2");
	vf_count("mpt_hash_djb2", 2);
	a = mpt_hash_djb2(str, -1);
	b = mpt_hash_djb2(str, len);
	vf_count("monitor:hash-forms-compared", 1);
	VF_CHECK(a == b, "model:hash:length-convention", "mpt_hash_djb2(bytes %s, -1) = %#" PRIxPTR " but mpt_hash_djb2(same, %d) = %#" PRIxPTR,
	         vf_hex(hx, sizeof(hx), str, (size_t) len), a, len, b);
	vf_at("mpt_hash");
	vf_count("mpt_hash", 2);
	a = mpt_hash(str, -1);
	b = mpt_hash(str, len);
	VF_CHECK(a == b, "model:hash:length-convention", "mpt_hash(bytes %s, -1) = %#" PRIxPTR " but mpt_hash(same, %d) = %#" PRIxPTR,
	         vf_hex(hx, sizeof(hx), str, (size_t) len), a, len, b);
}
static void make_words(vf_rng *r)
{
	for (int i = 0; i < NFIXW; i++) strcpy(words[i], fixwords[i]);
	for (int i = NFIXW; i < NWORD; i++) {
		int again;
		do {
			int len = 2 + (int) vf_below(r, 9), high = 0;
			for (int k = 0; k < len; k++) {
				unsigned c = vf_chance(r, 2, 3) ? 0x80 + vf_below(r, 0x80) : (unsigned) "abcxyz_019"[vf_below(r, 10)];
				if (c & 0x80) high = 1;
				words[i][k] = (char) c;
			}
			words[i][len] = 0;
			again = !high;
			/* the id domain must stay free of duplicates: no second word with the same text or the same hash
			 * (short words collide easily), no hash equal to a message or bulk id */
			for (int k = 0; k < i; k++) {
				if (!strcmp(words[k], words[i])) again = 1;
				if (mpt_hash(words[k], (int) strlen(words[k])) == mpt_hash(words[i], len)) again = 1;
			}
			for (int k = 0; k < NMSGID; k++) if (msgids[k] == mpt_hash(words[i], len)) again = 1;
			for (int k = 0; k < NBULK; k++) if (0x1000 + (uintptr_t) k * 3 == mpt_hash(words[i], len)) again = 1;
		} while (again);
	}
	for (int i = 0; i < NWORD; i++) {
		word_conv[i] = vf_chance(r, 1, 2);
		check_hash_forms(words[i]);
		if (word_high(i)) vf_count("monitor:hash-forms-high-bit", 1);
	}
	/* a few more strings: any bytes except NUL */
	for (int i = 0; i < 3; i++) {
		char tmp[40];
		int len = (int) vf_below(r, 33);
		for (int k = 0; k < len; k++) tmp[k] = (char) (1 + vf_below(r, 255));
		tmp[len] = 0;
		check_hash_forms(tmp);
	}
}

uint64_t vf_cases(void) { return vf_thorough ? 1000000 : 100000; }

void vf_case(uint64_t idx, vf_rng *r)
{
	/* id domain (hashes come from the library's own hash function, as for a registering caller) */
	int n = 0;
	for (int i = 0; i < NMSGID; i++) dom[n++] = msgids[i];
	make_words(r);
	for (int i = 0; i < NWORD; i++) dom[n++] = word_id(i);
	for (int i = 0; i < NBULK; i++) dom[n++] = 0x1000 + (uintptr_t) i * 3;
	if (idx % 8 == 7) case_reserve(r);
	else case_dispatch(r);
}
